#!/usr/bin/env python3
"""Generates MANIFEST.json from the table below (kept next to the checks so it stays current)."""
import json

CHECKS = {
 "C13": dict(level="model_checking", engine="E2",
   technique="deviation-bounded exhaustive schedule exploration (iterative context bounding) of all tasks of two real Litep2p nodes with the real request-response protocol on SimNet, outer enumeration of requester programs x responder behaviours x faults x payload sizes; per-request ledger oracle",
   text="44 scenario programs (1-3 requests to one peer, connected or dial-on-demand, cancel at each position, link cut, dial failure, no-dial option, try_send, payload sizes 0/1/max/max+1, inbound bound 1) x responder {answer, reject, stall}: for each, every interleaving of manager loops, protocol event loops, per-connection tasks, per-request futures and user tasks with at most 2 (quick) / 3 (thorough) deviations from the FIFO schedule is executed to quiescence on the real code, with virtual time stepped past the request timeout. Ledger: every issued request id gets at most one terminal event, exactly one unless cancelled, responses byte-equal what the responder supplied for that request, each request reaches the responder at most once, inbound concurrency bound respected, no panic.",
   note="SimNet: real Litep2p, TransportManager, TransportService, ProtocolSet, yamux, multistream-select and substreams; the per-connection task mirrors transport/tcp/connection.rs; Noise/TCP replaced by an in-memory pipe. Poll-granularity interleavings; randomness (HashMap keys, select! order, key generation) is made deterministic per execution (fresh thread + interposed getrandom + runtime rng seed). Defect found and repaired (pending_dials overwrite).",
   design="§4 C13"),
 "C01": dict(level="fault_enumeration", engine="E3",
   technique="exhaustive fault enumeration on the real Noise handshake (both roles as driver tasks over the scripted carrier): every byte offset x mask, every truncation offset, cross-session substitutions, a snow-based rogue peer with 34 forged payload variants, dialed-peer expectations, fragmentations with bounded Pending injection",
   text="Every byte offset (incl. length prefixes) of the three handshake messages is corrupted with 9 (quick) / 255 (thorough) masks, every truncation offset is cut, every message is substituted by the same-index or another message of a second recorded session, and a rogue peer holding a VALID Noise session presents 34 identity-payload variants (missing/forged/foreign-session/no-domain/short/long signatures, unknown or truncated keys, non-canonical key encodings, extra fields) in both roles; the dialed-peer expectation {None, actual, other} is exercised through the real TcpConnection::open_connection over loopback sockets; the honest stream is fragmented (1/2/3/7-byte reads, a split at every offset, partial writes, small windows, <=2 injected Pendings). Oracle: Ok(P) only when P is the hash of the identity key the other side proved, the side that consumed altered bytes errs, never both Ok after any alteration, outcome independent of fragmentation.",
   note="Noise DH keys are random per run (verdicts depend only on accept/reject and key equality); identity keys from fixed seeds. A stalled handshake is resolved by advancing virtual time past the handshake timeout. Deviation bound completed: 2 injected Pendings (pairs sampled every 101st for the byte-at-a-time base in quick, all in thorough). Defect found and repaired (peer id derived from raw key bytes).",
   design="§4 C01"),
 "C02": dict(level="fault_enumeration", engine="E3",
   technique="bounded exhaustive enumeration of write-size sequences x reader buffers x buffering configurations x carrier behaviours (chunking, frame-boundary splits, partial writes, windows, <=2 injected Pendings) and of ciphertext attacks on the real NoiseSocket pair; byte-FIFO reference",
   text="Real NoiseSockets from an honest handshake transfer deterministic plaintext: all boundary sizes (1..200000 incl. 65518..65521, 131040/131041), pairs and triples, 9 reader buffer sizes, 9 (read-ahead, write-buffer) settings, both flush disciplines, raw single writes, both roles; for 9 representative sequences the full carrier grid (read chunk 1/2/3/65537, a split 0-3 bytes into and 1 byte before the end of every frame, write acceptance 1 / n-1, windows inf/65536/10) and every single and (subset / all) pair of spurious Pending positions. Attacks on recorded ciphertext of the same session: bit flips in each length byte, first/middle/last ciphertext byte and each tag byte, drop, duplicate, late replay, swap, truncation at 7 position classes. Oracle: reader output equals the FIFO of accepted bytes; attacked runs deliver only an authentic in-order prefix followed by an error, never an altered byte.",
   note="End of stream is accepted as either Ok(0) or Err(UnexpectedEof) after the last byte (statement silent). Truncation exactly at a frame boundary followed by close cannot be detected by Noise itself and is accepted as clean end. A further poll_read after the socket already returned the required error panics inside NoiseSocket: outside the statement, counted as an observation. Defect found and repaired (frame limit 65520).",
   design="§4 C02"),
 "C03": dict(level="exploration", engine="E3",
   technique="exhaustive enumeration of dialer lists x listener sets x versions x pairings with the libp2p reference implementation x carriers x payloads, two driver tasks per case; message-based variant enumerated over groupings",
   text="All 40 ordered dialer lists of length <=3 over 4 names x all 16 listener subsets in two listener orders (+ long 100/126/127/300-byte names), V1 and V1Lazy, litep2p<->litep2p and litep2p against multistream-select 0.13 in either role, whole / 1-byte / partial-write carriers, both task poll orders, a short read ending at every offset, every single (and every pair, subset in quick) injected Pending, payloads none/1 B/3 B/70 KiB written immediately by either side. Oracle: both sides terminate, agree on the dialer's first supported name or both fail, bytes after negotiation arrive exactly, nothing is swallowed. Message-based (WebRTC) negotiation over main + <=2 fallbacks x listener subsets x header/protocol groupings x trailing bytes, forged confirmations of unproposed names, and the fallback-name -> (main, Some(fallback)) mapping through the real ProtocolSet::report_substream_open.",
   note="Reference = multistream-select 0.13 from the cargo cache. Production TCP code only uses Version::V1. Known finding F9 (trailing application bytes dropped by the message-based dialer).",
   design="§4 C03"),
 "C04": dict(level="exploration", engine="E3",
   technique="bounded exhaustive enumeration of codecs x message-size sequences x send APIs x reader patterns x carrier behaviours on real TCP-flavoured substreams over real yamux over the scripted carrier; raw malformed length prefixes fed to the receiver",
   text="Real litep2p Substreams (the TCP flavour, over yamux 0.13 over the scripted duplex) for Identity(1,10,1023,1024,1025,4096) and UnsignedVarint(0,1,127,128,300,16384,70000,None): singletons over the full size set and all sequences of length <=3 over reduced sets incl. sizes beyond the 256 KiB yamux window, through send / feed+flush / send_framed, with an eager reader, a reader that starts only after the writer reported completion (writer no longer polled) and a pausing reader; fragmented carriers, every single and pair of injected Pending positions. Oracle: received == accepted sends, oversize refused at the sender, completion implies nothing queued in the sink, no hang, no panic. Receiver: every varint prefix of <=3 bytes over {00,7f,80,ff} plus selected 4..10-byte shapes (overlong, overflowing, > max, == max, 2^32, 2^63) x {no payload, short payload, EOF} against a reference parser.",
   note="What the receiver delivers after it has reported a framing error is not constrained by the statement and not compared. Claimed lengths between 2^24 and 2^63 under UnsignedVarint(None) would abort the process on allocation and are not enumerated. Four defects found and repaired.",
   design="§4 C04"),
 "C19": dict(level="exploration", engine="E3",
   technique="exhaustive enumeration of a structured neighbourhood of valid encodings (every truncation, every single-byte substitution from 6 values, every splice of corpus pairs, extreme varints at every length-prefix position with and without re-encoded enclosing lengths, all byte strings of length <=2) through every network-facing decoder, with a per-thread counting allocator",
   text="Twelve decoders (multistream Message, message-based listener/dialer negotiation, the two stream negotiation futures fed canned streams, KademliaMessage::from_bytes for several replication factors, RemotePublicKey, PeerId, the Noise handshake payload verifier, Bitswap message/prefix/CID parsing, the Identify schema) are run on every input of the neighbourhood built from litep2p's own encoders' output: no panic, termination (async ones under the deterministic driver; 30 s watchdog for sync ones), peak bytes allocated by the call <= configured limit + 16*|input| + 64 KiB, and encode->decode round trips for the whole corpus.",
   note="Bounded structured neighbourhood, not all byte strings. Identify's and Bitswap's async receive paths are not run here (only their decoding steps); substream length prefixes are C04's. One defect found and repaired (per-peer preallocation).",
   design="§4 C19"),
 "C05": dict(level="model_checking", engine="E1",
   technique="explicit-state BFS over stimulus histories of a real Litep2p (real TransportManager/PeerState/limits/address store) over a scripted transport; per-attempt outcome ledger, silence check, quiescent re-dial probes",
   text="All histories up to depth 5 (quick) / 7 (thorough) of dial, dial_address, add_known_address, protocol-side dial, every feasible transport answer for every outstanding call (opened with/without partial errors, open failure, established, dial failure), inbound connections from the same peers, accept completion, closures and a local protocol exiting, under four limit configurations, on the real node. Ledger by connection id: each started attempt gets exactly one of established / failure naming dialed addresses / superseded-by-accepted-connection; an attempt with no network activity left and no outcome is silence; at every new state a throw-away rebuild probes that an idle, unconnected peer with addresses is really dialed again.",
   note="The scripted transport is restricted to what the real TcpTransport can do (no event after cancel/reject, negotiate cannot fail after ConnectionOpened, fresh ids for inbound); that contract is argued from tcp/mod.rs in DESIGN §2.3. Two remote peers, two addresses each, <=4 attempts per history. select! branch order fixed by runtime seed; one stimulus at a time. Known findings F4 and F7 (four signatures) are listed in known_findings.json; exploration continues past them.",
   design="§4 C05"),
 "C06": dict(level="model_checking", engine="E1",
   technique="same explicit-state exploration as C05 with cap monitors on the harness's own ground truth and release probes",
   text="On every explored state of the C05 model: at most two accepted connections per peer, accepted inbound/outbound never above the configured maxima (ground truth = accept() calls not closed or rolled back, never the manager's own counters), pending inbound connections and negotiated connections are not rejected below the limits, the manager's counted sets equal the ground truth (capacity released exactly on close / roll-back), and on a throw-away rebuild an inbound connection from an idle unconnected peer is accepted whenever the node is below its inbound limit and dial() is not refused below the outbound limit.",
   note="Same environment contract and bounds as C05. Limit configurations: none, (0,0), (1,1), (in 2, out 1).",
   design="§4 C06"),
 "C20": dict(level="exploration", engine="E3",
   technique="exhaustive enumeration of CID-prefix / payload / tamper grids and of block-size sequences through the real block verification and batching functions, independent digest recomputation",
   text="Inbound: every (version, codec, hash code incl. all 12 computable codes found by scanning 131k codes, claimed length) prefix x data size, every truncation / trailing byte / non-minimal / overflowing varint of valid prefixes, every single-byte tamper of payloads: a delivered block must carry the bytes handed in and a CID whose digest is an independent SHA-2 (or code-table) hash of exactly those bytes; malformed or uncomputable prefixes must be dropped; encode->decode->verify round trip for every computable combination. Outbound: all block-size sequences of length <=5 over 7 sizes with small limits, all sequences around the real 2 MiB / 4 MiB limits with full wire decode, and the many-tiny-blocks overhead family: every batch within limits, exact in-order exactly-once concatenation minus oversized blocks, termination.",
   note="'Fits a message' is read as block size <= MAX_BATCH_SIZE. Reference digests: sha2 crate for 0x12/0x13, multihash code table for the rest. Two defects found and repaired (fix commits recorded in known_findings.json).",
   design="§4 C20"),
 "C15": dict(level="model_checking", engine="E1",
   technique="explicit-state BFS to closure over all reply/failure/clock histories of the real QueryEngine against an adaptive adversary, per-transition monitors",
   text="For every query kind (find-node, get-record x quorum, get-providers, put/add-provider lookup phases) and every (replication, parallelism) in {1,2,3}^2, all seed sets of size <=2 and all orders in which in-flight peers fail, send the wrong message kind, or answer with ANY peer list of bounded size over universe+local+themselves are explored to closure on the real engine (4-5 remote peers). Monitors: never contact local / twice / unlearned; fresh in-flight <= parallelism (with virtual clock jumps past the 10 s slow-peer threshold); deadlock freedom; exactly one terminal, nothing after it; success lists = answered peers, sorted, <= replication, every closer learned peer contacted; records reported exactly once, no request after quorum; providers deduplicated. Put/announce tracking: success iff quorum many sends succeeded, for all event orders over <=3 peers.",
   note="One query per engine instance. Universe of 4 (quick) / 5 (thorough) remote peers with fixed ids; reply lists bounded to 1-2 peers per reply. Time enters through a cfg offset-clock seam (std::time::Instant users). Defect found and repaired: fix commit 39f8b1c.",
   design="§4 C15"),
 "C18": dict(level="exploration", engine="E3",
   technique="exhaustive enumeration of byte-string / multihash / key-blob grids, differential oracle against libp2p-identity plus round-trip oracles",
   text="All byte strings of length <=2, a ~16k multihash grid (codes x declared length x actual length x fill, non-minimal varints), every truncation and substitution of 4 valid ids, base58/text and multiaddr shapes, every key blob length 0..=100 x 3 fills and 256 ed25519 keys are run through every parse path of litep2p::PeerId and of libp2p_identity::PeerId; acceptance and bytes must agree, every accepted id must survive bytes/base58/multiaddr/JSON/binary-serde round trips, derived ids must equal an independent recomputation. Exhaustive over the stated grids; this is a bounded neighbourhood, not all byte strings.",
   note="Reference = libp2p-identity 0.2.14 from the cargo cache. The non-human-readable serde path is exercised with a small bytes-only serializer inside the check.",
   design="§4 C18"),
 "C14": dict(level="model_checking", engine="E1",
   technique="exhaustive closest() sweep over all 7-peer tables x targets x k x bit shifts against brute-force XOR sort, plus explicit-state BFS of insertion/connection histories on full buckets of the real RoutingTable",
   text="closest(): every subset of 7 peers at crafted XOR distances, with and without an address-less placeholder, every target in a 16-distance neighbourhood, k in {1,2,3,20}, at 5 (quick) / 15 (thorough) bit positions including byte boundaries and the top of the key space, and one target per bucket index against a SHA-256 keyed table, compared with an independent brute-force order. Histories: all add/lookup/established/dial-failure sequences up to depth 3/4 from seven roots (full, nearly full, empty buckets with different connection patterns) with bucket placement, capacity, local-exclusion and never-displace-connected monitors after every step.",
   note="Keys with chosen raw bytes enter through a cfg seam mirroring KBucketEntry::insert; 'connected' = as last told to the table (harness ledger). Which non-connected entry is displaced and whether a full bucket admits a newcomer is not constrained by the statement and not checked. Known finding: bucket 0 visited twice (documented by the repository's own test).",
   design="§4 C14"),
 "C17": dict(level="model_checking", engine="E1",
   technique="explicit-state BFS over all operation histories of the real MemoryStore (history replay, canonical-dump dedup), transition-relation oracle",
   text="Every put/get/add-provider/remove-provider history up to the depth bound, for every store configuration in a 45-configuration grid (bounds 0/1/2), is executed on the real MemoryStore and each transition is checked against a relation derived from the statement (bounds, freshness, sorted-by-distance, closest-retained, in-place re-announcement). Exhaustive within the bound; the reachable canonical state space of several configurations closes below the bound.",
   note="Alphabet: 2-3 keys, 3 providers, value sizes at max-1/max/max+1, four expiry classes. Expiry is driven through data (hour-scale margins vs microsecond executions), not through a virtual clock. max_providers_per_key >= 1. Bijective renaming of keys/peers is assumed harmless except through XOR distance, which is computed independently (SHA-256) in the oracle.",
   design="§4 C17"),
}

NOT_YET = {}
for i in range(1, 21):
    pid = f"C{i:02d}"
    if pid not in CHECKS:
        NOT_YET[pid] = "check not built yet in this session (planned: see DESIGN.md §4); not claimed"

manifest = {
  "version": 1,
  "setup_cmd": "./setup.sh",
  "hooks": {
    "guard": "--cfg litep2p_verif",
    "enable": "harness/.cargo/config.toml sets rustflags = [\"--cfg\",\"litep2p_verif\",\"--cfg\",\"tokio_unstable\"] for the harness build, which compiles /repo as a path dependency",
    "baseline_off_cmd": "cd /repo && cargo nextest run --workspace --no-fail-fast --test-threads 8 --offline || cargo test --workspace --no-fail-fast --offline",
    "source_commits": json.load(open("/verif/hook_commits.json")),
    "add_only": False,
  },
  "engines": [
    {"name": "E3", "path": "harness/src/props", "serves_properties": [k for k,v in CHECKS.items() if v["engine"]=="E3"],
     "kind_free_text": "exhaustive enumeration of a stated finite input / fault grid on a deterministic execution shape, differential or reference-model oracle per case"},
    {"name": "E2", "path": "harness/src/mc/e2.rs", "serves_properties": [k for k,v in CHECKS.items() if v["engine"]=="E2"],
     "kind_free_text": "stateless deviation-bounded schedule exploration (CHESS-style iterative context bounding) over a deterministic single-threaded driver that owns every task of several real Litep2p nodes connected by SimNet (harness/src/env/simnet.rs); every execution runs to quiescence; violations are re-validated by replaying their schedule"},
    {"name": "E1", "path": "harness/src/mc/e1.rs", "serves_properties": [k for k,v in CHECKS.items() if v["engine"]=="E1"],
     "kind_free_text": "explicit-state breadth-first exploration of the real component; state = action history replayed on a fresh object; dedup on 128-bit hash of a canonical snapshot; parallel per level; determinism re-check on every rebuild"},
  ],
  "checks": [
    {
      "property_id": pid,
      "quick_cmd": f"./run.sh {pid} quick",
      "thorough_cmd": f"./run.sh {pid} thorough",
      "evidence_file": f"/verif/evidence/{pid}.json",
      "replay_cmd_template": "./harness/target/debug/verif replay {path}",
      "engine": c["engine"],
      "level_claimed": {"category": c["level"], "text": c["text"], "design_ref": c["design"]},
      "level_note": c["note"],
      "technique": c["technique"],
    } for pid, c in sorted(CHECKS.items())
  ],
  "not_applicable": [{"property_id": k, "reason": v} for k, v in sorted(NOT_YET.items())],
  "notes": "Hooks are additive except three line rewrites recorded in DESIGN.md §5 (std::time::Instant::now() call sites in kademlia/{store,query/find_node,query/get_record}.rs go through a local now() that is std::time::Instant::now() without the cfg). All checks run the real litep2p code (path dependency on /repo, rebuilt from the working tree on every invocation). Exit 2 = machinery error, never a verdict.",
}
json.dump(manifest, open("/verif/MANIFEST.json", "w"), indent=1)
print("checks:", len(manifest["checks"]), "not_applicable:", len(manifest["not_applicable"]))
