#!/usr/bin/env python3
"""Generates MANIFEST.json from the table below (kept next to the checks so it stays current)."""
import json

CHECKS = {
 "C14": dict(level="model_checking", engine="E1",
   technique="exhaustive closest() sweep over all 7-peer tables x targets x k x bit shifts against brute-force XOR sort, plus explicit-state BFS of insertion/connection histories on full buckets of the real RoutingTable",
   text="closest(): every subset of 7 peers at crafted XOR distances, with and without an address-less placeholder, every target in a 16-distance neighbourhood, k in {1,2,3,20}, at 5 (quick) / 15 (thorough) bit positions including byte boundaries and the top of the key space, and one target per bucket index against a SHA-256 keyed table, compared with an independent brute-force order. Histories: all add/lookup/established/dial-failure sequences up to depth 3/4 from seven roots (full, nearly full, empty buckets with different connection patterns) with bucket placement, capacity, local-exclusion and never-displace-connected monitors after every step.",
   note="Keys with chosen raw bytes enter through a cfg seam mirroring KBucketEntry::insert; 'connected' = as last told to the table (harness ledger). Which non-connected entry is displaced and whether a full bucket admits a newcomer is not constrained by the statement and not checked. Known finding: bucket 0 visited twice (documented by the repository's own test).",
   design="§4 C14"),
 "C17": dict(level="model_checking", engine="E1",
   technique="explicit-state BFS over all operation histories of the real MemoryStore (history replay, canonical-dump dedup), transition-relation oracle",
   text="Every put/get/add-provider/remove-provider history up to the depth bound, for every store configuration in a 45-configuration grid (bounds 0/1/2), is executed on the real MemoryStore and each transition is checked against a relation derived from the statement (bounds, freshness, sorted-by-distance, closest-retained, in-place re-announcement). Exhaustive within the bound; the reachable canonical state space of several configurations closes below the bound.",
   note="Alphabet: 2-3 keys, 3 providers, value sizes at max-1/max/max+1, four expiry classes. Expiry is driven through data (hour-scale margins vs microsecond executions), not through a virtual clock. max_providers_per_key >= 1. Bijective renaming of keys/peers is assumed harmless except through XOR distance, which is computed independently (SHA-256) in the oracle.",
   design="§4 C17"),
}

NOT_YET = {}
for i in range(1, 21):
    pid = f"C{i:02d}"
    if pid not in CHECKS:
        NOT_YET[pid] = "check not built yet in this session (planned: see DESIGN.md §4); not claimed"

manifest = {
  "version": 1,
  "setup_cmd": "./setup.sh",
  "hooks": {
    "guard": "--cfg litep2p_verif",
    "enable": "harness/.cargo/config.toml sets rustflags = [\"--cfg\",\"litep2p_verif\",\"--cfg\",\"tokio_unstable\"] for the harness build, which compiles /repo as a path dependency",
    "baseline_off_cmd": "cd /repo && cargo nextest run --workspace --no-fail-fast --test-threads 8 --offline || cargo test --workspace --no-fail-fast --offline",
    "source_commits": json.load(open("/verif/hook_commits.json")),
    "add_only": True,
  },
  "engines": [
    {"name": "E1", "path": "harness/src/mc/e1.rs", "serves_properties": [k for k,v in CHECKS.items() if v["engine"]=="E1"],
     "kind_free_text": "explicit-state breadth-first exploration of the real component; state = action history replayed on a fresh object; dedup on 128-bit hash of a canonical snapshot; parallel per level; determinism re-check on every rebuild"},
  ],
  "checks": [
    {
      "property_id": pid,
      "quick_cmd": f"./run.sh {pid} quick",
      "thorough_cmd": f"./run.sh {pid} thorough",
      "evidence_file": f"/verif/evidence/{pid}.json",
      "replay_cmd_template": "./harness/target/debug/verif replay {path}",
      "engine": c["engine"],
      "level_claimed": {"category": c["level"], "text": c["text"], "design_ref": c["design"]},
      "level_note": c["note"],
      "technique": c["technique"],
    } for pid, c in sorted(CHECKS.items())
  ],
  "not_applicable": [{"property_id": k, "reason": v} for k, v in sorted(NOT_YET.items())],
  "notes": "All checks run the real litep2p code (path dependency on /repo, rebuilt from the working tree on every invocation). Exit 2 = machinery error, never a verdict.",
}
json.dump(manifest, open("/verif/MANIFEST.json", "w"), indent=1)
print("checks:", len(manifest["checks"]), "not_applicable:", len(manifest["not_applicable"]))
