pub mod e1;
pub mod e2;
