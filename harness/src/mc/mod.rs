pub mod e1;
