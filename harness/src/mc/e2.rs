//! E2 — deviation-bounded, stateless schedule exploration of SimNet scenarios (CHESS-style).
//!
//! One execution = one scenario run to completion under a *schedule*: at every step the explorer lists the
//! choices — the enabled tasks in FIFO wake order (what a run queue would do), then the scenario's *lazy* actions
//! (user commands / environment faults, by default taken only when no task is enabled), then (optionally) "advance
//! the virtual clock". The default choice is index 0. A *deviation* is taking another index at one step. The
//! explorer runs the schedule with 0 deviations, then every schedule with 1 deviation, then 2, … up to the bound
//! (each execution still runs to completion), exactly as in iterative context bounding. Executions are independent
//! (fresh runtime + fresh world), so they are distributed over worker threads.

use crate::{
    env::{driver, simnet::World},
    mc::e1::{self, Viol},
    report::{Ctx, Violation},
};
use serde_json::{json, Value};
use std::{
    collections::{BTreeMap, HashSet},
    panic::{catch_unwind, AssertUnwindSafe},
    sync::{
        atomic::{AtomicU64, Ordering},
        Mutex,
    },
    time::Duration,
};

pub trait Scenario: Sync {
    type State;
    fn name(&self) -> String;
    fn config(&self) -> Value;
    /// build nodes, user tasks and initial stimuli (runs inside the runtime)
    fn setup(&self, w: &mut World) -> Self::State;
    /// number of lazy actions available now
    fn lazy_count(&self, st: &Self::State, w: &World) -> usize;
    fn lazy_apply(&self, st: &mut Self::State, w: &mut World, k: usize);
    /// called when a lazy action wants virtual time to pass right after it (e.g. an explicit "wait" step)
    fn lazy_wait(&self, _st: &Self::State) -> Option<Duration> {
        None
    }
    /// called after every clock tick (idle tick or explicit wait)
    fn on_tick(&self, _st: &mut Self::State, _by: Duration) {}
    /// (number of clock ticks available when idle, tick length); ticks are only taken when nothing else is enabled
    /// unless `time_deviation()` is true
    fn time(&self) -> (u32, Duration) {
        (0, Duration::from_secs(1))
    }
    fn time_deviation(&self) -> bool {
        false
    }
    /// E4: the nodes use real loopback sockets; the runtime needs its I/O driver and the explorer must let the
    /// kernel deliver readiness before it concludes that nothing is enabled
    fn real_io(&self) -> bool {
        false
    }
    /// cheap monitor evaluated after every step
    fn monitor(&self, _st: &mut Self::State, _w: &World) -> Vec<Viol> {
        Vec::new()
    }
    /// end-of-execution oracle; `quiescent` is false when the step cap was hit
    fn finish(&self, st: &mut Self::State, w: &mut World, quiescent: bool) -> Vec<Viol>;
    /// observable trace class (distinct classes are counted)
    fn trace_class(&self, st: &Self::State, w: &World) -> String;
}

#[derive(Clone, Debug, Default)]
pub struct Exec {
    /// number of choices at every step
    pub widths: Vec<u16>,
    /// number of enabled (not demoted) tasks at every step: the candidates for a demotion
    pub en_widths: Vec<u16>,
    pub viols: Vec<(String, String)>,
    pub class: String,
    pub cap_hit: bool,
    pub ticks_used: u32,
}

pub const STEP_CAP: usize = 20_000;

/// live bytes one execution (its thread) may hold
pub const MEMORY_CAP: usize = 1 << 30;

/// Schedule alternatives `DEMOTE_BASE + k` mean: demote the k-th enabled task at this step (it is not run again until
/// no other task is enabled and no user/fault action is left to issue, or until virtual time is about to pass), then
/// continue with the default choice. This is
/// the CHESS notion of a preemption (the preempted thread stays descheduled until the others block) — one deviation
/// that delays a task for a long time, where an ordinary deviation delays it by one position.
pub const DEMOTE_BASE: usize = 1000;

/// Run one execution under `schedule` (sorted list of (step, alternative index)).
pub fn run_one<S: Scenario>(scn: &S, schedule: &[(usize, usize)], seed: u64) -> Exec {
    // a fresh thread per execution: thread-local randomness (std's HashMap keys, tokio's rng, our deterministic
    // getrandom stream) starts from the same state every time, so an execution is a function of its schedule
    std::thread::scope(|s| {
        std::thread::Builder::new()
            .stack_size(8 << 20)
            .spawn_scoped(s, || run_one_here(scn, schedule, seed))
            .expect("spawn execution thread")
            .join()
            .unwrap_or_else(|_| Exec {
                viols: vec![("machinery/execution-thread-died".into(), "execution thread panicked outside the guarded region".into())],
                ..Default::default()
            })
    })
}

/// Let the kernel and tokio's I/O driver deliver socket readiness: returns true if some task became enabled.
pub async fn settle_io(w: &mut World) -> bool {
    // quiescent = nothing became enabled during several consecutive driver turns separated by short real-time pauses
    for round in 0..12 {
        tokio::task::yield_now().await;
        w.absorb_spawned();
        if !w.driver.enabled_fifo().is_empty() {
            return true;
        }
        if round >= 2 {
            std::thread::sleep(Duration::from_millis(2));
        }
    }
    false
}

fn run_one_here<S: Scenario>(scn: &S, schedule: &[(usize, usize)], seed: u64) -> Exec {
    crate::env::alloc::reset();
    let real_io = scn.real_io();
    let rt = if real_io { driver::runtime_io(seed) } else { driver::runtime(seed) };
    let result = catch_unwind(AssertUnwindSafe(|| {
        rt.block_on(async {
            // with real sockets the paused clock must not auto-advance while the runtime waits for I/O: a parked
            // blocking task inhibits auto-advance on current-thread runtimes
            let (_park_tx, park_rx) = std::sync::mpsc::channel::<()>();
            let _parked = if real_io { Some(tokio::task::spawn_blocking(move || { let _ = park_rx.recv(); })) } else { None };
            let mut w = World::new();
            let mut st = scn.setup(&mut w);
            let mut ex = Exec::default();
            let (max_ticks, tick) = scn.time();
            let mut sched = schedule.iter().peekable();
            let mut step = 0usize;
            let mut demoted: std::collections::BTreeSet<usize> = Default::default();
            loop {
                if step >= STEP_CAP {
                    ex.cap_hit = true;
                    break;
                }
                w.pump_net();
                let mut en = w.driver.enabled_fifo();
                if real_io && en.is_empty() && settle_io(&mut w).await {
                    en = w.driver.enabled_fifo();
                }
                let lazy = scn.lazy_count(&st, &w);
                if !demoted.is_empty() {
                    en.retain(|t| !demoted.contains(t));
                    if en.is_empty() && lazy == 0 {
                        // everybody else is blocked and the user has nothing left to issue: the demoted tasks run again
                        // (before any clock step; see also the drain before a `Wait` below)
                        demoted.clear();
                        en = w.driver.enabled_fifo();
                    }
                }
                ex.en_widths.push(en.len().min(u16::MAX as usize) as u16);
                if let Some((s, alt)) = sched.peek() {
                    if *s == step && *alt >= DEMOTE_BASE {
                        let k = *alt - DEMOTE_BASE;
                        sched.next();
                        if k >= en.len() {
                            ex.viols.push((
                                "machinery/schedule-out-of-range".into(),
                                format!("schedule asks to demote task {k} of {} at step {step}", en.len()),
                            ));
                            break;
                        }
                        demoted.insert(en.remove(k));
                        if en.is_empty() && lazy == 0 {
                            demoted.clear();
                            en = w.driver.enabled_fifo();
                        }
                    }
                }
                let time_choice = ex.ticks_used < max_ticks && (scn.time_deviation() || (en.is_empty() && lazy == 0));
                let n_choices = en.len() + lazy + usize::from(time_choice);
                if n_choices == 0 {
                    break;
                }
                let mut pick = 0usize;
                if let Some((s, alt)) = sched.peek() {
                    if *s == step {
                        pick = *alt;
                        sched.next();
                        if pick >= n_choices {
                            ex.viols.push((
                                "machinery/schedule-out-of-range".into(),
                                format!("schedule asks for choice {pick} of {n_choices} at step {step}"),
                            ));
                            break;
                        }
                    }
                }
                ex.widths.push(n_choices.min(u16::MAX as usize) as u16);
                if std::env::var_os("VERIF_TRACE").is_some() {
                    let names: Vec<&str> = en.iter().map(|i| w.driver.name(*i)).collect();
                    eprintln!("[trace] step {step}: enabled {names:?} lazy {lazy} time {time_choice} pick {pick}");
                }
                if pick < en.len() {
                    w.driver.step(en[pick]);
                } else if pick < en.len() + lazy {
                    scn.lazy_apply(&mut st, &mut w, pick - en.len());
                    if let Some(d) = scn.lazy_wait(&st) {
                        // virtual time passes only over a quiescent system: a `Wait` issued early (deviation) or while
                        // a task is demoted first lets every runnable task run (default order). Computation is
                        // instantaneous at the granularity of the timers involved (seconds); no scheduler starves a
                        // runnable task for that long.
                        demoted.clear();
                        let mut drained = 0usize;
                        loop {
                            w.pump_net();
                            let en = w.driver.enabled_fifo();
                            if en.is_empty() || drained >= STEP_CAP {
                                break;
                            }
                            w.driver.step(en[0]);
                            drained += 1;
                            for v in scn.monitor(&mut st, &w) {
                                ex.viols.push((v.signature, v.what));
                            }
                        }
                        if drained >= STEP_CAP {
                            ex.cap_hit = true;
                        }
                        tokio::time::advance(d).await;
                        scn.on_tick(&mut st, d);
                    }
                } else {
                    tokio::time::advance(tick).await;
                    ex.ticks_used += 1;
                    scn.on_tick(&mut st, tick);
                }
                for v in scn.monitor(&mut st, &w) {
                    ex.viols.push((v.signature, v.what));
                }
                step += 1;
                // an execution of these scenarios needs a few MiB; one that holds gigabytes is running away (buffers
                // that grow with every step): stop it and say so, instead of exhausting the machine
                if crate::env::alloc::live() > MEMORY_CAP {
                    ex.viols.push((
                        "execution/memory-runaway".into(),
                        format!("the execution holds more than {} MiB after {step} steps (something grows without bound)", MEMORY_CAP >> 20),
                    ));
                    ex.cap_hit = true;
                    break;
                }
            }
            if crate::env::pipe::take_runaway() {
                ex.viols.push((
                    "carrier/runaway-writer".into(),
                    format!("a task wrote more than {} MiB into one carrier direction in this execution (a write/flush loop that never finishes)", crate::env::pipe::RUNAWAY_CAP >> 20),
                ));
            }
            for b in std::mem::take(&mut w.contract_breaches) {
                ex.viols.push(("machinery/environment-contract".into(), b));
            }
            let quiescent = !ex.cap_hit;
            for v in scn.finish(&mut st, &mut w, quiescent) {
                ex.viols.push((v.signature, v.what));
            }
            ex.class = scn.trace_class(&st, &w);
            ex
        })
    }));
    match result {
        Ok(ex) => ex,
        Err(_) => {
            let msg = e1::take_panic();
            Exec {
                viols: vec![(format!("panic/{}", e1::panic_site(&msg)), format!("panic during execution: {msg}"))],
                ..Default::default()
            }
        }
    }
}

#[derive(Default, Debug, Clone)]
pub struct Stats {
    pub executions: u64,
    pub steps: u64,
    pub per_bound: Vec<u64>,
    pub classes: usize,
    pub cap_hits: u64,
    pub max_steps: usize,
    pub bound_completed: usize,
    pub truncated: bool,
    /// schedules among `executions` that contain a demotion
    pub demotion_schedules: u64,
    /// executions whose first run diverged from the parent's prefix and whose repetition did not
    pub transient_divergences: u64,
}

pub struct E2 {
    pub bound: usize,
    pub threads: usize,
    pub seed: u64,
    /// hard cap on executions per scenario (reported if hit; then the bound is not claimed complete)
    pub max_executions: u64,
    /// only deviate at steps < this (keeps the second level tractable); usize::MAX = everywhere
    pub deviate_until_step: usize,
    /// how many of the `bound` deviations of one schedule may be demotions (see `DEMOTE_BASE`); 0 = none
    pub demotions: usize,
    /// schedules that contain a demotion have at most this many deviations in total (<= bound)
    pub bound_with_demotion: usize,
}

impl Default for E2 {
    fn default() -> Self {
        E2 {
            bound: 1,
            threads: std::thread::available_parallelism().map(|n| n.get()).unwrap_or(8),
            seed: 11,
            max_executions: 2_000_000,
            deviate_until_step: usize::MAX,
            // the environment variable is an experimenting aid; the tiers set the field explicitly
            demotions: std::env::var("VERIF_E2_DEMOTIONS").ok().and_then(|v| v.parse().ok()).unwrap_or(0),
            bound_with_demotion: usize::MAX,
        }
    }
}

pub struct Outcome {
    pub stats: Stats,
    pub violations: Vec<Violation>,
    pub machinery: Vec<String>,
    pub sample_classes: Vec<String>,
}

impl E2 {
    pub fn explore<S: Scenario>(&self, scn: &S) -> Outcome {
        crate::report::progress(&format!("E2 scenario {}", scn.name()));
        let mut stats = Stats::default();
        let mut machinery = Vec::new();
        // determinism: the default schedule twice, and once more under a second rng seed (select! branch order)
        let base = run_one(scn, &[], self.seed);
        let again = run_one(scn, &[], self.seed);
        if base.widths != again.widths || base.en_widths != again.en_widths || base.class != again.class {
            machinery.push(format!("{}: nondeterministic default execution (same seed)", scn.name()));
        }
        let viols: Mutex<BTreeMap<String, (String, Vec<(usize, usize)>, u64)>> = Mutex::new(BTreeMap::new());
        let classes: Mutex<HashSet<String>> = Mutex::new(HashSet::new());
        let executions = AtomicU64::new(0);
        let steps = AtomicU64::new(0);
        let cap_hits = AtomicU64::new(0);
        let transient = AtomicU64::new(0);
        let record = |ex: &Exec, sched: &[(usize, usize)]| {
            executions.fetch_add(1, Ordering::Relaxed);
            steps.fetch_add(ex.widths.len() as u64, Ordering::Relaxed);
            if ex.cap_hit {
                cap_hits.fetch_add(1, Ordering::Relaxed);
            }
            classes.lock().unwrap().insert(ex.class.clone());
            for (sig, what) in &ex.viols {
                let mut v = viols.lock().unwrap();
                match v.get_mut(sig) {
                    Some(e) => e.2 += 1,
                    None => {
                        v.insert(sig.clone(), (what.clone(), sched.to_vec(), 1));
                    }
                }
            }
        };
        record(&base, &[]);
        stats.max_steps = base.widths.len();
        stats.per_bound.push(1);
        // frontier of schedules at the current number of deviations, with the widths of their executions
        let mut frontier: Vec<(Vec<(usize, usize)>, Vec<u16>, Vec<u16>)> = vec![(vec![], base.widths.clone(), base.en_widths.clone())];
        let mut demotion_schedules = 0u64;
        for depth in 1..=self.bound {
            // children: one more deviation at a later step than the last one
            let mut children: Vec<Vec<(usize, usize)>> = Vec::new();
            for (sched, widths, en_widths) in &frontier {
                let from = sched.last().map(|(s, _)| s + 1).unwrap_or(0);
                let n_demotions = sched.iter().filter(|(_, a)| *a >= DEMOTE_BASE).count();
                let may_demote = n_demotions < self.demotions && depth <= self.bound_with_demotion;
                let may_deviate = n_demotions == 0 || depth <= self.bound_with_demotion;
                for (i, w) in widths.iter().enumerate().skip(from) {
                    if i >= self.deviate_until_step {
                        break;
                    }
                    for alt in 1..(if may_deviate { *w as usize } else { 0 }) {
                        let mut c = sched.clone();
                        c.push((i, alt));
                        children.push(c);
                    }
                    // demoting the only thing that can happen at this step changes nothing
                    if may_demote && *w >= 2 {
                        for k in 0..(en_widths.get(i).copied().unwrap_or(0) as usize) {
                            let mut c = sched.clone();
                            c.push((i, DEMOTE_BASE + k));
                            children.push(c);
                            demotion_schedules += 1;
                        }
                    }
                }
            }
            if executions.load(Ordering::Relaxed) + children.len() as u64 > self.max_executions {
                stats.truncated = true;
                break;
            }
            let next_idx = AtomicU64::new(0);
            let results: Mutex<Vec<(Vec<(usize, usize)>, Vec<u16>, Vec<u16>)>> = Mutex::new(Vec::new());
            let children_ref = &children;
            let keep_widths = depth < self.bound;
            std::thread::scope(|s| {
                for _ in 0..self.threads {
                    s.spawn(|| loop {
                        let i = next_idx.fetch_add(1, Ordering::Relaxed) as usize;
                        if i >= children_ref.len() {
                            break;
                        }
                        let sched = &children_ref[i];
                        let mut ex = run_one(scn, sched, self.seed);
                        // a child schedule replays its parent's execution up to the new deviation; if the replay diverges
                        // (the deviation index does not exist) the execution is repeated: a divergence that persists is
                        // a machinery error, one that does not is counted and reported (`transient_replay_divergences`)
                        if ex.viols.iter().any(|(s, _)| s == "machinery/schedule-out-of-range") {
                            let again = run_one(scn, sched, self.seed);
                            if !again.viols.iter().any(|(s, _)| s == "machinery/schedule-out-of-range") {
                                transient.fetch_add(1, Ordering::Relaxed);
                                ex = again;
                            }
                        }
                        record(&ex, sched);
                        if keep_widths {
                            results.lock().unwrap().push((sched.clone(), ex.widths, ex.en_widths));
                        }
                    });
                }
            });
            stats.per_bound.push(children.len() as u64);
            stats.bound_completed = depth;
            frontier = results.into_inner().unwrap();
            frontier.sort();
        }
        if self.bound == 0 {
            stats.bound_completed = 0;
        }
        stats.demotion_schedules = demotion_schedules;
        stats.transient_divergences = transient.load(Ordering::Relaxed);
        stats.executions = executions.load(Ordering::Relaxed);
        stats.steps = steps.load(Ordering::Relaxed);
        stats.cap_hits = cap_hits.load(Ordering::Relaxed);
        let classes = classes.into_inner().unwrap();
        stats.classes = classes.len();
        // every reported violation must reproduce under a second rng seed, else it is a machinery problem
        let mut violations = Vec::new();
        for (sig, (what, sched, count)) in viols.into_inner().unwrap() {
            if sig.starts_with("machinery/") {
                machinery.push(format!("{}: {sig}: {what}", scn.name()));
                continue;
            }
            let re = run_one(scn, &sched, self.seed);
            if !re.viols.iter().any(|(s, _)| *s == sig) {
                machinery.push(format!("{}: violation {sig} did not reproduce on replay of its schedule", scn.name()));
                continue;
            }
            violations.push(Violation {
                signature: sig,
                what: format!("{what} [scenario {} schedule {:?}, {count} occurrence(s)]", scn.name(), sched),
                replay: json!({"engine": "E2", "scenario": scn.name(), "config": scn.config(), "schedule": sched, "seed": self.seed}),
            });
        }
        let mut sample_classes: Vec<String> = classes.into_iter().collect();
        sample_classes.sort();
        sample_classes.truncate(3);
        Outcome { stats, violations, machinery, sample_classes }
    }
}

/// Fold an E2 outcome into a check context.
pub fn absorb(ctx: &mut Ctx, label: &str, out: Outcome) {
    let s = &out.stats;
    // model_checking evidence keys: states = distinct observable trace classes, transitions = scheduling steps
    // executed on the implementation, traces = executions
    ctx.cov_add("states", s.classes as u64);
    ctx.cov_add("transitions", s.steps);
    ctx.cov_add("traces_validated_against_impl", s.executions);
    ctx.cov_add("executions", s.executions);
    ctx.cov_add("step_cap_hits", s.cap_hits);
    ctx.cov_add("schedules_with_a_demotion", s.demotion_schedules);
    ctx.cov_add("transient_replay_divergences", s.transient_divergences);
    ctx.cov_and("exhaustive", !s.truncated);
    ctx.sub(
        label,
        json!({
            "executions": s.executions, "executions_per_deviation_count": s.per_bound, "deviation_bound_completed": s.bound_completed,
            "default_schedule_steps": s.max_steps, "distinct_trace_classes": s.classes, "steps": s.steps,
            "step_cap_hits": s.cap_hits, "truncated": s.truncated,
        }),
    );
    for c in out.sample_classes.iter().take(1) {
        ctx.sample(json!({"scenario": label, "trace_class": c}));
    }
    if s.truncated {
        ctx.machinery_error(format!("{label}: execution cap reached before the deviation bound was completed"));
    }
    for m in out.machinery {
        ctx.machinery_error(m);
    }
    for v in out.violations {
        ctx.violation(v);
    }
}

/// Replay one schedule sequentially; Ok(log) if no violation.
pub fn replay<S: Scenario>(scn: &S, case: &Value) -> Result<String, String> {
    let sched: Vec<(usize, usize)> = serde_json::from_value(case["schedule"].clone()).map_err(|e| e.to_string())?;
    let seed = case["seed"].as_u64().unwrap_or(11);
    let ex = run_one(scn, &sched, seed);
    let mut log = format!("scenario {} schedule {:?}: {} steps, class {}\n", scn.name(), sched, ex.widths.len(), ex.class);
    if ex.viols.is_empty() {
        Ok(log)
    } else {
        for (s, w) in &ex.viols {
            log.push_str(&format!("VIOLATION [{s}] {w}\n"));
        }
        Err(log)
    }
}
