//! E1 — explicit-state breadth-first exploration of a real (non-cloneable) component.
//!
//! A state is the action history that reaches it; successors are computed by rebuilding the system from
//! `init()` and replaying the history on the real code. States are deduplicated on a 128-bit hash of the
//! model's canonical snapshot. Breadth-first order ⇒ first visit is at minimal depth, so a state never
//! needs re-expansion, and the first violation per signature has a shortest history.

use crate::report::Violation;
use serde::Serialize;
use serde_json::{json, Value};
use std::{
    collections::HashSet,
    hash::{Hash, Hasher},
    panic::{catch_unwind, AssertUnwindSafe},
    sync::{
        atomic::{AtomicBool, AtomicU64, Ordering},
        Mutex,
    },
};

/// What the oracle says about one transition.
pub enum Step {
    /// fine, successor is a normal state
    Ok,
    /// fine, but do not expand the successor (outside the property's scope / bound)
    Prune,
    /// violations that are listed as known findings: recorded (with this history), and the successor is still
    /// expanded so that a known finding never hides what lies behind it
    Findings(Vec<Viol>),
}

pub struct Viol {
    pub signature: String,
    pub what: String,
}

impl Viol {
    pub fn new(signature: impl Into<String>, what: impl Into<String>) -> Self {
        Viol {
            signature: signature.into(),
            what: what.into(),
        }
    }
}

pub trait Model: Sync {
    type Sys;
    type Action: Clone + std::fmt::Debug + Serialize + Send + Sync;

    fn name(&self) -> String;
    /// model configuration written into replay files
    fn config(&self) -> Value;
    fn init(&self) -> Self::Sys;
    /// enabled actions in canonical order, simplest first
    fn enabled(&self, sys: &Self::Sys) -> Vec<Self::Action>;
    /// run the real code for one action, update the reference model, evaluate per-transition oracles and
    /// state invariants
    fn apply(&self, sys: &mut Self::Sys, a: &Self::Action) -> Result<Step, Viol>;
    /// canonical snapshot of everything that determines future behaviour
    fn canon(&self, sys: &Self::Sys) -> Vec<u8>;
    /// How a panic inside `apply` is classified. Default: a violation.
    fn on_panic(&self, _a: &Self::Action, msg: &str) -> Result<Step, Viol> {
        Err(Viol::new(format!("panic/{}", panic_site(msg)), format!("panic: {msg}")))
    }
    /// probes run once per *new* state (on a throw-away rebuild); default none
    fn probe(&self, _sys: &mut Self::Sys) -> Result<(), Viol> {
        Ok(())
    }
    fn has_probe(&self) -> bool {
        false
    }
}

/// reduce a panic message to a stable discriminator (file:line if present)
pub fn panic_site(msg: &str) -> String {
    // our panic hook formats "<location>: <payload>"
    msg.split(": ").next().unwrap_or("unknown").replace('/', "_")
}

pub fn hash128(bytes: &[u8]) -> u128 {
    let mut h1 = std::collections::hash_map::DefaultHasher::new();
    bytes.hash(&mut h1);
    let a = h1.finish();
    // second, independent hash: FNV-1a 64 with a different seed
    let mut b: u64 = 0xcbf29ce484222325 ^ 0x9e3779b97f4a7c15;
    for &x in bytes {
        b ^= x as u64;
        b = b.wrapping_mul(0x100000001b3);
    }
    ((a as u128) << 64) | b as u128
}

#[derive(Default, Debug, Clone)]
pub struct Stats {
    pub states: u64,
    pub transitions: u64,
    pub max_depth: usize,
    pub pruned: u64,
    pub probes: u64,
    pub replays: u64,
    pub exhausted: bool,
    pub cap_hit: bool,
    pub level_sizes: Vec<u64>,
    pub determinism_rechecks: u64,
}

pub struct Outcome<A> {
    pub stats: Stats,
    pub violations: Vec<(Violation, Vec<A>)>,
    pub samples: Vec<Vec<A>>,
    pub machinery_errors: Vec<String>,
}

thread_local! {
    pub static LAST_PANIC: std::cell::RefCell<Option<String>> = const { std::cell::RefCell::new(None) };
}

/// Install a panic hook that records `location: message` into a thread local and stays silent.
pub fn install_panic_hook() {
    std::panic::set_hook(Box::new(|info| {
        let loc = info
            .location()
            .map(|l| format!("{}:{}", l.file().trim_start_matches("/repo/"), l.line()))
            .unwrap_or_else(|| "unknown".into());
        let payload = if let Some(s) = info.payload().downcast_ref::<&str>() {
            s.to_string()
        } else if let Some(s) = info.payload().downcast_ref::<String>() {
            s.clone()
        } else {
            "<non-string panic>".into()
        };
        if std::env::var_os("VERIF_SHOW_PANICS").is_some() {
            eprintln!("[panic] {loc}: {payload}");
        }
        LAST_PANIC.with(|p| *p.borrow_mut() = Some(format!("{loc}: {payload}")));
    }));
}

pub fn take_panic() -> String {
    LAST_PANIC.with(|p| p.borrow_mut().take()).unwrap_or_else(|| "unknown: <no message>".into())
}

/// apply one action under catch_unwind
fn guarded_apply<M: Model>(m: &M, sys: &mut M::Sys, a: &M::Action) -> Result<Step, Viol> {
    match catch_unwind(AssertUnwindSafe(|| m.apply(sys, a))) {
        Ok(r) => r,
        Err(_) => {
            let msg = take_panic();
            m.on_panic(a, &msg)
        }
    }
}

/// Rebuild a state from its history. A violation or panic in the replayed prefix is a machinery error
/// (it must have been found when that prefix was first explored).
pub fn rebuild<M: Model>(m: &M, hist: &[M::Action]) -> Result<M::Sys, String> {
    let mut sys = m.init();
    for (i, a) in hist.iter().enumerate() {
        match guarded_apply(m, &mut sys, a) {
            Ok(Step::Ok) | Ok(Step::Findings(_)) => {}
            Ok(Step::Prune) => return Err(format!("replayed prefix step {i} pruned: {a:?}")),
            Err(v) => return Err(format!("replayed prefix step {i} violated {}: {}", v.signature, v.what)),
        }
    }
    Ok(sys)
}

struct Node<A> {
    hist: Vec<A>,
    hash: u128,
}

pub struct Explorer {
    pub max_depth: usize,
    pub max_states: u64,
    pub threads: usize,
    /// re-derive every n-th state twice and compare canon (determinism test); 1 = all
    pub recheck_every: u64,
}

impl Default for Explorer {
    fn default() -> Self {
        Explorer {
            max_depth: 6,
            max_states: 5_000_000,
            threads: std::thread::available_parallelism().map(|n| n.get()).unwrap_or(8),
            recheck_every: 1,
        }
    }
}

impl Explorer {
    pub fn run<M: Model>(&self, m: &M) -> Outcome<M::Action> {
        crate::report::progress(&format!("E1 model {} {}", m.name(), m.config()));
        let mut stats = Stats::default();
        let mut violations: Vec<(Violation, Vec<M::Action>)> = Vec::new();
        let mut seen_sigs: HashSet<String> = HashSet::new();
        let mut samples: Vec<Vec<M::Action>> = Vec::new();
        let mut errors: Vec<String> = Vec::new();

        let init = m.init();
        let h0 = hash128(&m.canon(&init));
        drop(init);
        let mut seen: HashSet<u128> = HashSet::new();
        seen.insert(h0);
        stats.states = 1;
        let mut frontier: Vec<Node<M::Action>> = vec![Node { hist: vec![], hash: h0 }];
        stats.level_sizes.push(1);
        let transitions = AtomicU64::new(0);
        let pruned = AtomicU64::new(0);
        let replays = AtomicU64::new(0);
        let rechecks = AtomicU64::new(0);
        let probes = AtomicU64::new(0);
        let stop = AtomicBool::new(false);

        let mut depth = 0usize;
        stats.exhausted = true;
        while !frontier.is_empty() {
            if depth >= self.max_depth {
                // frontier states at max depth are counted but not expanded; exhaustive only up to the bound
                stats.exhausted = false;
                break;
            }
            // expand the whole level in parallel; results are merged in frontier order (deterministic)
            type Succ<A> = (Vec<A>, u128);
            struct Res<A> {
                succs: Vec<Succ<A>>,
                viols: Vec<(Viol, Vec<A>)>,
                errs: Vec<String>,
            }
            let n = frontier.len();
            let chunk = n.div_ceil(self.threads * 4).max(1);
            let results: Mutex<Vec<(usize, Res<M::Action>)>> = Mutex::new(Vec::new());
            let next_chunk = AtomicU64::new(0);
            let frontier_ref = &frontier;
            std::thread::scope(|s| {
                for _ in 0..self.threads.min(n.div_ceil(chunk)) {
                    s.spawn(|| loop {
                        let c = next_chunk.fetch_add(1, Ordering::Relaxed) as usize;
                        let lo = c * chunk;
                        if lo >= n || stop.load(Ordering::Relaxed) {
                            break;
                        }
                        let hi = (lo + chunk).min(n);
                        let mut res = Res { succs: Vec::new(), viols: Vec::new(), errs: Vec::new() };
                        for (idx, node) in frontier_ref[lo..hi].iter().enumerate() {
                            let gi = (lo + idx) as u64;
                            // determinism recheck: rebuild, compare canon with the recorded hash
                            let sys = match rebuild(m, &node.hist) {
                                Ok(s) => s,
                                Err(e) => {
                                    res.errs.push(format!("rebuild failed for {:?}: {e}", node.hist));
                                    continue;
                                }
                            };
                            replays.fetch_add(1, Ordering::Relaxed);
                            if gi % self.recheck_every == 0 {
                                rechecks.fetch_add(1, Ordering::Relaxed);
                                if hash128(&m.canon(&sys)) != node.hash {
                                    res.errs.push(format!(
                                        "nondeterminism: history {:?} reproduced a different canonical state",
                                        node.hist
                                    ));
                                    continue;
                                }
                            }
                            let actions = m.enabled(&sys);
                            let mut cur = Some(sys);
                            for (ai, a) in actions.iter().enumerate() {
                                let mut sys = match cur.take() {
                                    Some(s) if ai == 0 => s,
                                    _ => match rebuild(m, &node.hist) {
                                        Ok(s) => {
                                            replays.fetch_add(1, Ordering::Relaxed);
                                            s
                                        }
                                        Err(e) => {
                                            res.errs.push(format!("rebuild failed: {e}"));
                                            continue;
                                        }
                                    },
                                };
                                transitions.fetch_add(1, Ordering::Relaxed);
                                let mut h = node.hist.clone();
                                h.push(a.clone());
                                match guarded_apply(m, &mut sys, a) {
                                    Ok(Step::Ok) => {
                                        let hash = hash128(&m.canon(&sys));
                                        res.succs.push((h, hash));
                                    }
                                    Ok(Step::Findings(vs)) => {
                                        for v in vs {
                                            res.viols.push((v, h.clone()));
                                        }
                                        let hash = hash128(&m.canon(&sys));
                                        res.succs.push((h, hash));
                                    }
                                    Ok(Step::Prune) => {
                                        pruned.fetch_add(1, Ordering::Relaxed);
                                    }
                                    Err(v) => res.viols.push((v, h)),
                                }
                            }
                        }
                        results.lock().unwrap().push((c, res));
                    });
                }
            });
            let mut results = results.into_inner().unwrap();
            results.sort_by_key(|(c, _)| *c);
            let mut next: Vec<Node<M::Action>> = Vec::new();
            for (_, res) in results {
                for e in res.errs {
                    if errors.len() < 20 {
                        errors.push(e);
                    }
                }
                for (v, h) in res.viols {
                    if seen_sigs.insert(v.signature.clone()) {
                        let replay = json!({
                            "engine": "E1",
                            "model": m.name(),
                            "config": m.config(),
                            "actions": h,
                        });
                        violations.push((
                            Violation { signature: v.signature, what: v.what, replay },
                            h,
                        ));
                    }
                }
                for (h, hash) in res.succs {
                    if seen.insert(hash) {
                        next.push(Node { hist: h, hash });
                    }
                }
            }
            depth += 1;
            if !next.is_empty() {
                stats.max_depth = depth;
                stats.level_sizes.push(next.len() as u64);
                // samples: first state of the level and the last
                samples.push(next[next.len() / 2].hist.clone());
            }
            stats.states += next.len() as u64;
            // probes on each new state
            if m.has_probe() && !next.is_empty() {
                let pv: Mutex<Vec<(Viol, Vec<M::Action>)>> = Mutex::new(Vec::new());
                let perr: Mutex<Vec<String>> = Mutex::new(Vec::new());
                let nn = next.len();
                let pchunk = nn.div_ceil(self.threads * 4).max(1);
                let pnext = AtomicU64::new(0);
                let next_ref = &next;
                std::thread::scope(|s| {
                    for _ in 0..self.threads.min(nn.div_ceil(pchunk)) {
                        s.spawn(|| loop {
                            let c = pnext.fetch_add(1, Ordering::Relaxed) as usize;
                            let lo = c * pchunk;
                            if lo >= nn {
                                break;
                            }
                            let hi = (lo + pchunk).min(nn);
                            for node in &next_ref[lo..hi] {
                                match rebuild(m, &node.hist) {
                                    Ok(mut sys) => {
                                        probes.fetch_add(1, Ordering::Relaxed);
                                        let r = catch_unwind(AssertUnwindSafe(|| m.probe(&mut sys)));
                                        match r {
                                            Ok(Ok(())) => {}
                                            Ok(Err(v)) => pv.lock().unwrap().push((v, node.hist.clone())),
                                            Err(_) => {
                                                let msg = take_panic();
                                                pv.lock().unwrap().push((
                                                    Viol::new(
                                                        format!("probe-panic/{}", panic_site(&msg)),
                                                        format!("panic in probe: {msg}"),
                                                    ),
                                                    node.hist.clone(),
                                                ));
                                            }
                                        }
                                    }
                                    Err(e) => perr.lock().unwrap().push(e),
                                }
                            }
                        });
                    }
                });
                let mut pv = pv.into_inner().unwrap();
                pv.sort_by_key(|(_, h)| h.len());
                for (v, h) in pv {
                    if seen_sigs.insert(v.signature.clone()) {
                        let replay = json!({
                            "engine": "E1",
                            "model": m.name(),
                            "config": m.config(),
                            "actions": h,
                            "probe": true,
                        });
                        violations.push((Violation { signature: v.signature, what: v.what, replay }, h));
                    }
                }
                for e in perr.into_inner().unwrap() {
                    if errors.len() < 20 {
                        errors.push(e);
                    }
                }
            }
            if stats.states > self.max_states {
                stats.cap_hit = true;
                stats.exhausted = false;
                break;
            }
            frontier = next;
        }
        stats.transitions = transitions.load(Ordering::Relaxed);
        stats.pruned = pruned.load(Ordering::Relaxed);
        stats.replays = replays.load(Ordering::Relaxed);
        stats.determinism_rechecks = rechecks.load(Ordering::Relaxed);
        stats.probes = probes.load(Ordering::Relaxed);
        Outcome { stats, violations, samples, machinery_errors: errors }
    }
}

/// Sequential replay of a recorded case on the real code (no explorer). Returns a textual trace.
pub fn replay_actions<M: Model>(m: &M, actions: &[M::Action], probe: bool) -> Result<String, String> {
    let mut sys = m.init();
    let mut log = String::new();
    let mut failed = false;
    for (i, a) in actions.iter().enumerate() {
        match guarded_apply(m, &mut sys, a) {
            Ok(Step::Findings(vs)) => {
                for v in &vs {
                    log.push_str(&format!("step {i}: {a:?} VIOLATION(known finding) [{}] {}\n", v.signature, v.what));
                }
                failed = true;
            }
            Ok(_) => log.push_str(&format!("step {i}: {a:?} ok\n")),
            Err(v) => {
                log.push_str(&format!("step {i}: {a:?} VIOLATION [{}] {}\n", v.signature, v.what));
                return Err(log);
            }
        }
    }
    if probe {
        match catch_unwind(AssertUnwindSafe(|| m.probe(&mut sys))) {
            Ok(Ok(())) => log.push_str("probe ok\n"),
            Ok(Err(v)) => {
                log.push_str(&format!("probe VIOLATION [{}] {}\n", v.signature, v.what));
                return Err(log);
            }
            Err(_) => {
                log.push_str(&format!("probe PANIC {}\n", take_panic()));
                return Err(log);
            }
        }
    }
    if failed {
        return Err(log);
    }
    Ok(log)
}

/// Fold an E1 outcome into a check context (sums counters across several model configurations).
pub fn absorb<A: Serialize + std::fmt::Debug>(ctx: &mut crate::report::Ctx, label: &str, out: Outcome<A>) {
    let s = &out.stats;
    ctx.cov_add("states", s.states);
    ctx.cov_add("transitions", s.transitions);
    // every explored transition is an execution of the real implementation
    ctx.cov_add("traces_validated_against_impl", s.transitions);
    ctx.cov_add("replays", s.replays);
    ctx.cov_add("determinism_rechecks", s.determinism_rechecks);
    ctx.cov_add("probes", s.probes);
    ctx.cov_add("pruned_transitions", s.pruned);
    let md = ctx.coverage.get("max_depth").and_then(|v| v.as_u64()).unwrap_or(0);
    ctx.cov("max_depth", md.max(s.max_depth as u64));
    // exhaustive = every action history up to the depth bound was enumerated (modulo state merging)
    ctx.cov_and("exhaustive", !s.cap_hit);
    ctx.cov_and("state_space_closed_below_bound", s.exhausted);
    ctx.sub(
        label,
        json!({
            "states": s.states, "transitions": s.transitions, "max_depth": s.max_depth,
            "level_sizes": s.level_sizes, "state_space_closed_below_bound": s.exhausted,
            "cap_hit": s.cap_hit, "pruned": s.pruned, "probes": s.probes,
        }),
    );
    for smp in out.samples.iter().rev().take(1) {
        ctx.sample(json!({ "model": label, "history": smp }));
    }
    if s.cap_hit {
        ctx.machinery_error(format!("{label}: state cap hit"));
    }
    for e in out.machinery_errors {
        ctx.machinery_error(format!("{label}: {e}"));
    }
    for (v, _) in out.violations {
        ctx.violation(v);
    }
}
