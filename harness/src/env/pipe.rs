//! Scripted in-memory byte carrier (`futures::io` flavoured; wrap with `tokio_util::compat` for tokio traits).
//!
//! `pipe()` gives a unidirectional byte pipe with an explorer-controlled policy; `duplex()` two pipes crossed
//! into two endpoints. Everything is deterministic: spurious `Pending`s are injected at chosen operation
//! indices (and wake the task immediately), reads are capped to a chunk size, writes to an acceptance size and
//! to a flow-control window that only re-opens when the reader consumes.

use futures::io::{AsyncRead, AsyncWrite};
use parking_lot::Mutex;
use std::{
    collections::{BTreeSet, VecDeque},
    io,
    pin::Pin,
    sync::Arc,
    task::{Context, Poll, Waker},
};

#[derive(Clone, Debug)]
pub struct Policy {
    /// max bytes handed out per `poll_read`
    pub read_chunk: usize,
    /// if set, the first read returns at most this many bytes (a split at a chosen offset), later reads follow
    /// `read_chunk`
    pub first_read: Option<usize>,
    /// max bytes accepted per `poll_write`
    pub write_accept: usize,
    /// max bytes buffered in the pipe (flow-control window); writer gets `Pending` when full
    pub window: usize,
    /// read operation indices (0-based, counted per pipe) that return a spurious `Pending` once
    pub pending_reads: BTreeSet<u64>,
    /// write operation indices that return a spurious `Pending` once
    pub pending_writes: BTreeSet<u64>,
    /// flush operation indices that return a spurious `Pending` once
    pub pending_flushes: BTreeSet<u64>,
    /// a carrier that buffers: written bytes reach the reader only when a flush (or close) completes, like a
    /// `NoiseSocket` or a TLS stream; a flush answered with an injected `Pending` delivers nothing
    pub deliver_on_flush: bool,
    /// once the reading end has been dropped (the peer hung up) writes AND flushes fail with `WriteZero` — what a yamux
    /// stream does after the remote closed it — instead of writes failing with `BrokenPipe`
    pub gone_is_write_zero: bool,
    /// bytes the reader may still take (a slow link: the scenario grants a budget per tick of virtual time through
    /// `PipeHandle::set_policy`); `None` = unlimited
    pub read_quota: Option<u64>,
    /// after this many bytes have been written in total the pipe reports EOF to the reader and discards the rest
    pub cut_after: Option<u64>,
    /// XOR masks applied to bytes at absolute stream offsets (in-transit corruption)
    pub flips: Vec<(u64, u8)>,
}

impl Default for Policy {
    fn default() -> Self {
        Policy {
            read_chunk: usize::MAX,
            first_read: None,
            write_accept: usize::MAX,
            window: usize::MAX,
            pending_reads: BTreeSet::new(),
            pending_writes: BTreeSet::new(),
            pending_flushes: BTreeSet::new(),
            deliver_on_flush: false,
            gone_is_write_zero: false,
            read_quota: None,
            cut_after: None,
            flips: Vec::new(),
        }
    }
}

#[derive(Default, Debug, Clone)]
pub struct Stats {
    pub read_ops: u64,
    pub write_ops: u64,
    pub flush_ops: u64,
    pub bytes_written: u64,
    pub bytes_read: u64,
    pub injected_pending: u64,
}

struct Shared {
    buf: VecDeque<u8>,
    /// written but not yet flushed (only with `deliver_on_flush`)
    staged: VecDeque<u8>,
    policy: Policy,
    stats: Stats,
    writer_closed: bool,
    reader_dropped: bool,
    reader_waker: Option<Waker>,
    writer_waker: Option<Waker>,
    /// every byte ever accepted from the writer (after corruption), for offline inspection / frame surgery
    log: Vec<u8>,
    first_read_done: bool,
}

#[derive(Clone)]
pub struct PipeHandle(Arc<Mutex<Shared>>);

impl PipeHandle {
    pub fn stats(&self) -> Stats {
        self.0.lock().stats.clone()
    }
    /// bytes currently buffered (written, not yet read)
    pub fn buffered(&self) -> usize {
        self.0.lock().buf.len()
    }
    pub fn log(&self) -> Vec<u8> {
        self.0.lock().log.clone()
    }
    pub fn set_policy(&self, f: impl FnOnce(&mut Policy)) {
        let mut s = self.0.lock();
        f(&mut s.policy);
        // a policy change may unblock either side
        if let Some(w) = s.reader_waker.take() {
            w.wake();
        }
        if let Some(w) = s.writer_waker.take() {
            w.wake();
        }
    }
    /// inject bytes as if the writer had written them (used to feed canned / tampered streams)
    pub fn inject(&self, bytes: &[u8]) {
        let mut s = self.0.lock();
        s.buf.extend(bytes.iter().copied());
        if let Some(w) = s.reader_waker.take() {
            w.wake();
        }
    }
    /// close the write side (reader sees EOF after draining)
    pub fn close(&self) {
        let mut s = self.0.lock();
        s.writer_closed = true;
        if let Some(w) = s.reader_waker.take() {
            w.wake();
        }
    }
    pub fn writer_closed(&self) -> bool {
        self.0.lock().writer_closed
    }
}

/// No scenario of the harness moves more than a few MiB through one carrier direction. A writer that goes past this cap
/// is running away (e.g. a flush loop that re-sends the same bytes for ever): the write fails and the execution is
/// marked, so that the check reports it instead of exhausting memory.
pub const RUNAWAY_CAP: u64 = 64 << 20;

thread_local! {
    static RUNAWAY: std::cell::Cell<bool> = const { std::cell::Cell::new(false) };
}

/// true if a carrier of this thread's execution hit `RUNAWAY_CAP` (resets the mark)
pub fn take_runaway() -> bool {
    RUNAWAY.with(|r| r.replace(false))
}

pub struct PipeReader(Arc<Mutex<Shared>>);
pub struct PipeWriter(Arc<Mutex<Shared>>);

pub fn pipe(policy: Policy) -> (PipeWriter, PipeReader, PipeHandle) {
    let s = Arc::new(Mutex::new(Shared {
        buf: VecDeque::new(),
        staged: VecDeque::new(),
        policy,
        stats: Stats::default(),
        writer_closed: false,
        reader_dropped: false,
        reader_waker: None,
        writer_waker: None,
        log: Vec::new(),
        first_read_done: false,
    }));
    (PipeWriter(s.clone()), PipeReader(s.clone()), PipeHandle(s))
}

impl AsyncRead for PipeReader {
    fn poll_read(self: Pin<&mut Self>, cx: &mut Context<'_>, out: &mut [u8]) -> Poll<io::Result<usize>> {
        let mut s = self.0.lock();
        let op = s.stats.read_ops;
        s.stats.read_ops += 1;
        if s.policy.pending_reads.remove(&op) {
            s.stats.injected_pending += 1;
            cx.waker().wake_by_ref();
            return Poll::Pending;
        }
        if out.is_empty() {
            return Poll::Ready(Ok(0));
        }
        if s.buf.is_empty() {
            if s.writer_closed {
                return Poll::Ready(Ok(0));
            }
            s.reader_waker = Some(cx.waker().clone());
            return Poll::Pending;
        }
        let mut cap = s.policy.read_chunk;
        if !s.first_read_done {
            if let Some(f) = s.policy.first_read {
                cap = f.max(1);
            }
            s.first_read_done = true;
        }
        if let Some(q) = s.policy.read_quota {
            if q == 0 {
                // the link's budget for this tick is used up: the bytes are in flight, not lost
                s.reader_waker = Some(cx.waker().clone());
                return Poll::Pending;
            }
            cap = cap.min(q.min(usize::MAX as u64) as usize);
        }
        let n = out.len().min(s.buf.len()).min(cap.max(1));
        for b in out.iter_mut().take(n) {
            *b = s.buf.pop_front().unwrap();
        }
        if let Some(q) = s.policy.read_quota.as_mut() {
            *q -= n as u64;
        }
        s.stats.bytes_read += n as u64;
        if let Some(w) = s.writer_waker.take() {
            w.wake();
        }
        Poll::Ready(Ok(n))
    }
}

impl Drop for PipeReader {
    fn drop(&mut self) {
        let mut s = self.0.lock();
        s.reader_dropped = true;
        if let Some(w) = s.writer_waker.take() {
            w.wake();
        }
    }
}

impl AsyncWrite for PipeWriter {
    fn poll_write(self: Pin<&mut Self>, cx: &mut Context<'_>, data: &[u8]) -> Poll<io::Result<usize>> {
        let mut s = self.0.lock();
        let op = s.stats.write_ops;
        s.stats.write_ops += 1;
        if s.policy.pending_writes.remove(&op) {
            s.stats.injected_pending += 1;
            cx.waker().wake_by_ref();
            return Poll::Pending;
        }
        if s.reader_dropped {
            let kind = if s.policy.gone_is_write_zero { io::ErrorKind::WriteZero } else { io::ErrorKind::BrokenPipe };
            return Poll::Ready(Err(kind.into()));
        }
        if s.writer_closed {
            return Poll::Ready(Err(io::ErrorKind::BrokenPipe.into()));
        }
        if data.is_empty() {
            return Poll::Ready(Ok(0));
        }
        if s.stats.bytes_written > RUNAWAY_CAP {
            RUNAWAY.with(|r| r.set(true));
            return Poll::Ready(Err(io::Error::new(io::ErrorKind::Other, "verif: carrier byte cap exceeded (runaway writer)")));
        }
        let room = s.policy.window.saturating_sub(s.buf.len() + s.staged.len());
        if room == 0 {
            s.writer_waker = Some(cx.waker().clone());
            return Poll::Pending;
        }
        let n = data.len().min(s.policy.write_accept.max(1)).min(room);
        for &b in &data[..n] {
            let off = s.stats.bytes_written;
            s.stats.bytes_written += 1;
            if let Some(cut) = s.policy.cut_after {
                if off >= cut {
                    continue;
                }
            }
            let mut b = b;
            for (o, m) in &s.policy.flips {
                if *o == off {
                    b ^= *m;
                }
            }
            s.log.push(b);
            if s.policy.deliver_on_flush {
                s.staged.push_back(b);
            } else {
                s.buf.push_back(b);
            }
        }
        if let Some(cut) = s.policy.cut_after {
            if s.stats.bytes_written >= cut {
                s.writer_closed = true;
            }
        }
        if let Some(w) = s.reader_waker.take() {
            w.wake();
        }
        Poll::Ready(Ok(n))
    }

    fn poll_flush(self: Pin<&mut Self>, cx: &mut Context<'_>) -> Poll<io::Result<()>> {
        let mut s = self.0.lock();
        let op = s.stats.flush_ops;
        s.stats.flush_ops += 1;
        if s.policy.pending_flushes.remove(&op) {
            s.stats.injected_pending += 1;
            cx.waker().wake_by_ref();
            return Poll::Pending;
        }
        if s.reader_dropped && s.policy.gone_is_write_zero {
            return Poll::Ready(Err(io::ErrorKind::WriteZero.into()));
        }
        if !s.staged.is_empty() {
            let staged = std::mem::take(&mut s.staged);
            s.buf.extend(staged);
            if let Some(w) = s.reader_waker.take() {
                w.wake();
            }
        }
        Poll::Ready(Ok(()))
    }

    fn poll_close(self: Pin<&mut Self>, _cx: &mut Context<'_>) -> Poll<io::Result<()>> {
        let mut s = self.0.lock();
        let staged = std::mem::take(&mut s.staged);
        s.buf.extend(staged);
        s.writer_closed = true;
        if let Some(w) = s.reader_waker.take() {
            w.wake();
        }
        Poll::Ready(Ok(()))
    }
}

impl Drop for PipeWriter {
    fn drop(&mut self) {
        let mut s = self.0.lock();
        s.writer_closed = true;
        if let Some(w) = s.reader_waker.take() {
            w.wake();
        }
    }
}

/// One endpoint of a duplex carrier.
pub struct End {
    pub r: PipeReader,
    pub w: PipeWriter,
}

impl AsyncRead for End {
    fn poll_read(mut self: Pin<&mut Self>, cx: &mut Context<'_>, out: &mut [u8]) -> Poll<io::Result<usize>> {
        Pin::new(&mut self.r).poll_read(cx, out)
    }
}

impl AsyncWrite for End {
    fn poll_write(mut self: Pin<&mut Self>, cx: &mut Context<'_>, data: &[u8]) -> Poll<io::Result<usize>> {
        Pin::new(&mut self.w).poll_write(cx, data)
    }
    fn poll_flush(mut self: Pin<&mut Self>, cx: &mut Context<'_>) -> Poll<io::Result<()>> {
        Pin::new(&mut self.w).poll_flush(cx)
    }
    fn poll_close(mut self: Pin<&mut Self>, cx: &mut Context<'_>) -> Poll<io::Result<()>> {
        Pin::new(&mut self.w).poll_close(cx)
    }
}

/// Duplex carrier: returns (end A, end B, handle of the A→B pipe, handle of the B→A pipe).
pub fn duplex(a_to_b: Policy, b_to_a: Policy) -> (End, End, PipeHandle, PipeHandle) {
    let (w_ab, r_ab, h_ab) = pipe(a_to_b);
    let (w_ba, r_ba, h_ba) = pipe(b_to_a);
    (End { r: r_ba, w: w_ab }, End { r: r_ab, w: w_ba }, h_ab, h_ba)
}
