//! Deterministic single-threaded task driver.
//!
//! Owns a set of futures ("tasks"), each with its own waker that only sets a flag. A task is *enabled* when
//! its flag is set (it was woken since its last poll, or never polled). One step = one poll of one enabled task.
//! Nothing is ever handed to tokio's scheduler; the driver itself is used inside `block_on` of a paused
//! `current_thread` runtime so that `tokio::time` is available and virtual (timers fire only when the
//! explorer calls `advance`). Subject futures are polled through `tokio::task::unconstrained` so tokio's
//! cooperative budget never injects a spurious `Pending`.

use std::{
    future::Future,
    pin::Pin,
    sync::{
        atomic::{AtomicBool, AtomicU64, Ordering},
        Arc,
    },
    task::{Context, Poll, Wake, Waker},
};

pub type BoxFut = Pin<Box<dyn Future<Output = ()> + Send>>;

struct Flag {
    woken: AtomicBool,
    /// global sequence number of the wake that enabled the task (FIFO order of the default schedule)
    seq: AtomicU64,
    clock: Arc<AtomicU64>,
}

impl Flag {
    fn mark(&self) {
        if !self.woken.swap(true, Ordering::SeqCst) {
            self.seq.store(self.clock.fetch_add(1, Ordering::SeqCst) + 1, Ordering::SeqCst);
        }
    }
}

impl Wake for Flag {
    fn wake(self: Arc<Self>) {
        self.mark();
    }
    fn wake_by_ref(self: &Arc<Self>) {
        self.mark();
    }
}

pub struct Task {
    pub name: String,
    fut: Option<Pin<Box<tokio::task::Unconstrained<BoxFut>>>>,
    flag: Arc<Flag>,
    pub polls: u64,
}

impl Task {
    pub fn done(&self) -> bool {
        self.fut.is_none()
    }
}

#[derive(Default)]
pub struct Driver {
    pub tasks: Vec<Task>,
    pub steps: u64,
    clock: Arc<AtomicU64>,
    /// tasks that are not scheduled at all for now (a node that has stopped making progress while its sockets stay up)
    pub frozen: std::collections::BTreeSet<usize>,
}

impl Driver {
    pub fn new() -> Self {
        Driver { tasks: Vec::new(), steps: 0, clock: Arc::new(AtomicU64::new(0)), frozen: Default::default() }
    }

    pub fn spawn(&mut self, name: impl Into<String>, fut: impl Future<Output = ()> + Send + 'static) -> usize {
        let boxed: BoxFut = Box::pin(fut);
        self.tasks.push(Task {
            name: name.into(),
            fut: Some(Box::pin(tokio::task::unconstrained(boxed))),
            flag: {
                let f = Arc::new(Flag { woken: AtomicBool::new(false), seq: AtomicU64::new(0), clock: self.clock.clone() });
                f.mark();
                f
            },
            polls: 0,
        });
        self.tasks.len() - 1
    }

    /// indices of tasks that can make progress, ascending
    pub fn enabled(&self) -> Vec<usize> {
        self.tasks
            .iter()
            .enumerate()
            .filter(|(i, t)| !t.done() && t.flag.woken.load(Ordering::SeqCst) && !self.frozen.contains(i))
            .map(|(i, _)| i)
            .collect()
    }

    /// enabled tasks in the order in which they were woken (what a FIFO run queue would do)
    pub fn enabled_fifo(&self) -> Vec<usize> {
        let mut v: Vec<(u64, usize)> = self
            .tasks
            .iter()
            .enumerate()
            .filter(|(i, t)| !t.done() && t.flag.woken.load(Ordering::SeqCst) && !self.frozen.contains(i))
            .map(|(i, t)| (t.flag.seq.load(Ordering::SeqCst), i))
            .collect();
        v.sort();
        v.into_iter().map(|(_, i)| i).collect()
    }

    pub fn name(&self, i: usize) -> &str {
        &self.tasks[i].name
    }

    pub fn all_done(&self) -> bool {
        self.tasks.iter().all(|t| t.done())
    }

    pub fn is_done(&self, i: usize) -> bool {
        self.tasks[i].done()
    }

    /// Poll task `i` once. Returns true if it completed.
    pub fn step(&mut self, i: usize) -> bool {
        let t = &mut self.tasks[i];
        let Some(fut) = t.fut.as_mut() else { return true };
        t.flag.woken.store(false, Ordering::SeqCst);
        let waker = Waker::from(t.flag.clone());
        let mut cx = Context::from_waker(&waker);
        t.polls += 1;
        self.steps += 1;
        match fut.as_mut().poll(&mut cx) {
            Poll::Ready(()) => {
                t.fut = None;
                true
            }
            Poll::Pending => false,
        }
    }

    /// Drop a task's future (models the task being cancelled / its owner going away).
    pub fn cancel(&mut self, i: usize) {
        self.tasks[i].fut = None;
    }

    /// Default schedule: poll enabled tasks round-robin in index order until none is enabled or `max_steps`
    /// is reached. Returns false if the step cap was hit.
    pub fn run_until_stalled(&mut self, max_steps: u64) -> bool {
        let mut n = 0;
        loop {
            let en = self.enabled();
            if en.is_empty() {
                return true;
            }
            for i in en {
                self.step(i);
                n += 1;
                if n >= max_steps {
                    return false;
                }
            }
        }
    }
}

/// Build the paused current-thread runtime every execution runs in.
pub fn runtime(seed: u64) -> tokio::runtime::Runtime {
    tokio::runtime::Builder::new_current_thread()
        .enable_time()
        .start_paused(true)
        .rng_seed(tokio::runtime::RngSeed::from_bytes(&seed.to_le_bytes()))
        .build()
        .expect("runtime")
}

/// Paused current-thread runtime WITH the I/O driver (E4: real loopback TCP sockets under a virtual clock).
pub fn runtime_io(seed: u64) -> tokio::runtime::Runtime {
    tokio::runtime::Builder::new_current_thread()
        .enable_all()
        .start_paused(true)
        .rng_seed(tokio::runtime::RngSeed::from_bytes(&seed.to_le_bytes()))
        .build()
        .expect("runtime")
}
