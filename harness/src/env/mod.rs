//! Deterministic environments: task driver, scripted byte carriers.
pub mod alloc;
pub mod driver;
pub mod pipe;
pub mod node;
pub mod transport;
pub mod simnet;
