//! Counting global allocator.
//!
//! Wraps `std::alloc::System` and keeps, per thread, the number of live bytes allocated *by that thread* since
//! the last `reset()` and the peak of that number. The counters are `const`-initialised `Cell`s without a
//! destructor, so touching them never allocates, never registers a TLS destructor and stays valid during thread
//! teardown (`try_with` additionally guards the teardown window). A block freed on a thread other than the one
//! that allocated it, or allocated before the last reset, simply drives that thread's live count negative; the
//! peak only ever reflects allocations made since the reset on the measuring thread, which is what the
//! per-call allocation oracle needs.

use std::{
    alloc::{GlobalAlloc, Layout, System},
    cell::Cell,
};

pub struct Counting;

thread_local! {
    static LIVE: Cell<isize> = const { Cell::new(0) };
    static PEAK: Cell<isize> = const { Cell::new(0) };
}

#[inline(always)]
fn add(n: usize) {
    let _ = LIVE.try_with(|l| {
        let v = l.get().wrapping_add(n as isize);
        l.set(v);
        let _ = PEAK.try_with(|p| {
            if v > p.get() {
                p.set(v);
            }
        });
    });
}

#[inline(always)]
fn sub(n: usize) {
    let _ = LIVE.try_with(|l| l.set(l.get().wrapping_sub(n as isize)));
}

unsafe impl GlobalAlloc for Counting {
    #[inline]
    unsafe fn alloc(&self, layout: Layout) -> *mut u8 {
        let p = System.alloc(layout);
        if !p.is_null() {
            add(layout.size());
        }
        p
    }

    #[inline]
    unsafe fn alloc_zeroed(&self, layout: Layout) -> *mut u8 {
        let p = System.alloc_zeroed(layout);
        if !p.is_null() {
            add(layout.size());
        }
        p
    }

    #[inline]
    unsafe fn dealloc(&self, ptr: *mut u8, layout: Layout) {
        System.dealloc(ptr, layout);
        sub(layout.size());
    }

    #[inline]
    unsafe fn realloc(&self, ptr: *mut u8, layout: Layout, new_size: usize) -> *mut u8 {
        let p = System.realloc(ptr, layout, new_size);
        if !p.is_null() {
            // account the new block before releasing the old one: a moving realloc holds both for a moment
            add(new_size);
            sub(layout.size());
        }
        p
    }
}

/// Start a measurement on the current thread: live and peak go to zero.
pub fn reset() {
    let _ = LIVE.try_with(|l| l.set(0));
    let _ = PEAK.try_with(|p| p.set(0));
}

/// Peak number of bytes simultaneously live that this thread allocated since the last `reset()`.
pub fn peak() -> usize {
    PEAK.try_with(|p| p.get().max(0) as usize).unwrap_or(0)
}

/// Bytes this thread has allocated and not freed since the last `reset()` (frees by other threads are not seen).
pub fn live() -> usize {
    LIVE.try_with(|l| l.get().max(0) as usize).unwrap_or(0)
}
