//! SimNet: several real `Litep2p` nodes in one deterministic runtime, connected through in-memory carriers.
//!
//! * Every node is a real `Litep2p` over the scripted transport; its manager loop, its protocol event loops, every
//!   task litep2p spawns, the per-connection tasks and the harness "user" tasks are all tasks of ONE `Driver`, so
//!   that the explorer decides every interleaving.
//! * `SimConnection` stands in for `TcpConnection`: it mirrors `transport/tcp/connection.rs` (`start`,
//!   `handle_yamux_substream`, `handle_negotiated_substream`, `handle_protocol_command`, `open_substream`,
//!   `accept_substream`, `negotiate_protocol`) statement by statement over the same building blocks — the real
//!   yamux connection (`litep2p::yamux::{Connection, Control}`), the real multistream-select functions, the real
//!   `ProtocolSet`, real permits and the real TCP-flavoured `Substream` — only the Noise/TCP layer below yamux is
//!   replaced by the scripted pipe. Error exits (`?`) are mirrored as they are in the source.
//! * `World::pump_net` plays the transport level: dials reach the target node as pending inbound connections,
//!   negotiation completes (or fails, per fault plan), rejected/cancelled connections drop their carrier end.

use crate::env::{
    driver::Driver,
    node::CaptureExecutor,
    pipe::{self, End, PipeHandle},
    transport::{Call, ScriptHandle},
};
use futures::{future::BoxFuture, stream::FuturesUnordered, StreamExt};
use litep2p::{
    config::ConfigBuilder,
    error::{DialError, Error, NegotiationError, SubstreamError},
    protocol::Direction,
    transport::Endpoint,
    types::{protocol::ProtocolName, ConnectionId, SubstreamId},
    verif::{
        dialer_select_proto, listener_select_proto, Negotiated, Permit, ProtocolCommand, ProtocolSet, TransportEvent,
        Version,
    },
    yamux, Litep2p, PeerId,
};
use multiaddr::{Multiaddr, Protocol};
use parking_lot::Mutex;
use std::{
    collections::{BTreeMap, BTreeSet},
    sync::Arc,
    task::Poll,
    time::Duration,
};

pub const SUBSTREAM_OPEN_TIMEOUT: Duration = Duration::from_secs(5);

struct NegotiatedSubstream {
    direction: Direction,
    substream_id: SubstreamId,
    protocol: ProtocolName,
    io: yamux::Stream,
    permit: Permit,
    keep_alive: bool,
}

enum ConnectionError {
    Timeout { protocol: Option<ProtocolName>, substream_id: Option<SubstreamId> },
    FailedToNegotiate { protocol: Option<ProtocolName>, substream_id: Option<SubstreamId>, error: SubstreamError },
}

/// debugging aid: `VERIF_SIMTRACE=1` prints what each SimNet connection task does
fn simtrace(msg: impl FnOnce() -> String) {
    if std::env::var_os("VERIF_SIMTRACE").is_some() {
        eprintln!("[sim] {}", msg());
    }
}

pub struct SimConnection {
    protocol_set: ProtocolSet,
    connection: yamux::ControlledConnection<End>,
    control: yamux::Control,
    peer: PeerId,
    endpoint: Endpoint,
    script: ScriptHandle,
    pending_substreams: FuturesUnordered<BoxFuture<'static, Result<NegotiatedSubstream, ConnectionError>>>,
}

impl SimConnection {
    pub fn new(protocol_set: ProtocolSet, io: End, peer: PeerId, endpoint: Endpoint, script: ScriptHandle) -> Self {
        let mode = if endpoint.is_listener() { yamux::Mode::Server } else { yamux::Mode::Client };
        let connection = yamux::Connection::new(io, yamux::Config::default(), mode);
        let (control, connection) = yamux::Control::new(connection);
        SimConnection {
            protocol_set,
            connection,
            control,
            peer,
            endpoint,
            script,
            pending_substreams: FuturesUnordered::new(),
        }
    }

    async fn negotiate_protocol(
        stream: yamux::Stream,
        dialer: bool,
        protocols: Vec<String>,
    ) -> Result<(Negotiated<yamux::Stream>, ProtocolName), NegotiationError> {
        match tokio::time::timeout(SUBSTREAM_OPEN_TIMEOUT, async move {
            // the selected name is converted inside the block so that nothing borrows from `protocols` outside
            if dialer {
                dialer_select_proto(stream, protocols, Version::V1).await.map(|(p, s)| (ProtocolName::from(p), s))
            } else {
                listener_select_proto(stream, protocols).await.map(|(p, s)| (ProtocolName::from(p), s))
            }
        })
        .await
        {
            Err(_) => Err(NegotiationError::Timeout),
            Ok(Err(error)) => Err(NegotiationError::MultistreamSelectError(error)),
            Ok(Ok((protocol, socket))) => Ok((socket, protocol)),
        }
    }

    async fn open_substream(
        mut control: yamux::Control,
        substream_id: SubstreamId,
        permit: Permit,
        keep_alive: bool,
        protocol: ProtocolName,
        fallback_names: Vec<ProtocolName>,
    ) -> Result<NegotiatedSubstream, SubstreamError> {
        let stream = match control.open_stream().await {
            Ok(stream) => stream,
            Err(error) => return Err(SubstreamError::YamuxError(error, Direction::Outbound(substream_id))),
        };
        let protocols: Vec<String> =
            std::iter::once(protocol.to_string()).chain(fallback_names.iter().map(|p| p.to_string())).collect();
        let (io, protocol) = Self::negotiate_protocol(stream, true, protocols).await?;
        Ok(NegotiatedSubstream {
            io: io.inner(),
            substream_id,
            direction: Direction::Outbound(substream_id),
            protocol,
            permit,
            keep_alive,
        })
    }

    async fn accept_substream(
        stream: yamux::Stream,
        permit: Permit,
        substream_id: SubstreamId,
        protocols: Vec<(ProtocolName, bool)>,
    ) -> Result<NegotiatedSubstream, NegotiationError> {
        let names: Vec<String> = protocols.iter().map(|(p, _)| p.to_string()).collect();
        let (io, protocol) = Self::negotiate_protocol(stream, false, names).await?;
        let keep_alive = protocols.iter().find(|(p, _)| *p == protocol).map(|(_, k)| *k).expect("protocol to be one of the keys");
        Ok(NegotiatedSubstream { io: io.inner(), substream_id, direction: Direction::Inbound, protocol, permit, keep_alive })
    }

    /// mirrors `TcpConnection::handle_yamux_substream`
    async fn handle_yamux_substream(&mut self, substream: Option<Result<yamux::Stream, yamux::ConnectionError>>) -> litep2p::Result<bool> {
        match substream {
            Some(Ok(stream)) => {
                simtrace(|| format!("conn {:?} to {}: inbound yamux stream", self.endpoint.connection_id(), self.peer));
                let substream_id = self.script.0.lock().handle.as_ref().expect("handle").next_substream_id();
                let protocols = self.protocol_set.protocols_with_keep_alives();
                let Some(permit) = self.protocol_set.try_get_permit() else {
                    self.protocol_set.report_connection_closed(self.peer, self.endpoint.connection_id()).await?;
                    return Ok(true);
                };
                self.pending_substreams.push(Box::pin(async move {
                    match tokio::time::timeout(SUBSTREAM_OPEN_TIMEOUT, Self::accept_substream(stream, permit, substream_id, protocols)).await {
                        Ok(Ok(substream)) => Ok(substream),
                        Ok(Err(error)) => Err(ConnectionError::FailedToNegotiate {
                            protocol: None,
                            substream_id: None,
                            error: SubstreamError::NegotiationError(error),
                        }),
                        Err(_) => Err(ConnectionError::Timeout { protocol: None, substream_id: None }),
                    }
                }));
                Ok(false)
            }
            Some(Err(_)) | None => {
                simtrace(|| format!("conn {:?} to {}: yamux connection ended", self.endpoint.connection_id(), self.peer));
                self.protocol_set.report_connection_closed(self.peer, self.endpoint.connection_id()).await?;
                Ok(true)
            }
        }
    }

    /// mirrors `TcpConnection::handle_negotiated_substream`
    async fn handle_negotiated_substream(&mut self, result: Result<NegotiatedSubstream, ConnectionError>) -> litep2p::Result<()> {
        simtrace(|| format!("conn {:?} to {}: negotiated substream result ok={} {}", self.endpoint.connection_id(), self.peer, result.is_ok(), result.as_ref().map(|s| format!("{:?} {}", s.direction, s.protocol)).unwrap_or_default()));
        match result {
            Err(error) => {
                let (protocol, substream_id, error) = match error {
                    ConnectionError::Timeout { protocol, substream_id } =>
                        (protocol, substream_id, SubstreamError::NegotiationError(NegotiationError::Timeout)),
                    ConnectionError::FailedToNegotiate { protocol, substream_id, error } => (protocol, substream_id, error),
                };
                if let (Some(protocol), Some(substream_id)) = (protocol, substream_id) {
                    let _ = self.protocol_set.report_substream_open_failure(protocol, substream_id, error).await;
                }
            }
            Ok(substream) => {
                let protocol = substream.protocol.clone();
                let direction = substream.direction;
                let substream_id = substream.substream_id;
                let opening_permit = substream.permit;
                let lifetime_permit = substream.keep_alive.then(|| opening_permit.clone());
                let substream = litep2p::verif::tcp_substream_with_permit(
                    self.peer,
                    substream_id,
                    substream.io,
                    self.protocol_set.protocol_codec(&protocol),
                    lifetime_permit,
                );
                let _ = self.protocol_set.report_substream_open(self.peer, protocol, direction, substream, opening_permit).await;
            }
        }
        Ok(())
    }

    /// mirrors `TcpConnection::handle_protocol_command`
    async fn handle_protocol_command(&mut self, command: Option<ProtocolCommand>) -> litep2p::Result<bool> {
        match command {
            Some(ProtocolCommand::OpenSubstream { protocol, fallback_names, substream_id, permit, keep_alive, .. }) => {
                simtrace(|| format!("conn {:?} to {}: OpenSubstream {:?} {}", self.endpoint.connection_id(), self.peer, substream_id, protocol));
                let control = self.control.clone();
                // environment fault (not in the TCP file): this stream's opening can be held back by the explorer,
                // standing for a slow round trip / a remote that is slow to negotiate this one stream
                let released = self.script.opens_released();
                let protocol2 = protocol.clone();
                self.pending_substreams.push(Box::pin(async move {
                    match tokio::time::timeout(
                        SUBSTREAM_OPEN_TIMEOUT,
                        async move {
                            released.await;
                            Self::open_substream(control, substream_id, permit, keep_alive, protocol2, fallback_names).await
                        },
                    )
                    .await
                    {
                        Ok(Ok(substream)) => Ok(substream),
                        Ok(Err(error)) => Err(ConnectionError::FailedToNegotiate {
                            protocol: Some(protocol),
                            substream_id: Some(substream_id),
                            error,
                        }),
                        Err(_) => Err(ConnectionError::Timeout { protocol: Some(protocol), substream_id: Some(substream_id) }),
                    }
                }));
                Ok(false)
            }
            Some(ProtocolCommand::ForceClose) | None => {
                simtrace(|| format!("conn {:?} to {}: ForceClose / command channel closed", self.endpoint.connection_id(), self.peer));
                self.protocol_set.report_connection_closed(self.peer, self.endpoint.connection_id()).await?;
                Ok(true)
            }
        }
    }

    /// mirrors `TcpConnection::start`
    pub async fn start(mut self) -> litep2p::Result<()> {
        loop {
            tokio::select! {
                substream = self.connection.next() => {
                    if self.handle_yamux_substream(substream).await? {
                        return Ok(());
                    }
                },
                substream = self.pending_substreams.select_next_some(), if !self.pending_substreams.is_empty() => {
                    self.handle_negotiated_substream(substream).await?;
                }
                command = std::future::poll_fn(|cx| self.protocol_set.poll_command(cx)) => {
                    if self.handle_protocol_command(command).await? {
                        return Ok(())
                    }
                }
            }
        }
    }
}

// ------------------------------------------------------------------------------------------------
// nodes and world
// ------------------------------------------------------------------------------------------------

#[derive(Debug)]
pub enum NodeCmd {
    Dial(PeerId),
    DialAddress(Multiaddr),
    AddKnown(PeerId, Multiaddr),
    /// put a dump of the node's transport manager (peer states, address books) into the slot
    Snapshot(Arc<Mutex<Option<litep2p::verif::ManagerSnapshot>>>),
}

#[derive(Debug, Clone)]
pub enum NodeLog {
    Event(String),
    DialResult(PeerId, Result<(), String>),
}

pub struct SimNode {
    pub peer: PeerId,
    pub address: Multiaddr,
    pub script: ScriptHandle,
    pub exec: Arc<CaptureExecutor>,
    pub cmd: tokio::sync::mpsc::UnboundedSender<NodeCmd>,
    pub events: Arc<Mutex<Vec<TransportEvent>>>,
    pub log: Arc<Mutex<Vec<NodeLog>>>,
    pub main_task: usize,
    /// "busy application": while the flag is set the node's event loop does not poll the node again after it has
    /// received an event, until `notify_one` on the `Notify` after clearing the flag
    pub hold_after_event: Arc<(std::sync::atomic::AtomicBool, tokio::sync::Notify)>,
    pub alive: bool,
    /// tasks belonging to this node (to freeze / kill it)
    pub tasks: Vec<usize>,
    calls_seen: usize,
}

struct PendingInbound {
    from: usize,
    io: End,
    remote_address: Multiaddr,
}

#[derive(Default, Clone, Debug)]
pub struct FaultPlan {
    /// (dialing node, ordinal of its dial/open call) that fails at the transport level
    pub fail_dials: BTreeSet<(usize, usize)>,
    /// dials towards addresses nobody listens on stay pending (a SYN nobody answers) until `World::release_dead_dials`
    pub hold_dead_dials: bool,
    /// (node, connection id, addresses, via_open) of the dials held back by `hold_dead_dials`
    pub held_dead_dials: Vec<(usize, usize, Vec<Multiaddr>, bool)>,
}

pub struct Link {
    pub a: usize,
    pub b: usize,
    pub a_to_b: PipeHandle,
    pub b_to_a: PipeHandle,
    pub id_a: usize,
    pub id_b: usize,
}

pub struct World {
    pub driver: Driver,
    pub nodes: Vec<SimNode>,
    pub links: Vec<Link>,
    pub faults: FaultPlan,
    pending_inbound: Vec<BTreeMap<usize, PendingInbound>>,
    dial_ordinal: Vec<usize>,
    opened: Vec<BTreeMap<usize, (PeerId, Endpoint)>>,
    pub contract_breaches: Vec<String>,
}

impl World {
    pub fn new() -> Self {
        World {
            driver: Driver::new(),
            nodes: Vec::new(),
            links: Vec::new(),
            faults: FaultPlan::default(),
            pending_inbound: Vec::new(),
            dial_ordinal: Vec::new(),
            opened: Vec::new(),
            contract_breaches: Vec::new(),
        }
    }

    /// Build a node (inside the runtime context) and register its manager loop as a driver task.
    pub fn add_node(&mut self, keypair_seed: u64, builder: ConfigBuilder) -> Result<usize, String> {
        let idx = self.nodes.len();
        let script = ScriptHandle::new();
        script.0.lock().auto_accept = true;
        let exec = Arc::new(CaptureExecutor::default());
        let keypair = crate::util::keypair(keypair_seed);
        let peer = PeerId::from_public_key(&litep2p::crypto::PublicKey::Ed25519(keypair.public()));
        let address: Multiaddr = format!("/ip4/10.1.0.{}/tcp/30333", idx + 1).parse().unwrap();
        let config = builder
            .with_keypair(keypair)
            .with_executor(exec.clone())
            .with_verif_transport(script.factory(vec![address.clone()]))
            .build();
        let litep2p = Litep2p::new(config).map_err(|e| format!("Litep2p::new failed: {e:?}"))?;
        let address = address.with(Protocol::P2p(peer.into()));
        self.finish_node(idx, litep2p, script, exec, peer, address);
        Ok(idx)
    }

    fn finish_node(&mut self, idx: usize, mut litep2p: Litep2p, script: ScriptHandle, exec: Arc<CaptureExecutor>, peer: PeerId, address: Multiaddr) {
        let (cmd_tx, mut cmd_rx) = tokio::sync::mpsc::unbounded_channel::<NodeCmd>();
        let events: Arc<Mutex<Vec<TransportEvent>>> = Arc::new(Mutex::new(Vec::new()));
        let log: Arc<Mutex<Vec<NodeLog>>> = Arc::new(Mutex::new(Vec::new()));
        let (ev2, log2) = (events.clone(), log.clone());
        let hold_after_event: Arc<(std::sync::atomic::AtomicBool, tokio::sync::Notify)> = Arc::new((std::sync::atomic::AtomicBool::new(false), tokio::sync::Notify::new()));
        let hold2 = hold_after_event.clone();
        let main_task = self.driver.spawn(format!("n{idx}:manager"), async move {
            loop {
                tokio::select! {
                    biased;
                    cmd = cmd_rx.recv() => match cmd {
                        None => return,
                        Some(NodeCmd::Dial(p)) => {
                            let r = litep2p.dial(&p).await.map_err(|e| format!("{e:?}"));
                            log2.lock().push(NodeLog::DialResult(p, r));
                        }
                        Some(NodeCmd::DialAddress(a)) => {
                            let p = PeerId::try_from_multiaddr(&a).unwrap_or_else(PeerId::random);
                            let r = litep2p.dial_address(a).await.map_err(|e| format!("{e:?}"));
                            log2.lock().push(NodeLog::DialResult(p, r));
                        }
                        Some(NodeCmd::AddKnown(p, a)) => {
                            litep2p.add_known_address(p, std::iter::once(a));
                        }
                        Some(NodeCmd::Snapshot(slot)) => {
                            *slot.lock() = Some(litep2p.verif_snapshot());
                        }
                    },
                    ev = litep2p.verif_next_event() => match ev {
                        Some(e) => {
                            log2.lock().push(NodeLog::Event(format!("{e:?}")));
                            ev2.lock().push(e);
                            while hold2.0.load(std::sync::atomic::Ordering::SeqCst) {
                                hold2.1.notified().await;
                            }
                        }
                        None => return,
                    },
                }
            }
        });
        self.nodes.push(SimNode {
            peer,
            address,
            script,
            exec,
            cmd: cmd_tx,
            events,
            log,
            main_task,
            hold_after_event,
            alive: true,
            tasks: vec![main_task],
            calls_seen: 0,
        });
        self.pending_inbound.push(BTreeMap::new());
        self.dial_ordinal.push(0);
        self.opened.push(BTreeMap::new());
        self.absorb_spawned();
    }

    /// E4: a node over the REAL TCP transport (loopback, ephemeral port, `nodelay`). Its connections, substreams and
    /// closures are handled by litep2p's own `TcpTransport` / `TcpConnection`; `pump_net` has nothing to do for it.
    pub fn add_tcp_node(&mut self, keypair_seed: u64, builder: ConfigBuilder) -> Result<usize, String> {
        let idx = self.nodes.len();
        let script = ScriptHandle::new();
        let exec = Arc::new(CaptureExecutor::default());
        let keypair = crate::util::keypair(keypair_seed);
        let peer = PeerId::from_public_key(&litep2p::crypto::PublicKey::Ed25519(keypair.public()));
        let tcp = litep2p::transport::tcp::config::Config {
            listen_addresses: vec!["/ip4/127.0.0.1/tcp/0".parse().unwrap()],
            nodelay: true,
            // stated explicitly (they are the current defaults) so that the scenarios' time budgets do not depend on the
            // library's defaults being what they are today
            connection_open_timeout: std::time::Duration::from_secs(10),
            substream_open_timeout: std::time::Duration::from_secs(5),
            ..Default::default()
        };
        let config = builder.with_keypair(keypair).with_executor(exec.clone()).with_tcp(tcp).build();
        let litep2p = Litep2p::new(config).map_err(|e| format!("Litep2p::new failed: {e:?}"))?;
        let address = litep2p.listen_addresses().next().cloned().ok_or("no listen address")?;
        self.finish_node(idx, litep2p, script, exec, peer, address);
        Ok(idx)
    }

    pub fn spawn_for(&mut self, node: usize, name: &str, fut: impl std::future::Future<Output = ()> + Send + 'static) -> usize {
        let t = self.driver.spawn(format!("n{node}:{name}"), fut);
        self.nodes[node].tasks.push(t);
        t
    }

    /// move futures captured by the nodes' executors into the driver
    pub fn absorb_spawned(&mut self) -> bool {
        let mut any = false;
        for i in 0..self.nodes.len() {
            let spawned: Vec<_> = std::mem::take(&mut *self.nodes[i].exec.spawned.lock());
            for (name, fut) in spawned {
                any = true;
                if self.nodes[i].alive {
                    let t = self.driver.spawn(format!("n{i}:{name}"), fut);
                    self.nodes[i].tasks.push(t);
                }
            }
        }
        any
    }

    fn node_of(&self, address: &Multiaddr) -> Option<usize> {
        // 10.99.0.0/16 is the dead network: nobody listens there, whichever peer the address names
        if address.iter().any(|p| matches!(p, multiaddr::Protocol::Ip4(ip) if ip.octets()[0] == 10 && ip.octets()[1] == 99)) {
            return None;
        }
        let p = PeerId::try_from_multiaddr(address)?;
        self.nodes.iter().position(|n| n.peer == p)
    }

    /// Transport level: react to the calls the managers made since the last pump. Returns true if anything happened.
    pub fn pump_net(&mut self) -> bool {
        let mut progress = self.absorb_spawned();
        for i in 0..self.nodes.len() {
            let calls: Vec<Call> = {
                let s = self.nodes[i].script.0.lock();
                s.calls[self.nodes[i].calls_seen..].to_vec()
            };
            self.nodes[i].calls_seen += calls.len();
            for call in calls {
                progress = true;
                simtrace(|| format!("node {i}: transport call {call:?}"));
                match call {
                    Call::Dial { id, address } => self.start_connection(i, id, vec![address], false),
                    Call::Open { id, addresses } => self.start_connection(i, id, addresses, true),
                    Call::Negotiate { id } => match self.opened[i].remove(&id) {
                        Some((peer, endpoint)) => self.nodes[i].script.emit(TransportEvent::ConnectionEstablished { peer, endpoint }),
                        None => self.contract_breaches.push(format!("node {i}: negotiate({id}) without ConnectionOpened")),
                    },
                    Call::AcceptPending { id } => {
                        if let Some(p) = self.pending_inbound[i].remove(&id) {
                            let peer = self.nodes[p.from].peer;
                            let endpoint = Endpoint::Listener { address: p.remote_address, connection_id: ConnectionId::from(id) };
                            self.nodes[i].script.0.lock().pending_io.insert(id, (peer, endpoint.clone(), p.io));
                            self.nodes[i].script.emit(TransportEvent::ConnectionEstablished { peer, endpoint });
                        }
                    }
                    Call::RejectPending { id } => {
                        self.pending_inbound[i].remove(&id);
                    }
                    Call::Reject { id } => {
                        // dropping the carrier end makes the remote side see EOF
                        self.nodes[i].script.0.lock().pending_io.remove(&id);
                        self.opened[i].remove(&id);
                    }
                    Call::Cancel { id } => {
                        self.faults.held_dead_dials.retain(|(n, held, _, _)| !(*n == i && *held == id));
                        // TcpTransport::cancel is a no-op once ConnectionOpened was emitted for the id (the manager
                        // itself calls cancel(id) right before negotiate(id) in on_connection_opened)
                        if self.nodes[i].script.retract_open_result(id) {
                            // the open result was still queued inside the transport: it is never emitted and the
                            // half-open connection is dropped
                            self.opened[i].remove(&id);
                            self.nodes[i].script.0.lock().pending_io.remove(&id);
                        } else if !self.opened[i].contains_key(&id) {
                            self.nodes[i].script.0.lock().pending_io.remove(&id);
                        }
                    }
                    Call::Accept { .. } => {}
                }
            }
        }
        progress
    }

    fn start_connection(&mut self, i: usize, id: usize, addresses: Vec<Multiaddr>, via_open: bool) {
        let ordinal = self.dial_ordinal[i];
        self.dial_ordinal[i] += 1;
        let target = addresses.iter().find_map(|a| self.node_of(a).map(|n| (n, a.clone())));
        let fail = self.faults.fail_dials.contains(&(i, ordinal));
        let reachable = target.as_ref().is_some_and(|(n, _)| self.nodes[*n].alive);
        if fail || !reachable {
            if !fail && self.faults.hold_dead_dials {
                self.faults.held_dead_dials.push((i, id, addresses, via_open));
                return;
            }
            if via_open {
                let errors = addresses.into_iter().map(|a| (a, DialError::Timeout)).collect();
                self.nodes[i].script.emit(TransportEvent::OpenFailure { connection_id: ConnectionId::from(id), errors });
            } else {
                self.nodes[i].script.emit(TransportEvent::DialFailure {
                    connection_id: ConnectionId::from(id),
                    address: addresses[0].clone(),
                    error: DialError::Timeout,
                });
            }
            return;
        }
        let (j, address) = target.unwrap();
        let (end_a, end_b, h_ab, h_ba) = pipe::duplex(pipe::Policy::default(), pipe::Policy::default());
        let peer_b = self.nodes[j].peer;
        let endpoint = Endpoint::Dialer { address: address.clone(), connection_id: ConnectionId::from(id) };
        self.nodes[i].script.0.lock().pending_io.insert(id, (peer_b, endpoint.clone(), end_a));
        if via_open {
            self.opened[i].insert(id, (peer_b, endpoint));
            self.nodes[i].script.emit(TransportEvent::ConnectionOpened { connection_id: ConnectionId::from(id), address, errors: vec![] });
        } else {
            self.nodes[i].script.emit(TransportEvent::ConnectionEstablished { peer: peer_b, endpoint });
        }
        // listener side
        let id_b = self.nodes[j].script.fresh_connection_id();
        let remote_address: Multiaddr = format!("/ip4/10.1.0.{}/tcp/{}", i + 1, 50000 + id).parse().unwrap();
        self.pending_inbound[j].insert(id_b.verif_raw(), PendingInbound { from: i, io: end_b, remote_address });
        self.nodes[j].script.emit(TransportEvent::PendingInboundConnection { connection_id: id_b });
        self.links.push(Link { a: i, b: j, a_to_b: h_ab, b_to_a: h_ba, id_a: id, id_b: id_b.verif_raw() });
    }

    /// The dials held back by `hold_dead_dials` time out now (those the manager cancelled meanwhile were dropped from the
    /// list: the transport says nothing about them, as `TcpTransport` does).
    pub fn release_dead_dials(&mut self) {
        self.faults.hold_dead_dials = false;
        for (i, id, addresses, via_open) in std::mem::take(&mut self.faults.held_dead_dials) {
            simtrace(|| format!("node {i}: held dial {id} to {addresses:?} times out"));
            if via_open {
                let errors = addresses.into_iter().map(|a| (a, DialError::Timeout)).collect();
                self.nodes[i].script.emit(TransportEvent::OpenFailure { connection_id: ConnectionId::from(id), errors });
            } else {
                self.nodes[i].script.emit(TransportEvent::DialFailure {
                    connection_id: ConnectionId::from(id),
                    address: addresses[0].clone(),
                    error: DialError::Timeout,
                });
            }
        }
    }

    /// Network failure on a link: both directions see EOF.
    pub fn cut_link(&mut self, k: usize) {
        self.links[k].a_to_b.close();
        self.links[k].b_to_a.close();
    }

    /// The node's process dies: all its tasks are dropped (sockets close → carriers see EOF).
    pub fn kill_node(&mut self, i: usize) {
        self.nodes[i].alive = false;
        for t in self.nodes[i].tasks.clone() {
            self.driver.cancel(t);
        }
        self.pending_inbound[i].clear();
        self.nodes[i].script.0.lock().pending_io.clear();
    }

    /// One default-schedule step: pump the network, then poll the first enabled task in FIFO order.
    /// Returns false when nothing is enabled (quiescent).
    pub fn step_default(&mut self) -> bool {
        self.pump_net();
        let en = self.driver.enabled_fifo();
        match en.first() {
            Some(i) => {
                self.driver.step(*i);
                true
            }
            None => self.pump_net(),
        }
    }

    /// Run the default schedule until quiescent. Returns false if the step cap was hit.
    pub fn run_to_quiescence(&mut self, max_steps: u64) -> bool {
        let mut n = 0;
        while self.step_default() {
            n += 1;
            if n >= max_steps {
                return false;
            }
        }
        true
    }
}

/// poll a future exactly once with a no-op waker (for futures that complete without waiting)
pub fn poll_now<F: std::future::Future>(f: F) -> Option<F::Output> {
    let waker = futures::task::noop_waker();
    let mut cx = std::task::Context::from_waker(&waker);
    let mut f = std::pin::pin!(f);
    match f.as_mut().poll(&mut cx) {
        Poll::Ready(v) => Some(v),
        Poll::Pending => None,
    }
}
