//! Scripted transport: implements litep2p's (mirrored) `Transport` trait, records every call the connection
//! manager makes and emits `TransportEvent`s only when the explorer says so. It honours the contract of the
//! real `TcpTransport` (see DESIGN.md §2.3): events only for ids the manager asked for or fresh inbound ids from the
//! shared allocator; nothing for an id after `cancel`/`reject`; `accept()` returns a future that reports the
//! connection to all protocols through the real `ProtocolSet` and then resolves.

use futures::future::BoxFuture;
use litep2p::{
    transport::Endpoint,
    types::ConnectionId,
    verif::{ProtocolSet, Transport, TransportEvent, TransportHandle},
    PeerId,
};
use multiaddr::Multiaddr;
use parking_lot::Mutex;
use std::{
    collections::{BTreeMap, VecDeque},
    sync::Arc,
    task::{Context, Poll, Waker},
};
use tokio::sync::oneshot;

#[derive(Debug, Clone, PartialEq, Eq)]
pub enum Call {
    Dial { id: usize, address: Multiaddr },
    Open { id: usize, addresses: Vec<Multiaddr> },
    Negotiate { id: usize },
    Accept { id: usize },
    Reject { id: usize },
    AcceptPending { id: usize },
    RejectPending { id: usize },
    Cancel { id: usize },
}

impl Call {
    pub fn id(&self) -> usize {
        match self {
            Call::Dial { id, .. }
            | Call::Open { id, .. }
            | Call::Negotiate { id }
            | Call::Accept { id }
            | Call::Reject { id }
            | Call::AcceptPending { id }
            | Call::RejectPending { id }
            | Call::Cancel { id } => *id,
        }
    }
}

pub enum AcceptDecision {
    /// report the connection to the protocols, then resolve Ok
    Proceed { peer: PeerId, endpoint: Endpoint },
    /// resolve with an error without telling anybody
    Fail,
}

pub struct Script {
    pub calls: Vec<Call>,
    /// global sequence number of each entry of `calls` (orders the calls made on two transports of one node)
    pub call_seq: Vec<u64>,
    queue: VecDeque<TransportEvent>,
    waker: Option<Waker>,
    pub handle: Option<TransportHandle>,
    /// accept futures waiting for the explorer's decision
    pub accept_slots: BTreeMap<usize, oneshot::Sender<AcceptDecision>>,
    /// ids for which the `accept()` call itself returns `Err`
    pub fail_accept_call: Vec<usize>,
    /// ids for which `negotiate()` returns `Err` (the opened socket is gone)
    pub fail_negotiate: Vec<usize>,
    /// protocol sets of connections whose accept future completed (the connection "task" owns them)
    pub connections: BTreeMap<usize, (PeerId, ProtocolSet)>,
    pub events_emitted: u64,
    /// SimNet: carrier ends of negotiated connections waiting for the manager's accept/reject decision
    pub pending_io: BTreeMap<usize, (PeerId, Endpoint, crate::env::pipe::End)>,
    /// SimNet: accept futures proceed without waiting for an explorer decision
    pub auto_accept: bool,
    /// SimNet: connections whose task was started (id → peer)
    pub started: BTreeMap<usize, PeerId>,
    /// woken whenever a call is recorded (SimNet's pump)
    pub call_waker: Option<Waker>,
    /// SimNet fault: while set, outbound substream opens of this node's connections do not start (the stream's
    /// negotiation is "slow": a busy remote, a long round trip); waiters are woken when the hold is lifted
    pub hold_opens: bool,
    pub hold_wakers: Vec<Waker>,
    /// SimNet ground truth: connections whose task has returned (in order)
    pub ended: Vec<usize>,
}

#[derive(Clone)]
pub struct ScriptHandle(pub Arc<Mutex<Script>>);

impl ScriptHandle {
    pub fn new() -> Self {
        ScriptHandle(Arc::new(Mutex::new(Script {
            calls: Vec::new(),
            call_seq: Vec::new(),
            queue: VecDeque::new(),
            waker: None,
            handle: None,
            accept_slots: BTreeMap::new(),
            fail_accept_call: Vec::new(),
            fail_negotiate: Vec::new(),
            connections: BTreeMap::new(),
            events_emitted: 0,
            pending_io: BTreeMap::new(),
            auto_accept: false,
            started: BTreeMap::new(),
            call_waker: None,
            hold_opens: false,
            hold_wakers: Vec::new(),
            ended: Vec::new(),
        })))
    }

    /// SimNet fault: hold (true) or release (false) the outbound substream opens of this node
    pub fn set_hold_opens(&self, hold: bool) {
        let mut s = self.0.lock();
        s.hold_opens = hold;
        if !hold {
            for w in s.hold_wakers.drain(..) {
                w.wake();
            }
        }
    }

    /// resolves once outbound opens are not held
    pub fn opens_released(&self) -> impl std::future::Future<Output = ()> + Send + 'static {
        let me = self.clone();
        std::future::poll_fn(move |cx| {
            let mut s = me.0.lock();
            if s.hold_opens {
                s.hold_wakers.push(cx.waker().clone());
                std::task::Poll::Pending
            } else {
                std::task::Poll::Ready(())
            }
        })
    }

    /// factory to pass to `ConfigBuilder::with_verif_transport`
    pub fn factory(&self, listen: Vec<Multiaddr>) -> litep2p::verif::TransportFactory {
        let me = self.clone();
        Box::new(move |handle: TransportHandle| {
            me.0.lock().handle = Some(handle);
            (Box::new(ScriptedTransport(me.clone())) as Box<dyn Transport>, listen)
        })
    }

    pub fn emit(&self, event: TransportEvent) {
        let mut s = self.0.lock();
        s.queue.push_back(event);
        s.events_emitted += 1;
        if let Some(w) = s.waker.take() {
            w.wake();
        }
    }

    /// `TcpTransport::cancel` semantics: an open result that has not been handed to the manager yet is never
    /// emitted. Returns true if a queued ConnectionOpened/OpenFailure for `id` was retracted.
    pub fn retract_open_result(&self, id: usize) -> bool {
        let mut s = self.0.lock();
        let before = s.queue.len();
        s.queue.retain(|e| match e {
            TransportEvent::ConnectionOpened { connection_id, .. } | TransportEvent::OpenFailure { connection_id, .. } => connection_id.verif_raw() != id,
            _ => true,
        });
        s.queue.len() != before
    }

    pub fn take_calls(&self) -> Vec<Call> {
        let mut s = self.0.lock();
        s.call_seq.clear();
        std::mem::take(&mut s.calls)
    }

    /// the recorded calls with their process-wide sequence numbers
    pub fn take_calls_seq(&self) -> Vec<(u64, Call)> {
        let mut s = self.0.lock();
        let seq = std::mem::take(&mut s.call_seq);
        let calls = std::mem::take(&mut s.calls);
        seq.into_iter().zip(calls).collect()
    }

    pub fn calls_len(&self) -> usize {
        self.0.lock().calls.len()
    }

    /// fresh connection id from the allocator shared with the manager (inbound connections)
    pub fn fresh_connection_id(&self) -> ConnectionId {
        self.0.lock().handle.as_mut().expect("transport installed").next_connection_id()
    }

    pub fn decide_accept(&self, id: usize, decision: AcceptDecision) -> bool {
        let slot = self.0.lock().accept_slots.remove(&id);
        match slot {
            Some(tx) => tx.send(decision).is_ok(),
            None => false,
        }
    }

    pub fn take_connection(&self, id: usize) -> Option<(PeerId, ProtocolSet)> {
        self.0.lock().connections.remove(&id)
    }

    pub fn has_connection(&self, id: usize) -> bool {
        self.0.lock().connections.contains_key(&id)
    }
}

pub struct ScriptedTransport(ScriptHandle);

impl ScriptedTransport {
    fn record(&self, call: Call) {
        let mut s = self.0 .0.lock();
        s.calls.push(call);
        s.call_seq.push(next_call_seq());
        if let Some(w) = s.call_waker.take() {
            w.wake();
        }
    }
}

fn next_call_seq() -> u64 {
    static SEQ: std::sync::atomic::AtomicU64 = std::sync::atomic::AtomicU64::new(0);
    SEQ.fetch_add(1, std::sync::atomic::Ordering::SeqCst)
}

impl Transport for ScriptedTransport {
    fn dial(&mut self, connection_id: ConnectionId, address: Multiaddr) -> litep2p::Result<()> {
        self.record(Call::Dial { id: connection_id.verif_raw(), address });
        Ok(())
    }

    fn accept(&mut self, connection_id: ConnectionId) -> litep2p::Result<BoxFuture<'static, litep2p::Result<()>>> {
        let id = connection_id.verif_raw();
        let mut s = self.0 .0.lock();
        s.calls.push(Call::Accept { id });
        s.call_seq.push(next_call_seq());
        if let Some(w) = s.call_waker.take() {
            w.wake();
        }
        if let Some(pos) = s.fail_accept_call.iter().position(|x| *x == id) {
            s.fail_accept_call.remove(pos);
            return Err(litep2p::Error::ConnectionDoesntExist(connection_id));
        }
        let mut pset = s.handle.as_ref().expect("transport installed").protocol_set(connection_id);
        let me = self.0.clone();
        if let Some((peer, endpoint, io)) = s.pending_io.remove(&id) {
            // SimNet connection: what TcpTransport::accept does, with the connection task standing in for
            // TcpConnection::start
            let executor = s.handle.as_ref().expect("transport installed").executor();
            let auto = s.auto_accept;
            let (tx, rx) = oneshot::channel();
            if !auto {
                s.accept_slots.insert(id, tx);
            }
            return Ok(Box::pin(async move {
                if !auto {
                    match rx.await {
                        Ok(AcceptDecision::Proceed { .. }) => {}
                        _ => return Err(litep2p::Error::ConnectionDoesntExist(connection_id)),
                    }
                }
                pset.report_connection_established(peer, endpoint.clone()).await?;
                me.0.lock().started.insert(id, peer);
                let conn = crate::env::simnet::SimConnection::new(pset, io, peer, endpoint, me.clone());
                let me2 = me.clone();
                executor.run_with_name("sim-connection", Box::pin(async move {
                    let _ = conn.start().await;
                    me2.0.lock().ended.push(id);
                }));
                Ok(())
            }));
        }
        let (tx, rx) = oneshot::channel();
        s.accept_slots.insert(id, tx);
        Ok(Box::pin(async move {
            match rx.await {
                Ok(AcceptDecision::Proceed { peer, endpoint }) => {
                    // what TcpTransport::accept does: tell every protocol, then start the connection task
                    pset.report_connection_established(peer, endpoint).await?;
                    me.0.lock().connections.insert(id, (peer, pset));
                    Ok(())
                }
                Ok(AcceptDecision::Fail) | Err(_) => Err(litep2p::Error::ConnectionDoesntExist(connection_id)),
            }
        }))
    }

    fn accept_pending(&mut self, connection_id: ConnectionId) -> litep2p::Result<()> {
        self.record(Call::AcceptPending { id: connection_id.verif_raw() });
        Ok(())
    }

    fn reject_pending(&mut self, connection_id: ConnectionId) -> litep2p::Result<()> {
        self.record(Call::RejectPending { id: connection_id.verif_raw() });
        Ok(())
    }

    fn reject(&mut self, connection_id: ConnectionId) -> litep2p::Result<()> {
        self.record(Call::Reject { id: connection_id.verif_raw() });
        Ok(())
    }

    fn open(&mut self, connection_id: ConnectionId, addresses: Vec<Multiaddr>) -> litep2p::Result<()> {
        self.record(Call::Open { id: connection_id.verif_raw(), addresses });
        Ok(())
    }

    fn negotiate(&mut self, connection_id: ConnectionId) -> litep2p::Result<()> {
        self.record(Call::Negotiate { id: connection_id.verif_raw() });
        if self.0 .0.lock().fail_negotiate.contains(&connection_id.verif_raw()) {
            return Err(litep2p::Error::ConnectionDoesntExist(connection_id));
        }
        Ok(())
    }

    fn cancel(&mut self, connection_id: ConnectionId) {
        self.record(Call::Cancel { id: connection_id.verif_raw() });
    }

    fn poll_event(&mut self, cx: &mut Context<'_>) -> Poll<Option<TransportEvent>> {
        let mut s = self.0 .0.lock();
        match s.queue.pop_front() {
            Some(e) => Poll::Ready(Some(e)),
            None => {
                s.waker = Some(cx.waker().clone());
                Poll::Pending
            }
        }
    }
}
