//! Node under test: a real `Litep2p` over the scripted transport, all its tasks captured by the harness executor
//! and polled by the deterministic driver. Also a "monitor" user protocol that records the `TransportEvent`s a
//! protocol sees and executes commands (open substream / dial / force close / exit) sent by the explorer.

use crate::env::{
    driver::Driver,
    transport::ScriptHandle,
};
use futures::StreamExt;
use litep2p::{
    codec::ProtocolCodec,
    config::ConfigBuilder,
    executor::Executor,
    protocol::{TransportEvent as ProtoEvent, TransportService, UserProtocol},
    types::protocol::ProtocolName,
    verif::TransportEvent,
    Litep2p, PeerId,
};
use multiaddr::Multiaddr;
use parking_lot::Mutex;
use std::{
    future::Future,
    pin::Pin,
    sync::{
        atomic::{AtomicBool, Ordering},
        Arc,
    },
    task::{Context, Poll, Wake, Waker},
};

type BoxFut = Pin<Box<dyn Future<Output = ()> + Send>>;

/// Executor handed to litep2p: captures every spawned future.
#[derive(Default)]
pub struct CaptureExecutor {
    pub spawned: Mutex<Vec<(String, BoxFut)>>,
}

impl Executor for CaptureExecutor {
    fn run(&self, future: BoxFut) {
        self.spawned.lock().push(("task".into(), future));
    }
    fn run_with_name(&self, name: &'static str, future: BoxFut) {
        self.spawned.lock().push((name.into(), future));
    }
}

struct Flag(AtomicBool);
impl Wake for Flag {
    fn wake(self: Arc<Self>) {
        self.0.store(true, Ordering::SeqCst);
    }
    fn wake_by_ref(self: &Arc<Self>) {
        self.0.store(true, Ordering::SeqCst);
    }
}

pub struct Node {
    pub litep2p: Litep2p,
    pub script: ScriptHandle,
    /// second scripted transport (registered as WebSocket), if the node was built with two transports
    pub script_ws: Option<ScriptHandle>,
    pub exec: Arc<CaptureExecutor>,
    pub driver: Driver,
    main_flag: Arc<Flag>,
    /// manager events not yet consumed by the model
    pub events: Vec<TransportEvent>,
    pub manager_terminated: bool,
}

impl Node {
    /// Must be called inside the runtime context (`rt.enter()`).
    pub fn new(builder: ConfigBuilder, listen: Vec<Multiaddr>) -> Result<Node, String> {
        Self::with_transports(builder, listen, false)
    }

    /// `two` = also install a second scripted transport, registered as WebSocket (addresses with `/ws` go there)
    pub fn with_transports(builder: ConfigBuilder, listen: Vec<Multiaddr>, two: bool) -> Result<Node, String> {
        let script = ScriptHandle::new();
        let exec = Arc::new(CaptureExecutor::default());
        let mut builder = builder.with_executor(exec.clone()).with_verif_transport(script.factory(listen));
        let script_ws = two.then(ScriptHandle::new);
        if let Some(ws) = &script_ws {
            // both transports draw connection ids from the manager's allocator; inbound ids of the second one are not used
            builder = builder.with_verif_transport_ws(ws.factory(vec![]));
        }
        let config = builder.build();
        let litep2p = Litep2p::new(config).map_err(|e| format!("Litep2p::new failed: {e:?}"))?;
        let mut node = Node {
            litep2p,
            script,
            script_ws,
            exec,
            driver: Driver::new(),
            main_flag: Arc::new(Flag(AtomicBool::new(true))),
            events: Vec::new(),
            manager_terminated: false,
        };
        node.absorb_spawned();
        Ok(node)
    }

    fn absorb_spawned(&mut self) -> bool {
        let spawned: Vec<_> = std::mem::take(&mut *self.exec.spawned.lock());
        let any = !spawned.is_empty();
        for (name, fut) in spawned {
            self.driver.spawn(name, fut);
        }
        any
    }

    /// Poll the manager (`Litep2p::verif_next_event`) once. Returns true if an event was produced.
    fn poll_main(&mut self) -> bool {
        if self.manager_terminated {
            return false;
        }
        self.main_flag.0.store(false, Ordering::SeqCst);
        let waker = Waker::from(self.main_flag.clone());
        let mut cx = Context::from_waker(&waker);
        let fut = self.litep2p.verif_next_event();
        let mut fut = std::pin::pin!(tokio::task::unconstrained(fut));
        match fut.as_mut().poll(&mut cx) {
            Poll::Ready(Some(ev)) => {
                self.events.push(ev);
                true
            }
            Poll::Ready(None) => {
                self.manager_terminated = true;
                false
            }
            Poll::Pending => false,
        }
    }

    /// Run the manager loop and every captured task until nothing can make progress. Returns false if the step
    /// cap was hit (livelock).
    pub fn settle(&mut self) -> bool {
        let mut rounds = 0u32;
        loop {
            rounds += 1;
            if rounds > 10_000 {
                return false;
            }
            let mut progress = false;
            let mut n = 0;
            while self.poll_main() {
                progress = true;
                n += 1;
                if n > 10_000 {
                    return false;
                }
            }
            if self.absorb_spawned() {
                progress = true;
            }
            let enabled = self.driver.enabled();
            for i in enabled {
                self.driver.step(i);
                progress = true;
            }
            if self.absorb_spawned() {
                progress = true;
            }
            if self.main_flag.0.load(Ordering::SeqCst) {
                progress = true;
            }
            if !progress {
                return true;
            }
        }
    }

    pub fn take_events(&mut self) -> Vec<TransportEvent> {
        std::mem::take(&mut self.events)
    }
}

// ------------------------------------------------------------------------------------------------
// monitor protocol
// ------------------------------------------------------------------------------------------------

#[derive(Debug, Clone, PartialEq, Eq)]
pub enum Seen {
    Established { peer: PeerId, connection: usize, dialer: bool },
    Closed { peer: PeerId },
    DialFailure { peer: PeerId, addresses: Vec<Multiaddr> },
    SubstreamOpened { peer: PeerId, outbound: Option<usize>, fallback: bool },
    SubstreamOpenFailure { substream: usize },
    /// result of a command
    OpenSubstreamResult { peer: PeerId, result: Result<usize, String> },
    DialResult { peer: PeerId, result: Result<(), String> },
    Exited,
}

#[derive(Debug, Clone)]
pub enum MonitorCmd {
    OpenSubstream(PeerId),
    Dial(PeerId),
    ForceClose(PeerId),
    /// return from `run()` (drops the `TransportService`: the protocol has shut down)
    Exit,
    /// stop polling the `TransportService` (its event channel fills up) until `Resume`
    Pause,
    Resume,
}

#[derive(Clone)]
pub struct MonitorHandle {
    pub log: Arc<Mutex<Vec<Seen>>>,
    pub cmd: tokio::sync::mpsc::UnboundedSender<MonitorCmd>,
    /// substreams the monitor keeps open (index = order received); dropping one releases its permit
    pub substreams: Arc<Mutex<Vec<Option<litep2p::substream::Substream>>>>,
}

pub struct Monitor {
    name: ProtocolName,
    codec: ProtocolCodec,
    log: Arc<Mutex<Vec<Seen>>>,
    cmd_rx: tokio::sync::mpsc::UnboundedReceiver<MonitorCmd>,
    substreams: Arc<Mutex<Vec<Option<litep2p::substream::Substream>>>>,
}

impl Monitor {
    pub fn new(name: &str) -> (Box<Monitor>, MonitorHandle) {
        let (tx, rx) = tokio::sync::mpsc::unbounded_channel();
        let log = Arc::new(Mutex::new(Vec::new()));
        let substreams = Arc::new(Mutex::new(Vec::new()));
        (
            Box::new(Monitor {
                name: ProtocolName::from(name.to_string()),
                codec: ProtocolCodec::UnsignedVarint(Some(1024)),
                log: log.clone(),
                cmd_rx: rx,
                substreams: substreams.clone(),
            }),
            MonitorHandle { log, cmd: tx, substreams },
        )
    }
}

#[async_trait::async_trait]
impl UserProtocol for Monitor {
    fn protocol(&self) -> ProtocolName {
        self.name.clone()
    }

    fn codec(&self) -> ProtocolCodec {
        self.codec.clone()
    }

    async fn run(mut self: Box<Self>, mut service: TransportService) -> litep2p::Result<()> {
        let mut paused = false;
        loop {
            if paused {
                match self.cmd_rx.recv().await {
                    None | Some(MonitorCmd::Exit) => {
                        self.log.lock().push(Seen::Exited);
                        return Ok(());
                    }
                    Some(MonitorCmd::Resume) => paused = false,
                    Some(_) => {}
                }
                continue;
            }
            tokio::select! {
                biased;
                cmd = self.cmd_rx.recv() => match cmd {
                    None | Some(MonitorCmd::Exit) => {
                        self.log.lock().push(Seen::Exited);
                        return Ok(());
                    }
                    Some(MonitorCmd::OpenSubstream(peer)) => {
                        let result = service.open_substream(peer).map(|id| id.verif_raw()).map_err(|e| format!("{e:?}"));
                        self.log.lock().push(Seen::OpenSubstreamResult { peer, result });
                    }
                    Some(MonitorCmd::Dial(peer)) => {
                        let result = service.dial(&peer).map_err(|e| format!("{e:?}"));
                        self.log.lock().push(Seen::DialResult { peer, result });
                    }
                    Some(MonitorCmd::ForceClose(peer)) => {
                        let _ = service.force_close(peer);
                    }
                    Some(MonitorCmd::Pause) => paused = true,
                    Some(MonitorCmd::Resume) => {}
                },
                event = service.next() => match event {
                    None => {
                        self.log.lock().push(Seen::Exited);
                        return Ok(());
                    }
                    Some(ProtoEvent::ConnectionEstablished { peer, endpoint }) => {
                        self.log.lock().push(Seen::Established {
                            peer,
                            connection: endpoint.connection_id().verif_raw(),
                            dialer: !endpoint.is_listener(),
                        });
                    }
                    Some(ProtoEvent::ConnectionClosed { peer }) => self.log.lock().push(Seen::Closed { peer }),
                    Some(ProtoEvent::DialFailure { peer, addresses }) => {
                        self.log.lock().push(Seen::DialFailure { peer, addresses })
                    }
                    Some(ProtoEvent::SubstreamOpened { peer, direction, fallback, substream, .. }) => {
                        let outbound = match direction {
                            litep2p::protocol::Direction::Inbound => None,
                            litep2p::protocol::Direction::Outbound(id) => Some(id.verif_raw()),
                        };
                        self.substreams.lock().push(Some(substream));
                        self.log.lock().push(Seen::SubstreamOpened { peer, outbound, fallback: fallback.is_some() });
                    }
                    Some(ProtoEvent::SubstreamOpenFailure { substream, .. }) => {
                        self.log.lock().push(Seen::SubstreamOpenFailure { substream: substream.verif_raw() })
                    }
                },
            }
        }
    }
}
