//! `verif` — model-checking harness for paritytech/litep2p. See /verif/DESIGN.md.

mod env;
mod mc;
mod props;
mod report;
mod util;

use report::{Ctx, Tier};

/// Counting allocator (per-thread live / peak byte counters) used by the allocation oracles.
#[global_allocator]
static GLOBAL: env::alloc::Counting = env::alloc::Counting;

/// Deterministic replacement for libc's `getrandom`, which std (HashMap `RandomState` keys), `rand::OsRng`, `ring`
/// and `snow` all end up calling. Every thread gets the same pseudo-random stream (a per-thread counter run through
/// an LCG), so an execution that runs on a fresh thread always sees the same hash-map iteration orders, the same
/// "random" keys and ids: randomness inside litep2p becomes part of the deterministic execution (DESIGN §2.2).
#[no_mangle]
pub unsafe extern "C" fn getrandom(buf: *mut u8, len: usize, _flags: u32) -> isize {
    thread_local! {
        static CTR: std::cell::Cell<u64> = const { std::cell::Cell::new(0x9e37_79b9_7f4a_7c15) };
    }
    let mut c = CTR.with(|c| {
        let v = c.get();
        c.set(v.wrapping_add(0x1000_0000_01b3));
        v
    });
    for i in 0..len {
        c = c.wrapping_mul(6364136223846793005).wrapping_add(1442695040888963407);
        *buf.add(i) = (c >> 33) as u8;
    }
    len as isize
}

fn usage() -> ! {
    eprintln!("usage: verif check <id> --tier quick|thorough | verif replay <file> | verif list");
    std::process::exit(2);
}

/// The check itself runs in a child process with an address-space limit. The subject is real code that a change may
/// turn into a memory hog or make abort: if the child does not end with one of the three regular exit codes, that is
/// reported as a violation of the property being checked (with what the child was exploring), not as a crash of the
/// machinery. On the unchanged tree the child never dies.
fn supervise(id: &'static str, tier: Tier, seed: u64, level: &'static str, args: &[String]) -> i32 {
    let exe = std::env::current_exe().expect("own path");
    let progress = std::path::PathBuf::from(report::verif_root()).join("evidence").join(format!(".progress_{id}"));
    let _ = std::fs::create_dir_all(progress.parent().unwrap());
    let _ = std::fs::remove_file(&progress);
    // 24 GiB of address space (the machine has 62 GB): an allocation failure then aborts the child before the kernel's
    // OOM killer picks a victim of its own
    let limit_kb: u64 = std::env::var("VERIF_AS_LIMIT_KB").ok().and_then(|v| v.parse().ok()).unwrap_or(24 << 20);
    let status = std::process::Command::new("sh")
        .arg("-c")
        .arg(format!("ulimit -v {limit_kb} 2>/dev/null; exec \"$0\" \"$@\""))
        .arg(&exe)
        .args(args)
        .env("VERIF_INNER", "1")
        .env("VERIF_PROGRESS_FILE", &progress)
        .status();
    let status = match status {
        Ok(s) => s,
        Err(e) => {
            eprintln!("MACHINERY-ERROR property={id} cannot start the checking process: {e}");
            return 2;
        }
    };
    if let Some(code) = status.code() {
        if (0..=2).contains(&code) {
            let _ = std::fs::remove_file(&progress);
            return code;
        }
    }
    let doing = std::fs::read_to_string(&progress).unwrap_or_else(|_| "(no progress note)".into());
    let _ = std::fs::remove_file(&progress);
    let mut ctx = Ctx::new(id, tier, seed, level);
    let how = format!("{status}");
    ctx.violation(report::Violation {
        signature: "process/checking-process-died".into(),
        what: format!(
            "the process running the check ended abnormally ({how}: killed, aborted or out of memory) while exploring: {}. The subject code exhausted memory or aborted instead of returning.",
            doing.chars().take(600).collect::<String>()
        ),
        replay: serde_json::json!({"kind": "process-died", "status": how, "exploring": doing.chars().take(2000).collect::<String>()}),
    });
    ctx.cov("exhaustive", false);
    ctx.sample(serde_json::json!({"process_died": how}));
    ctx.assume("the checking process died: the coverage of this run is unknown");
    report::finish(ctx)
}

fn main() {
    mc::e1::install_panic_hook();
    let args: Vec<String> = std::env::args().collect();
    if args.len() < 2 {
        usage();
    }
    match args[1].as_str() {
        "selftest" => std::process::exit(props::selftest::run()),
        "list" => {
            for (id, _, _) in props::REGISTRY {
                println!("{id}");
            }
        }
        "check" => {
            if args.len() < 3 {
                usage();
            }
            let id = args[2].as_str();
            let mut tier = match std::env::var("VERIF_TIER").ok().as_deref() {
                Some("thorough") => Tier::Thorough,
                _ => Tier::Quick,
            };
            let mut i = 3;
            while i < args.len() {
                if args[i] == "--tier" && i + 1 < args.len() {
                    tier = match args[i + 1].as_str() {
                        "quick" => Tier::Quick,
                        "thorough" => Tier::Thorough,
                        _ => usage(),
                    };
                    i += 1;
                }
                i += 1;
            }
            let seed = std::env::var("VERIF_SEED").ok().and_then(|s| s.parse().ok()).unwrap_or(0u64);
            let Some((pid, level, f)) = props::REGISTRY.iter().find(|(p, _, _)| *p == id) else {
                eprintln!("unknown property {id}");
                std::process::exit(2);
            };
            if std::env::var_os("VERIF_INNER").is_none() {
                std::process::exit(supervise(pid, tier, seed, level, &args[1..]));
            }
            let mut ctx = Ctx::new(pid, tier, seed, level);
            let r = std::panic::catch_unwind(std::panic::AssertUnwindSafe(|| f(&mut ctx)));
            if r.is_err() {
                let msg = mc::e1::take_panic();
                ctx.machinery_error(format!("harness panicked outside a guarded subject call: {msg}"));
            }
            std::process::exit(report::finish(ctx));
        }
        "replay" => {
            if args.len() < 3 {
                usage();
            }
            let text = std::fs::read_to_string(&args[2]).expect("read replay file");
            let v: serde_json::Value = serde_json::from_str(&text).expect("replay file is JSON");
            let id = v["property"].as_str().expect("property field");
            let Some((_, _, _)) = props::REGISTRY.iter().find(|(p, _, _)| *p == id) else {
                eprintln!("unknown property {id}");
                std::process::exit(2);
            };
            match props::replay(id, &v["case"]) {
                Ok(log) => {
                    println!("{log}");
                    println!("replay: case passes on this tree");
                    std::process::exit(0);
                }
                Err(log) => {
                    println!("{log}");
                    println!("replay: case FAILS on this tree [{}]", v["signature"].as_str().unwrap_or(""));
                    std::process::exit(1);
                }
            }
        }
        _ => usage(),
    }
}
