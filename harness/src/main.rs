//! `verif` — model-checking harness for paritytech/litep2p. See /verif/DESIGN.md.

mod env;
mod mc;
mod props;
mod report;
mod util;

use report::{Ctx, Tier};

/// Counting allocator (per-thread live / peak byte counters) used by the allocation oracles.
#[global_allocator]
static GLOBAL: env::alloc::Counting = env::alloc::Counting;

/// Deterministic replacement for libc's `getrandom`, which std (HashMap `RandomState` keys), `rand::OsRng`, `ring`
/// and `snow` all end up calling. Every thread gets the same pseudo-random stream (a per-thread counter run through
/// an LCG), so an execution that runs on a fresh thread always sees the same hash-map iteration orders, the same
/// "random" keys and ids: randomness inside litep2p becomes part of the deterministic execution (DESIGN §2.2).
#[no_mangle]
pub unsafe extern "C" fn getrandom(buf: *mut u8, len: usize, _flags: u32) -> isize {
    thread_local! {
        static CTR: std::cell::Cell<u64> = const { std::cell::Cell::new(0x9e37_79b9_7f4a_7c15) };
    }
    let mut c = CTR.with(|c| {
        let v = c.get();
        c.set(v.wrapping_add(0x1000_0000_01b3));
        v
    });
    for i in 0..len {
        c = c.wrapping_mul(6364136223846793005).wrapping_add(1442695040888963407);
        *buf.add(i) = (c >> 33) as u8;
    }
    len as isize
}

fn usage() -> ! {
    eprintln!("usage: verif check <id> --tier quick|thorough | verif replay <file> | verif list");
    std::process::exit(2);
}

fn main() {
    mc::e1::install_panic_hook();
    let args: Vec<String> = std::env::args().collect();
    if args.len() < 2 {
        usage();
    }
    match args[1].as_str() {
        "selftest" => std::process::exit(props::selftest::run()),
        "list" => {
            for (id, _, _) in props::REGISTRY {
                println!("{id}");
            }
        }
        "check" => {
            if args.len() < 3 {
                usage();
            }
            let id = args[2].as_str();
            let mut tier = match std::env::var("VERIF_TIER").ok().as_deref() {
                Some("thorough") => Tier::Thorough,
                _ => Tier::Quick,
            };
            let mut i = 3;
            while i < args.len() {
                if args[i] == "--tier" && i + 1 < args.len() {
                    tier = match args[i + 1].as_str() {
                        "quick" => Tier::Quick,
                        "thorough" => Tier::Thorough,
                        _ => usage(),
                    };
                    i += 1;
                }
                i += 1;
            }
            let seed = std::env::var("VERIF_SEED").ok().and_then(|s| s.parse().ok()).unwrap_or(0u64);
            let Some((pid, level, f)) = props::REGISTRY.iter().find(|(p, _, _)| *p == id) else {
                eprintln!("unknown property {id}");
                std::process::exit(2);
            };
            let mut ctx = Ctx::new(pid, tier, seed, level);
            let r = std::panic::catch_unwind(std::panic::AssertUnwindSafe(|| f(&mut ctx)));
            if r.is_err() {
                let msg = mc::e1::take_panic();
                ctx.machinery_error(format!("harness panicked outside a guarded subject call: {msg}"));
            }
            std::process::exit(report::finish(ctx));
        }
        "replay" => {
            if args.len() < 3 {
                usage();
            }
            let text = std::fs::read_to_string(&args[2]).expect("read replay file");
            let v: serde_json::Value = serde_json::from_str(&text).expect("replay file is JSON");
            let id = v["property"].as_str().expect("property field");
            let Some((_, _, _)) = props::REGISTRY.iter().find(|(p, _, _)| *p == id) else {
                eprintln!("unknown property {id}");
                std::process::exit(2);
            };
            match props::replay(id, &v["case"]) {
                Ok(log) => {
                    println!("{log}");
                    println!("replay: case passes on this tree");
                    std::process::exit(0);
                }
                Err(log) => {
                    println!("{log}");
                    println!("replay: case FAILS on this tree [{}]", v["signature"].as_str().unwrap_or(""));
                    std::process::exit(1);
                }
            }
        }
        _ => usage(),
    }
}
