//! Small deterministic helpers.

use litep2p::{
    crypto::ed25519::{Keypair, SecretKey},
    PeerId,
};
use sha2::{Digest, Sha256};

/// Deterministic ed25519 keypair from a small seed.
pub fn keypair(seed: u64) -> Keypair {
    let mut bytes = [0u8; 32];
    let d = Sha256::digest(format!("litep2p-verif-key-{seed}").as_bytes());
    bytes.copy_from_slice(&d);
    let sk = SecretKey::try_from_bytes(&mut bytes).expect("32 bytes");
    Keypair::from(sk)
}

/// Deterministic peer id from a small seed.
pub fn peer(seed: u64) -> PeerId {
    PeerId::from_public_key(&litep2p::crypto::PublicKey::Ed25519(keypair(seed).public()))
}

pub fn sha256(b: &[u8]) -> [u8; 32] {
    let mut out = [0u8; 32];
    out.copy_from_slice(&Sha256::digest(b));
    out
}

/// XOR distance of two 32-byte keys as big-endian bytes (orders like the integer).
pub fn xor32(a: &[u8; 32], b: &[u8; 32]) -> [u8; 32] {
    let mut out = [0u8; 32];
    for i in 0..32 {
        out[i] = a[i] ^ b[i];
    }
    out
}

/// index of the highest set bit of a big-endian 256-bit value (None for zero)
pub fn ilog2_be(d: &[u8; 32]) -> Option<usize> {
    for (i, b) in d.iter().enumerate() {
        if *b != 0 {
            return Some((31 - i) * 8 + (7 - b.leading_zeros() as usize));
        }
    }
    None
}

pub fn hex(b: &[u8]) -> String {
    b.iter().map(|x| format!("{x:02x}")).collect()
}
