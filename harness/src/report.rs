//! Evidence / violation / known-finding plumbing shared by all checks.

use serde_json::{json, Map, Value};
use std::{
    collections::BTreeMap,
    path::{Path, PathBuf},
    time::Instant,
};

/// Progress note for the supervising process (see `main.rs`): what the check is exploring right now. If the checking
/// process dies (memory exhaustion, abort inside foreign code), the supervisor reports this with the violation.
pub fn progress(what: &str) {
    if let Ok(path) = std::env::var("VERIF_PROGRESS_FILE") {
        let _ = std::fs::write(path, what);
    }
}

pub fn verif_root() -> String {
    std::env::var("VERIF_ROOT").unwrap_or_else(|_| "/verif".to_string())
}

#[derive(Clone, Copy, PartialEq, Eq, Debug)]
pub enum Tier {
    Quick,
    Thorough,
}

impl Tier {
    pub fn name(self) -> &'static str {
        match self {
            Tier::Quick => "quick",
            Tier::Thorough => "thorough",
        }
    }
    pub fn pick<T>(self, q: T, t: T) -> T {
        match self {
            Tier::Quick => q,
            Tier::Thorough => t,
        }
    }
}

/// One property violation found by an engine.
#[derive(Clone, Debug)]
pub struct Violation {
    /// `<oracle id>/<discriminator>`: identifies the *cause class* (call site / input class), used to
    /// match `known_findings.json`.
    pub signature: String,
    /// Human readable description (expected vs observed).
    pub what: String,
    /// Everything `verif replay` needs to re-execute this one case sequentially.
    pub replay: Value,
}

pub struct Ctx {
    pub id: &'static str,
    pub tier: Tier,
    pub seed: u64,
    pub level: &'static str,
    pub started: Instant,
    pub coverage: Map<String, Value>,
    pub assumptions: Vec<String>,
    /// first (= shortest, engines report in simplest-first order) violation per signature
    pub violations: BTreeMap<String, (Violation, u64)>,
    pub machinery_errors: Vec<String>,
}

impl Ctx {
    pub fn new(id: &'static str, tier: Tier, seed: u64, level: &'static str) -> Self {
        Ctx {
            id,
            tier,
            seed,
            level,
            started: Instant::now(),
            coverage: Map::new(),
            assumptions: Vec::new(),
            violations: BTreeMap::new(),
            machinery_errors: Vec::new(),
        }
    }

    pub fn violation(&mut self, v: Violation) {
        match self.violations.get_mut(&v.signature) {
            Some((_, n)) => *n += 1,
            None => {
                self.violations.insert(v.signature.clone(), (v, 1));
            }
        }
    }

    pub fn machinery_error(&mut self, msg: impl Into<String>) {
        self.machinery_errors.push(msg.into());
    }

    pub fn assume(&mut self, s: impl Into<String>) {
        self.assumptions.push(s.into());
    }

    pub fn cov(&mut self, key: &str, v: impl Into<Value>) {
        self.coverage.insert(key.to_string(), v.into());
    }

    /// add to an integer coverage counter
    pub fn cov_add(&mut self, key: &str, n: u64) {
        let cur = self.coverage.get(key).and_then(|v| v.as_u64()).unwrap_or(0);
        self.coverage.insert(key.to_string(), json!(cur + n));
    }

    pub fn cov_and(&mut self, key: &str, b: bool) {
        let cur = self.coverage.get(key).and_then(|v| v.as_bool()).unwrap_or(true);
        self.coverage.insert(key.to_string(), json!(cur && b));
    }

    pub fn sample(&mut self, v: Value) {
        let e = self.coverage.entry("samples".to_string()).or_insert_with(|| json!([]));
        if let Some(a) = e.as_array_mut() {
            if a.len() < 12 {
                a.push(v);
            }
        }
    }

    pub fn sub(&mut self, name: &str, v: Value) {
        let e = self.coverage.entry("sub_checks".to_string()).or_insert_with(|| json!({}));
        e.as_object_mut().unwrap().insert(name.to_string(), v);
    }
}

#[derive(Debug, Clone)]
pub struct KnownFinding {
    pub property: String,
    pub signature: String,
    pub what: String,
}

pub fn load_known_findings() -> Vec<KnownFinding> {
    // always the committed file, even when evidence/replays are redirected with VERIF_ROOT
    let path = std::env::var("VERIF_KNOWN_FINDINGS")
        .map(std::path::PathBuf::from)
        .unwrap_or_else(|_| Path::new("/verif").join("known_findings.json"));
    let Ok(text) = std::fs::read_to_string(&path) else {
        return Vec::new();
    };
    let v: Value = serde_json::from_str(&text).expect("known_findings.json must be valid JSON");
    let mut out = Vec::new();
    for e in v.get("findings").and_then(|f| f.as_array()).cloned().unwrap_or_default() {
        out.push(KnownFinding {
            property: e["property"].as_str().unwrap_or("").to_string(),
            signature: e["signature"].as_str().unwrap_or("").to_string(),
            what: e["what"].as_str().unwrap_or("").to_string(),
        });
    }
    out
}

fn sanitize(s: &str) -> String {
    s.chars()
        .map(|c| if c.is_ascii_alphanumeric() || c == '-' || c == '_' { c } else { '_' })
        .collect()
}

/// Finish a check: write evidence, print KNOWN-FINDING / VIOLATION lines, return the exit code.
pub fn finish(mut ctx: Ctx) -> i32 {
    let known = load_known_findings();
    let mut new_violations = 0;
    let mut known_hits = 0;
    let mut lines = Vec::new();
    for (sig, (v, count)) in ctx.violations.iter() {
        if let Some(k) = known.iter().find(|k| k.property == ctx.id && &k.signature == sig) {
            known_hits += 1;
            lines.push(format!(
                "KNOWN-FINDING: property={} {} [signature={} occurrences={}]",
                ctx.id, k.what, sig, count
            ));
        } else {
            new_violations += 1;
            let dir = PathBuf::from(verif_root()).join("replays").join(ctx.id);
            let _ = std::fs::create_dir_all(&dir);
            let path = dir.join(format!("{}.json", sanitize(sig)));
            let body = json!({
                "property": ctx.id,
                "signature": sig,
                "what": v.what,
                "occurrences": count,
                "case": v.replay,
            });
            std::fs::write(&path, serde_json::to_string_pretty(&body).unwrap()).expect("write replay");
            eprintln!("violation [{}]: {}", sig, v.what);
            lines.push(format!("VIOLATION property={} replay={}", ctx.id, path.display()));
        }
    }
    for l in &lines {
        println!("{l}");
    }

    let wall = ctx.started.elapsed().as_secs_f64();
    if !ctx.coverage.contains_key("samples") {
        ctx.machinery_error("no samples recorded");
    }
    ctx.coverage.insert("known_finding_signatures_hit".into(), json!(known_hits));
    let ev = json!({
        "property_id": ctx.id,
        "tier": ctx.tier.name(),
        "seed": ctx.seed,
        "level": ctx.level,
        "coverage": Value::Object(ctx.coverage.clone()),
        "assumptions": ctx.assumptions,
        "wall_s": wall,
        "violations": new_violations,
    });
    let evdir = PathBuf::from(verif_root()).join("evidence");
    let _ = std::fs::create_dir_all(&evdir);
    std::fs::write(
        evdir.join(format!("{}.json", ctx.id)),
        serde_json::to_string_pretty(&ev).unwrap(),
    )
    .expect("write evidence");

    if !ctx.machinery_errors.is_empty() {
        for e in &ctx.machinery_errors {
            eprintln!("MACHINERY-ERROR property={} {}", ctx.id, e);
        }
        if new_violations == 0 {
            return 2;
        }
    }
    eprintln!(
        "{} {}: {} new violation signature(s), {} known finding(s), {:.1}s",
        ctx.id,
        ctx.tier.name(),
        new_violations,
        known_hits,
        wall
    );
    if new_violations > 0 {
        1
    } else {
        0
    }
}
