//! C13 — every request gets exactly one terminal outcome with the matching payload.
//!
//! E2 (deviation-bounded schedule exploration) of two real `Litep2p` nodes with the real request-response protocol on
//! SimNet. Requester programs (send / try_send / cancel, dial-on-demand or not), responder behaviours (answer /
//! reject / stall), faults (dial failure, link cut) and payload sizes are enumerated in an outer loop; for each the
//! scheduler explores every interleaving of all tasks within the deviation bound, with virtual time stepped past
//! the request timeout at the end.

use crate::{
    env::simnet::{NodeCmd, World},
    mc::{
        e1::Viol,
        e2::{self, Scenario, E2},
    },
    report::Ctx,
};
use futures::StreamExt;
use litep2p::{
    config::ConfigBuilder,
    protocol::request_response::{
        ConfigBuilder as RrConfigBuilder, DialOptions, RequestResponseEvent, RequestResponseHandle,
    },
    types::protocol::ProtocolName,
    PeerId,
};
use parking_lot::Mutex;
use serde::{Deserialize, Serialize};
use serde_json::{json, Value};
use std::{collections::BTreeMap, sync::Arc, time::Duration};

const MAX_SIZE: usize = 48;
const TIMEOUT: Duration = Duration::from_secs(4);

#[derive(Clone, Copy, Debug, Serialize, Deserialize, PartialEq, Eq)]
pub enum Resp {
    Answer,
    Reject,
    Stall,
}

#[derive(Clone, Debug, Serialize, Deserialize, PartialEq, Eq)]
pub enum Op {
    /// send request `idx` (payload embeds idx); dial-on-demand or not; payload size class
    Send {
        idx: u8,
        dial: bool,
        size: usize,
        try_send: bool,
        /// use the `*_with_fallback` flavour of the call (a fallback protocol name the responder does not know)
        #[serde(default)]
        with_fallback: bool,
    },
    Cancel { idx: u8 },
    CutLink,
    /// environment fault: the requester's new outbound substreams are slow to open (held back) / released
    HoldOpens(bool),
    /// let n seconds of virtual time pass
    Wait(u32),
    /// the connection between the requester and the unrelated third node ends
    CutBystander,
    /// a second requester node (connected to the responder) sends request `idx`
    SendOther { idx: u8 },
}

#[derive(Clone, Debug, Serialize, Deserialize)]
pub struct RrScenario {
    pub connected: bool,
    pub program: Vec<Op>,
    pub responder: Resp,
    pub max_inbound: Option<usize>,
    pub fail_first_dial: bool,
    /// the responder node refuses every inbound connection (inbound limit 0): the dialer's freshly accepted
    /// connection dies immediately, possibly before the protocol has handled `ConnectionEstablished`
    #[serde(default)]
    pub remote_refuses: bool,
    /// a third node C (same protocol, answers) is connected to the requester; `Op::CutBystander` ends that connection
    #[serde(default)]
    pub bystander: bool,
    /// a second requester node D (same protocol) is connected to the responder; `Op::SendOther` makes it send a request,
    /// so the responder's bound on concurrent inbound requests is exercised by requests of two different peers
    #[serde(default)]
    pub second_requester: bool,
}

#[derive(Debug, Clone)]
enum ALog {
    Sent { idx: u8, id: Option<usize> },
    Response { id: usize, payload: Vec<u8> },
    Failed { id: usize, error: String },
    Inbound,
}

enum ACmd {
    Send { idx: u8, dial: bool, size: usize, try_send: bool, with_fallback: bool },
    Cancel { idx: u8 },
    /// stop / resume reading the handle's events (a user that is busy elsewhere)
    Stall(bool),
    /// `n` requests with `DialOptions::Reject` to a peer nobody is connected to: each fails at once (NotConnected) and
    /// leaves one event in the handle's channel
    Flood(usize),
}

#[derive(Debug, Clone)]
enum BLog {
    Request { payload: Vec<u8>, outstanding: usize },
}

pub struct St {
    a_cmd: tokio::sync::mpsc::UnboundedSender<ACmd>,
    a_log: Arc<Mutex<Vec<ALog>>>,
    b_log: Arc<Mutex<Vec<BLog>>>,
    pc: usize,
    peer_b: PeerId,
    wait: Option<u32>,
    node_a: usize,
    node_b: usize,
    d_cmd: Option<tokio::sync::mpsc::UnboundedSender<ACmd>>,
}

fn payload(idx: u8, size: usize) -> Vec<u8> {
    let mut v = vec![idx; size];
    if size > 0 {
        v[0] = 0xA0 | idx;
    }
    v
}

fn response_for(req: &[u8]) -> Vec<u8> {
    let mut v = req.to_vec();
    v.reverse();
    v.push(0x55);
    v.truncate(MAX_SIZE);
    v
}

fn proto() -> ProtocolName {
    ProtocolName::from("/verif/rr/1")
}

fn spawn_requester(w: &mut World, node: usize, mut handle: RequestResponseHandle, peer_b: PeerId) -> (tokio::sync::mpsc::UnboundedSender<ACmd>, Arc<Mutex<Vec<ALog>>>) {
    let (tx, mut rx) = tokio::sync::mpsc::unbounded_channel::<ACmd>();
    let log = Arc::new(Mutex::new(Vec::new()));
    let l = log.clone();
    w.spawn_for(node, "rr-user", async move {
        let mut ids: BTreeMap<u8, usize> = BTreeMap::new();
        let mut stalled = false;
        loop {
            tokio::select! {
                biased;
                cmd = rx.recv() => match cmd {
                    None => return,
                    Some(ACmd::Stall(on)) => stalled = on,
                    Some(ACmd::Flood(n)) => {
                        let nobody = crate::util::peer(9_999);
                        for _ in 0..n {
                            let r = handle.send_request(nobody, vec![0xf1], DialOptions::Reject).await;
                            l.lock().push(ALog::Sent { idx: 255, id: r.ok().map(|i| i.verif_raw()) });
                        }
                    }
                    Some(ACmd::Send { idx, dial, size, try_send, with_fallback }) => {
                        let opt = if dial { DialOptions::Dial } else { DialOptions::Reject };
                        let fb = || (ProtocolName::from("/verif/rr/0"), payload(idx, size));
                        let r = match (try_send, with_fallback) {
                            (true, false) => handle.try_send_request(peer_b, payload(idx, size), opt),
                            (false, false) => handle.send_request(peer_b, payload(idx, size), opt).await,
                            (true, true) => handle.try_send_request_with_fallback(peer_b, payload(idx, size), fb(), opt),
                            (false, true) => handle.send_request_with_fallback(peer_b, payload(idx, size), fb(), opt).await,
                        };
                        let id = r.ok().map(|i| i.verif_raw());
                        if let Some(i) = id { ids.insert(idx, i); }
                        l.lock().push(ALog::Sent { idx, id });
                    }
                    Some(ACmd::Cancel { idx }) => {
                        if let Some(i) = ids.get(&idx) {
                            handle.cancel_request(litep2p::types::RequestId::from(*i)).await;
                        }
                    }
                },
                ev = handle.next(), if !stalled => match ev {
                    None => return,
                    Some(RequestResponseEvent::ResponseReceived { request_id, response, .. }) =>
                        l.lock().push(ALog::Response { id: request_id.verif_raw(), payload: response }),
                    Some(RequestResponseEvent::RequestFailed { request_id, error, .. }) =>
                        l.lock().push(ALog::Failed { id: request_id.verif_raw(), error: format!("{error:?}") }),
                    Some(RequestResponseEvent::RequestReceived { .. }) => l.lock().push(ALog::Inbound),
                },
            }
        }
    });
    (tx, log)
}

fn spawn_responder(w: &mut World, node: usize, mut handle: RequestResponseHandle, behaviour: Resp) -> Arc<Mutex<Vec<BLog>>> {
    let log = Arc::new(Mutex::new(Vec::new()));
    let l = log.clone();
    w.spawn_for(node, "rr-responder", async move {
        let mut outstanding = 0usize;
        while let Some(ev) = handle.next().await {
            if let RequestResponseEvent::RequestReceived { request_id, request, .. } = ev {
                outstanding += 1;
                l.lock().push(BLog::Request { payload: request.clone(), outstanding });
                match behaviour {
                    Resp::Answer => {
                        handle.send_response(request_id, response_for(&request));
                        outstanding -= 1;
                    }
                    Resp::Reject => {
                        handle.reject_request(request_id);
                        outstanding -= 1;
                    }
                    Resp::Stall => {}
                }
            }
        }
    });
    log
}

impl Scenario for RrScenario {
    type State = St;

    fn name(&self) -> String {
        format!("rr[{}]", serde_json::to_string(self).unwrap())
    }

    fn config(&self) -> Value {
        serde_json::to_value(self).unwrap()
    }

    fn setup(&self, w: &mut World) -> St {
        let mk = |max_inbound: Option<usize>| {
            let mut b = RrConfigBuilder::new(proto()).with_max_size(MAX_SIZE).with_timeout(TIMEOUT);
            if let Some(m) = max_inbound {
                b = b.with_max_concurrent_inbound_requests(m);
            }
            b.build()
        };
        let (cfg_a, handle_a) = mk(None);
        let (cfg_b, handle_b) = mk(self.max_inbound);
        let a = w
            .add_node(21, ConfigBuilder::new().with_request_response_protocol(cfg_a).with_keep_alive_timeout(Duration::from_secs(60)))
            .expect("node a");
        let mut builder_b = ConfigBuilder::new().with_request_response_protocol(cfg_b).with_keep_alive_timeout(Duration::from_secs(60));
        if self.remote_refuses {
            builder_b = builder_b.with_connection_limits(
                litep2p::transport::ConnectionLimitsConfig::default().max_incoming_connections(Some(0)),
            );
        }
        let b = w.add_node(22, builder_b).expect("node b");
        let peer_b = w.nodes[b].peer;
        let addr_b = w.nodes[b].address.clone();
        let (a_cmd, a_log) = spawn_requester(w, a, handle_a, peer_b);
        let b_log = spawn_responder(w, b, handle_b, self.responder);
        if self.connected {
            w.nodes[a].cmd.send(NodeCmd::DialAddress(addr_b)).unwrap();
        } else {
            w.nodes[a].cmd.send(NodeCmd::AddKnown(peer_b, addr_b)).unwrap();
        }
        w.run_to_quiescence(50_000);
        if self.bystander {
            let (cfg_c, handle_c) = mk(None);
            let c = w
                .add_node(23, ConfigBuilder::new().with_request_response_protocol(cfg_c).with_keep_alive_timeout(Duration::from_secs(60)))
                .expect("node c");
            let _c_log = spawn_responder(w, c, handle_c, Resp::Answer);
            let addr_c = w.nodes[c].address.clone();
            w.nodes[a].cmd.send(NodeCmd::DialAddress(addr_c)).unwrap();
            w.run_to_quiescence(50_000);
        }
        let mut d_cmd = None;
        if self.second_requester {
            let (cfg_d, handle_d) = mk(None);
            let d = w
                .add_node(24, ConfigBuilder::new().with_request_response_protocol(cfg_d).with_keep_alive_timeout(Duration::from_secs(60)))
                .expect("node d");
            let (tx, _d_log) = spawn_requester(w, d, handle_d, peer_b);
            w.nodes[d].cmd.send(NodeCmd::DialAddress(w.nodes[b].address.clone())).unwrap();
            w.run_to_quiescence(50_000);
            d_cmd = Some(tx);
        }
        if self.fail_first_dial {
            let next = 0;
            // ordinal of node a's next transport-level dial
            let ord = if self.connected { 1 } else { next };
            w.faults.fail_dials.insert((a, ord));
        }
        St { a_cmd, a_log, b_log, pc: 0, peer_b, wait: None, node_a: a, node_b: b, d_cmd }
    }

    fn lazy_count(&self, st: &St, _w: &World) -> usize {
        usize::from(st.pc < self.program.len())
    }

    fn lazy_wait(&self, st: &St) -> Option<Duration> {
        st.wait.map(|n| Duration::from_secs(n as u64))
    }

    fn lazy_apply(&self, st: &mut St, w: &mut World, _k: usize) {
        st.wait = None;
        match &self.program[st.pc] {
            Op::HoldOpens(hold) => w.nodes[st.node_a].script.set_hold_opens(*hold),
            Op::Wait(n) => st.wait = Some(*n),
            Op::Send { idx, dial, size, try_send, with_fallback } => {
                let _ = st.a_cmd.send(ACmd::Send { idx: *idx, dial: *dial, size: *size, try_send: *try_send, with_fallback: *with_fallback });
            }
            Op::Cancel { idx } => {
                let _ = st.a_cmd.send(ACmd::Cancel { idx: *idx });
            }
            Op::SendOther { idx } => {
                if let Some(tx) = &st.d_cmd {
                    let _ = tx.send(ACmd::Send { idx: *idx, dial: false, size: 3, try_send: false, with_fallback: false });
                }
            }
            Op::CutLink => {
                for k in 0..w.links.len() {
                    let (x, y) = (w.links[k].a, w.links[k].b);
                    if (x == st.node_a && y == st.node_b) || (x == st.node_b && y == st.node_a) {
                        w.cut_link(k);
                    }
                }
            }
            Op::CutBystander => {
                for k in 0..w.links.len() {
                    let (x, y) = (w.links[k].a, w.links[k].b);
                    if (x == st.node_a || y == st.node_a) && x != st.node_b && y != st.node_b {
                        w.cut_link(k);
                    }
                }
            }
        }
        st.pc += 1;
    }

    fn time(&self) -> (u32, Duration) {
        (7, Duration::from_secs(1))
    }

    fn finish(&self, st: &mut St, _w: &mut World, quiescent: bool) -> Vec<Viol> {
        let mut v = Vec::new();
        if !quiescent {
            v.push(Viol::new("rr/no-quiescence", "step cap hit: the system never became quiescent"));
            return v;
        }
        let a = st.a_log.lock().clone();
        let b = st.b_log.lock().clone();
        let cancelled: Vec<u8> = self.program.iter().filter_map(|o| if let Op::Cancel { idx } = o { Some(*idx) } else { None }).collect();
        let mut issued: BTreeMap<usize, u8> = BTreeMap::new();
        for e in &a {
            if let ALog::Sent { idx, id: Some(id) } = e {
                issued.insert(*id, *idx);
            }
        }
        // what the program asked for
        let sends: BTreeMap<u8, (bool, usize)> = self
            .program
            .iter()
            .filter_map(|o| if let Op::Send { idx, dial, size, .. } = o { Some((*idx, (*dial, *size))) } else { None })
            .collect();
        for (id, idx) in &issued {
            let responses: Vec<&Vec<u8>> = a.iter().filter_map(|e| if let ALog::Response { id: i, payload } = e { (i == id).then_some(payload) } else { None }).collect();
            let failures: Vec<&String> = a.iter().filter_map(|e| if let ALog::Failed { id: i, error } = e { (i == id).then_some(error) } else { None }).collect();
            let n = responses.len() + failures.len();
            let (dial, size) = sends[idx];
            // discriminator: how the request had to travel
            let how = if self.connected { "connected" } else if dial { "dial-on-demand" } else { "not-connected-no-dial" };
            if n > 1 {
                v.push(Viol::new(
                    format!("rr/two-terminal-events/{how}"),
                    format!("request {idx} (id {id}) got {} responses and {} failures: {responses:?} {failures:?}", responses.len(), failures.len()),
                ));
            }
            if n == 0 && !cancelled.contains(idx) {
                let multi = issued.len() > 1;
                v.push(Viol::new(
                    format!("rr/no-terminal-event/{how}{}", if multi { "/several-requests-to-one-peer" } else { "" }),
                    format!("request {idx} (id {id}) never got a response or a failure although all timeouts have elapsed; requester log: {a:?}"),
                ));
            }
            for r in &responses {
                let expect = response_for(&payload(*idx, size));
                if **r != expect {
                    v.push(Viol::new(
                        "rr/response-payload-mismatch",
                        format!("request {idx} (id {id}) received {r:?}, the responder supplied {expect:?} for that request"),
                    ));
                }
                if self.responder != Resp::Answer {
                    v.push(Viol::new("rr/response-invented", format!("request {idx} got a response but the responder never answers")));
                }
                if size > MAX_SIZE {
                    v.push(Viol::new("rr/oversized-request-answered", format!("request {idx} of {size} bytes exceeds the maximum {MAX_SIZE} but was answered")));
                }
            }
        }
        // terminal events for ids never issued
        for e in &a {
            let id = match e {
                ALog::Response { id, .. } | ALog::Failed { id, .. } => *id,
                _ => continue,
            };
            if !issued.contains_key(&id) {
                v.push(Viol::new("rr/event-for-unknown-request", format!("terminal event for request id {id} that was never issued: {e:?}")));
            }
        }
        // responder side: each request at most once, concurrency bound respected
        let mut seen: BTreeMap<Vec<u8>, usize> = BTreeMap::new();
        for BLog::Request { payload, outstanding } in &b {
            *seen.entry(payload.clone()).or_default() += 1;
            if let Some(m) = self.max_inbound {
                if *outstanding > m {
                    v.push(Viol::new("rr/inbound-bound-exceeded", format!("{outstanding} unanswered inbound requests at the responder, bound {m}")));
                }
            }
        }
        for (p, n) in seen {
            if n > 1 {
                v.push(Viol::new("rr/request-delivered-twice", format!("responder saw request {p:?} {n} times")));
            }
        }
        let _ = st.peer_b;
        v
    }

    fn trace_class(&self, st: &St, _w: &World) -> String {
        let a: Vec<String> = st
            .a_log
            .lock()
            .iter()
            .map(|e| match e {
                ALog::Sent { idx, id } => format!("S{idx}{}", if id.is_some() { "" } else { "!" }),
                ALog::Response { id, .. } => format!("R{id}"),
                ALog::Failed { id, error } => format!("F{id}:{}", error.split('(').next().unwrap_or("")),
                ALog::Inbound => "I".into(),
            })
            .collect();
        format!("{}|b={}", a.join(","), st.b_log.lock().len())
    }
}

pub fn scenarios(thorough: bool) -> Vec<RrScenario> {
    let mut v = Vec::new();
    let send = |idx: u8, dial: bool| Op::Send { idx, dial, size: 3, try_send: false, with_fallback: false };
    for connected in [true, false] {
        for responder in [Resp::Answer, Resp::Reject, Resp::Stall] {
            // 1..3 requests
            for n in 1..=3u8 {
                if !thorough && n == 3 && responder != Resp::Answer {
                    continue;
                }
                let program: Vec<Op> = (0..n).map(|i| send(i, true)).collect();
                v.push(RrScenario { connected, program, responder, max_inbound: None, fail_first_dial: false, remote_refuses: false, bystander: false, second_requester: false });
            }
            // cancel at any point of a 2-request program
            for pos in 1..=2usize {
                let mut program = vec![send(0, true), send(1, true)];
                program.insert(pos, Op::Cancel { idx: 0 });
                v.push(RrScenario { connected, program, responder, max_inbound: None, fail_first_dial: false, remote_refuses: false, bystander: false, second_requester: false });
            }
            // connection drops after the requests were handed over
            v.push(RrScenario { connected, program: vec![send(0, true), send(1, true), Op::CutLink], responder, max_inbound: None, fail_first_dial: false, remote_refuses: false, bystander: false, second_requester: false });
        }
        // dial failure
        v.push(RrScenario { connected, program: vec![send(0, true), send(1, true)], responder: Resp::Answer, max_inbound: None, fail_first_dial: true, remote_refuses: false, bystander: false, second_requester: false });
        // no dial allowed
        v.push(RrScenario { connected, program: vec![send(0, false), send(1, true)], responder: Resp::Answer, max_inbound: None, fail_first_dial: false, remote_refuses: false, bystander: false, second_requester: false });
        // try_send
        v.push(RrScenario { connected, program: vec![Op::Send { idx: 0, dial: true, size: 3, try_send: true, with_fallback: false }, Op::Send { idx: 1, dial: true, size: 3, try_send: true, with_fallback: false }], responder: Resp::Answer, max_inbound: None, fail_first_dial: false, remote_refuses: false, bystander: false, second_requester: false });
    }
    // the `*_with_fallback` flavour of the calls: answered, refused at once (not connected, no dial allowed), dial failing,
    // and mixed with the plain flavour
    for connected in [true, false] {
        let fb = |idx: u8, dial: bool, try_send: bool| Op::Send { idx, dial, size: 3, try_send, with_fallback: true };
        let mk = |program: Vec<Op>, fail_first_dial: bool| RrScenario { connected, program, responder: Resp::Answer, max_inbound: None, fail_first_dial, remote_refuses: false, bystander: false, second_requester: false };
        v.push(mk(vec![fb(0, true, false), send(1, true)], false));
        v.push(mk(vec![fb(0, false, false), fb(1, true, true)], false));
        v.push(mk(vec![fb(0, false, true), send(1, false), fb(2, true, false)], false));
        v.push(mk(vec![fb(0, true, false), fb(1, true, true)], true));
    }
    // the remote refuses the connection right after it was negotiated
    for n in 1..=2u8 {
        let program: Vec<Op> = (0..n).map(|i| send(i, true)).collect();
        v.push(RrScenario { connected: false, program, responder: Resp::Answer, max_inbound: None, fail_first_dial: false, remote_refuses: true, bystander: false, second_requester: false });
    }
    // the requester's substream is slow to open: the request times out (4 s) before the substream exists, is cancelled,
    // or the connection drops first; the late substream must not produce a second event
    for responder in [Resp::Answer, Resp::Stall] {
        for connected in [true, false] {
            let mk = |program: Vec<Op>| RrScenario { connected, program, responder, max_inbound: None, fail_first_dial: false, remote_refuses: false, bystander: false, second_requester: false };
            if responder == Resp::Answer {
                v.push(mk(vec![Op::HoldOpens(true), send(0, true), Op::Wait(5), Op::HoldOpens(false)]));
                v.push(mk(vec![Op::HoldOpens(true), send(0, true), Op::Cancel { idx: 0 }, Op::HoldOpens(false), send(1, true)]));
                if connected || thorough {
                    v.push(mk(vec![Op::HoldOpens(true), send(0, true), send(1, true), Op::CutLink, Op::HoldOpens(false)]));
                    v.push(mk(vec![Op::HoldOpens(true), send(0, true), Op::Wait(6), Op::HoldOpens(false), send(1, true)]));
                }
            } else if connected {
                v.push(mk(vec![Op::HoldOpens(true), send(0, true), Op::Wait(2), Op::HoldOpens(false)]));
            }
        }
    }
    // an unrelated connection of the requester ends while requests to B are in flight: they must be unaffected
    for responder in [Resp::Answer, Resp::Stall] {
        v.push(RrScenario { connected: true, program: vec![send(0, true), Op::CutBystander, send(1, true)], responder, max_inbound: None, fail_first_dial: false, remote_refuses: false, bystander: true, second_requester: false });
    }
    v.push(RrScenario { connected: false, program: vec![send(0, true), Op::CutBystander], responder: Resp::Answer, max_inbound: None, fail_first_dial: false, remote_refuses: false, bystander: true, second_requester: false });
    // payload sizes
    for size in [0usize, 1, MAX_SIZE, MAX_SIZE + 1] {
        v.push(RrScenario { connected: true, program: vec![Op::Send { idx: 0, dial: true, size, try_send: false, with_fallback: false }, send(1, true)], responder: Resp::Answer, max_inbound: None, fail_first_dial: false, remote_refuses: false, bystander: false, second_requester: false });
    }
    // inbound bound
    for responder in [Resp::Answer, Resp::Stall] {
        v.push(RrScenario { connected: true, program: vec![send(0, true), send(1, true), send(2, true)], responder, max_inbound: Some(1), fail_first_dial: false, remote_refuses: false, bystander: false, second_requester: false });
    }
    // inbound bound with requests of two different peers arriving together
    for (responder, program) in [
        (Resp::Stall, vec![send(0, true), Op::SendOther { idx: 7 }]),
        (Resp::Stall, vec![Op::SendOther { idx: 7 }, send(0, true), send(1, true)]),
        (Resp::Answer, vec![send(0, true), Op::SendOther { idx: 7 }, send(1, true)]),
    ] {
        v.push(RrScenario { connected: true, program, responder, max_inbound: Some(1), fail_first_dial: false, remote_refuses: false, bystander: false, second_requester: true });
    }
    v
}

/// One execution: a request to B is in flight (B never answers), the requester's user stops reading events and its
/// event channel is filled to capacity with failures of other requests, then the connection to B is lost. Once the user
/// reads again, the request to B must have its one terminal event (the protocol has to wait for room in the channel,
/// not drop the report), and so must every other request.
fn connection_lost_while_the_users_event_channel_is_full(ctx: &mut Ctx) {
    let result = std::thread::spawn(|| -> Result<(usize, usize), Viol> {
        let rt = crate::env::driver::runtime(9);
        let _g = rt.enter();
        let scn = RrScenario { connected: true, program: vec![], responder: Resp::Stall, max_inbound: None, fail_first_dial: false, remote_refuses: false, bystander: false, second_requester: false };
        let mut w = World::new();
        let st = scn.setup(&mut w);
        let _ = st.a_cmd.send(ACmd::Send { idx: 0, dial: true, size: 3, try_send: false, with_fallback: false });
        w.run_to_quiescence(100_000);
        let _ = st.a_cmd.send(ACmd::Stall(true));
        let capacity = litep2p::verif::DEFAULT_CHANNEL_SIZE;
        let _ = st.a_cmd.send(ACmd::Flood(capacity));
        w.run_to_quiescence(2_000_000);
        for k in 0..w.links.len() {
            w.cut_link(k);
        }
        w.run_to_quiescence(2_000_000);
        let _ = st.a_cmd.send(ACmd::Stall(false));
        w.run_to_quiescence(2_000_000);
        let a = st.a_log.lock().clone();
        let issued: Vec<(u8, usize)> = a.iter().filter_map(|e| if let ALog::Sent { idx, id: Some(id) } = e { Some((*idx, *id)) } else { None }).collect();
        if issued.len() != capacity + 1 {
            return Err(Viol::new("machinery/clogged-user-setup", format!("{} of {} requests were accepted", issued.len(), capacity + 1)));
        }
        let mut missing = Vec::new();
        let mut twice = Vec::new();
        for (idx, id) in &issued {
            let n = a.iter().filter(|e| matches!(e, ALog::Response { id: i, .. } | ALog::Failed { id: i, .. } if i == id)).count();
            if n == 0 {
                missing.push((*idx, *id));
            } else if n > 1 {
                twice.push((*idx, *id));
            }
        }
        if !twice.is_empty() {
            return Err(Viol::new("rr/two-terminal-events/event-channel-full", format!("requests with two terminal events: {:?}", &twice[..twice.len().min(5)])));
        }
        if !missing.is_empty() {
            let on_b = missing.iter().any(|(idx, _)| *idx == 0);
            return Err(Viol::new(
                if on_b { "rr/no-terminal-event/connection-lost-while-event-channel-full" } else { "rr/no-terminal-event/immediate-failure-while-event-channel-full" },
                format!(
                    "{} request(s) never got a terminal event after the user resumed reading (first: {:?}; idx 0 = the request to B whose connection was lost while the user's event channel held {capacity} unread events)",
                    missing.len(), &missing[..missing.len().min(5)]
                ),
            ));
        }
        Ok((issued.len(), w.driver.steps as usize))
    })
    .join();
    match result {
        Ok(Ok((n, steps))) => {
            ctx.sub("connection_lost_while_the_users_event_channel_is_full", serde_json::json!({"requests": n, "driver_steps": steps, "held": true}));
            ctx.cov_add("traces_validated_against_impl", 1);
        }
        Ok(Err(v)) if v.signature.starts_with("machinery/") => ctx.machinery_error(format!("{}: {}", v.signature, v.what)),
        Ok(Err(v)) => ctx.violation(crate::report::Violation {
            signature: v.signature,
            what: v.what,
            replay: serde_json::json!({"engine": "scripted", "scenario": "connection_lost_while_the_users_event_channel_is_full"}),
        }),
        Err(_) => ctx.machinery_error("clogged-user scenario panicked"),
    }
}

pub fn run(ctx: &mut Ctx) {
    let thorough = ctx.tier == crate::report::Tier::Thorough;
    let e2 = E2 { bound: if thorough { 3 } else { 2 }, max_executions: 3_000_000, demotions: usize::from(thorough), bound_with_demotion: 2, ..Default::default() };
    let scns = scenarios(thorough);
    ctx.cov("programs", scns.len() as u64);
    for s in &scns {
        let out = e2.explore(s);
        e2::absorb(ctx, &s.name(), out);
    }
    connection_lost_while_the_users_event_channel_is_full(ctx);
    ctx.cov("deviation_bound", e2.bound as u64);
    ctx.cov(
        "rule",
        "for every requester program x responder behaviour x fault x payload size: E2 runs the default (FIFO) schedule of all tasks of two real \
         Litep2p nodes on SimNet and every schedule with up to deviation_bound deviations (another enabled task, or the next user command / fault \
         issued early), each to quiescence with virtual time stepped past the request timeout; states = distinct observable trace classes",
    );
    ctx.assume("SimNet's connection task mirrors transport/tcp/connection.rs over real yamux + multistream-select + ProtocolSet; Noise/TCP below yamux is replaced by an in-memory pipe (DESIGN §2.3)");
    ctx.assume("interleaving granularity is one poll of one task; tokio::select! branch order inside a poll is fixed by the runtime seed");
    ctx.assume("request timeout 4 s, 7 idle clock ticks of 1 s at the end of every execution");
}

pub fn replay(case: &Value) -> Result<String, String> {
    if case["engine"] == "scripted" {
        return Err("re-run `verif check C13`: this scenario is a single deterministic execution inside the check".into());
    }
    let s: RrScenario = serde_json::from_value(case["config"].clone()).map_err(|e| e.to_string())?;
    e2::replay(&s, case)
}
