//! C05 — every dial attempt ends in exactly one outcome and never wedges the peer (oracles `c05/*` of the manager model),
//! plus one scenario on the real `TcpTransport` (E4) for the part of the path the scripted transport replaces.
use crate::{
    env::simnet::{NodeCmd, NodeLog, World},
    mc::e1::{panic_site, take_panic},
    report::{Ctx, Violation},
    util,
};
use litep2p::config::ConfigBuilder;
use serde_json::json;
use std::{
    panic::{catch_unwind, AssertUnwindSafe},
    time::Duration,
};

pub fn run(ctx: &mut Ctx) {
    super::manager::run_filtered(ctx, "c05");
    // the runtime seed fixes the branch order of every `tokio::select!` in the node's event loop: enumerate a few
    for seed in 1..=12u64 {
        concurrent_dials_one_cancelled_on_real_tcp(ctx, true, seed);
    }
    concurrent_dials_one_cancelled_on_real_tcp(ctx, false, 1);
    known_address_naming_two_peers_on_real_tcp(ctx);
    odd_addresses_on_real_tcp(ctx);
    super::conn::dial_failures_reach_a_clogged_protocol(ctx, false);
    super::conn::dial_failures_reach_a_clogged_protocol(ctx, true);
}

/// A known address for peer B that leads to (and names) another live node A before naming B
/// (`/ip4/../tcp/../p2p/A/p2p/B`), then `dial(B)` on real TCP nodes: the attempt must end in one outcome for B — refused
/// at once, or one failure — never a panic, never silence, and no connection reported for B.
fn known_address_naming_two_peers_on_real_tcp(ctx: &mut Ctx) {
    let result = std::thread::spawn(move || -> Result<String, (String, String)> {
        let rt = crate::env::driver::runtime_io(3);
        let r = catch_unwind(AssertUnwindSafe(|| {
            rt.block_on(async {
                let (_park_tx, park_rx) = std::sync::mpsc::channel::<()>();
                let _parked = tokio::task::spawn_blocking(move || {
                    let _ = park_rx.recv();
                });
                let mut w = World::new();
                let mut handles = Vec::new();
                let mut mk = || {
                    let (m, h) = crate::env::node::Monitor::new("/verif/x/1");
                    handles.push(h);
                    ConfigBuilder::new().with_user_protocol(m).with_keep_alive_timeout(Duration::from_secs(100_000))
                };
                let l = w.add_tcp_node(61, mk()).expect("tcp node");
                let a = w.add_tcp_node(62, mk()).expect("tcp node");
                async fn settle(w: &mut World) {
                    loop {
                        w.run_to_quiescence(1_000_000);
                        if !crate::mc::e2::settle_io(w).await {
                            break;
                        }
                    }
                }
                settle(&mut w).await;
                let peer_b = util::peer(6363);
                // A's listen address already ends in /p2p/A; append /p2p/B
                let address = w.nodes[a].address.clone().with(multiaddr::Protocol::P2p(peer_b.into()));
                let _ = w.nodes[l].cmd.send(NodeCmd::AddKnown(peer_b, address.clone()));
                settle(&mut w).await;
                let _ = w.nodes[l].cmd.send(NodeCmd::Dial(peer_b));
                for _ in 0..3 {
                    settle(&mut w).await;
                    tokio::time::advance(Duration::from_secs(10)).await;
                }
                settle(&mut w).await;
                let log: Vec<String> = w.nodes[l]
                    .log
                    .lock()
                    .iter()
                    .map(|e| match e {
                        NodeLog::Event(s) => s.chars().take(120).collect(),
                        NodeLog::DialResult(_, r) => format!("dial(B) -> {r:?}"),
                    })
                    .collect();
                let desc = format!("known address {address}; node log {log:?}");
                let refused = log.iter().any(|s| s.starts_with("dial(B) -> Err"));
                let failures = log.iter().filter(|s| s.starts_with("DialFailure") || s.starts_with("OpenFailure")).count();
                let established_b = log.iter().any(|s| s.starts_with("ConnectionEstablished") && s.contains(&peer_b.to_string()));
                if established_b {
                    return Err(("c05/tcp/connection-reported-for-a-peer-that-proved-nothing".to_string(), desc));
                }
                if !(refused && failures == 0) && !(!refused && failures == 1) {
                    return Err(("c05/tcp/no-single-outcome/address-naming-two-peers".to_string(), format!("expected the dial to be refused at once or to fail exactly once; {desc}")));
                }
                Ok(desc)
            })
        }));
        match r {
            Ok(x) => x,
            Err(_) => {
                let msg = take_panic();
                Err((format!("panic/{}", panic_site(&msg)), format!("panic while dialing a peer known under an address that names two peers: {msg}")))
            }
        }
    })
    .join();
    let replay = json!({"kind": "known-address-naming-two-peers-on-real-tcp"});
    match result {
        Ok(Ok(_)) => {
            ctx.cov_add("traces_validated_against_impl", 1);
            ctx.cov_add("tcp_adversarial_address_scenarios", 1);
        }
        Ok(Err((sig, what))) if sig.starts_with("machinery/") => ctx.machinery_error(format!("{sig}: {what}")),
        Ok(Err((sig, what))) => ctx.violation(Violation { signature: sig, what, replay }),
        Err(_) => ctx.machinery_error("adversarial-address TCP scenario: harness thread panicked outside the guarded region"),
    }
}

/// Unusual but well-formed addresses through the real `TcpTransport` (E4): `dial_address(<odd address>/p2p/R)` on node L,
/// 12 s of virtual time, then `dial_address(<R's real address>)`. Whatever the transport makes of the odd address —
/// refuse the call, fail the dial, or reach R after all — the peer must not be left wedged: a refused call owes nothing and
/// changes nothing, an accepted one ends in exactly one outcome, and R is connected at the end.
fn odd_addresses_on_real_tcp(ctx: &mut Ctx) {
    let shapes: [&str; 8] = [
        "/ip4/0.0.0.0/tcp/{port}",
        "/ip6/::/tcp/{port}",
        "/ip4/127.0.0.1/tcp/1",
        "/ip4/127.0.0.1/tcp/0",
        "/ip4/255.255.255.255/tcp/{port}",
        "/ip4/224.0.0.1/tcp/{port}",
        "/ip6/::1/tcp/{port}",
        "/dns4/localhost/tcp/{port}",
    ];
    for shape in shapes {
        let result = std::thread::spawn(move || -> Result<String, (String, String)> {
            let rt = crate::env::driver::runtime_io(5);
            let r = catch_unwind(AssertUnwindSafe(|| {
                rt.block_on(async {
                    let (_park_tx, park_rx) = std::sync::mpsc::channel::<()>();
                    let _parked = tokio::task::spawn_blocking(move || {
                        let _ = park_rx.recv();
                    });
                    let mut w = World::new();
                    let mut handles = Vec::new();
                    let mut mk = || {
                        let (m, h) = crate::env::node::Monitor::new("/verif/x/1");
                        handles.push(h);
                        ConfigBuilder::new().with_user_protocol(m).with_keep_alive_timeout(Duration::from_secs(100_000))
                    };
                    let l = w.add_tcp_node(65, mk()).expect("tcp node");
                    let r = w.add_tcp_node(66, mk()).expect("tcp node");
                    async fn settle(w: &mut World) {
                        loop {
                            w.run_to_quiescence(1_000_000);
                            if !crate::mc::e2::settle_io(w).await {
                                break;
                            }
                        }
                    }
                    settle(&mut w).await;
                    let peer_r = w.nodes[r].peer;
                    let addr_r = w.nodes[r].address.clone();
                    let port = addr_r.iter().find_map(|p| if let multiaddr::Protocol::Tcp(port) = p { Some(port) } else { None }).unwrap_or(1);
                    let odd: multiaddr::Multiaddr = shape.replace("{port}", &port.to_string()).parse().map_err(|e| ("machinery/odd-address".to_string(), format!("{shape}: {e:?}")))?;
                    let odd = odd.with(multiaddr::Protocol::P2p(peer_r.into()));
                    let _ = w.nodes[l].cmd.send(NodeCmd::DialAddress(odd.clone()));
                    for _ in 0..12 {
                        settle(&mut w).await;
                        tokio::time::advance(Duration::from_secs(1)).await;
                    }
                    settle(&mut w).await;
                    let _ = w.nodes[l].cmd.send(NodeCmd::DialAddress(addr_r.clone()));
                    for _ in 0..12 {
                        settle(&mut w).await;
                        tokio::time::advance(Duration::from_secs(1)).await;
                    }
                    settle(&mut w).await;
                    let log: Vec<String> = w.nodes[l]
                        .log
                        .lock()
                        .iter()
                        .map(|e| match e {
                            NodeLog::Event(s) => s.chars().take(100).collect(),
                            NodeLog::DialResult(_, r) => format!("dial -> {r:?}"),
                        })
                        .collect();
                    let desc = format!("first dial_address({odd}), 12 s later dial_address({addr_r}); node log {log:?}");
                    let results: Vec<&String> = log.iter().filter(|s| s.starts_with("dial -> ")).collect();
                    if results.len() != 2 {
                        return Err(("machinery/odd-address".to_string(), format!("expected two dial results; {desc}")));
                    }
                    let first_ok = results[0].starts_with("dial -> Ok");
                    let second = results[1].as_str();
                    let established = log.iter().filter(|s| s.starts_with("ConnectionEstablished")).count();
                    let failures = log.iter().filter(|s| s.starts_with("DialFailure") || s.starts_with("ListDialFailures") || s.starts_with("OpenFailure")).count();
                    let kind = shape.split('/').take(3).collect::<Vec<_>>().join("_").replace([':', '.'], "");
                    if !first_ok && failures > 0 && established == 0 && second.starts_with("dial -> Err") {
                        // nothing wrong yet: refused twice (e.g. an address the node cannot dial at all)
                    }
                    if established == 0 {
                        let sig = if second.starts_with("dial -> Ok") { "c05/tcp/wedged-after-odd-address/dial-ok-but-no-outcome" } else { "c05/tcp/wedged-after-odd-address/dial-refused" };
                        return Err((format!("{sig}/{kind}"), format!("R is reachable at its real address and was dialed there, yet no connection was ever reported; {desc}")));
                    }
                    if established > 1 {
                        return Err((format!("c05/tcp/two-connections-reported/{kind}"), desc));
                    }
                    // an accepted first dial ends in exactly one outcome: the connection, or one failure
                    let connected_by_first = second.contains("AlreadyConnected");
                    if first_ok && !connected_by_first && failures != 1 {
                        return Err((format!("c05/tcp/no-single-outcome/odd-address/{kind}"), format!("the first dial was accepted and did not connect: expected exactly one failure report, saw {failures}; {desc}")));
                    }
                    if !first_ok && failures != 0 {
                        return Err((format!("c05/tcp/failure-report-for-a-refused-dial/{kind}"), desc));
                    }
                    Ok(desc)
                })
            }));
            match r {
                Ok(x) => x,
                Err(_) => {
                    let msg = take_panic();
                    Err((format!("panic/{}", panic_site(&msg)), format!("panic while dialing an unusual address ({shape}): {msg}")))
                }
            }
        })
        .join();
        let replay = json!({"kind": "odd-address-on-real-tcp", "shape": shape});
        match result {
            Ok(Ok(_)) => {
                ctx.cov_add("traces_validated_against_impl", 1);
                ctx.cov_add("tcp_odd_address_scenarios", 1);
            }
            Ok(Err((sig, what))) if sig.starts_with("machinery/") => ctx.machinery_error(format!("{sig}: {what}")),
            Ok(Err((sig, what))) => ctx.violation(Violation { signature: sig, what, replay }),
            Err(_) => ctx.machinery_error("odd-address TCP scenario: harness thread panicked outside the guarded region"),
        }
    }
}

/// Two dials by peer id in flight on a real `TcpTransport` (the dialed sockets take the TCP connection but never answer
/// the handshake); peer A then connects to the node on its own, so the dial towards A is cancelled; the socket dialed
/// for B goes away, so the dial towards B fails. With `both_in_one_poll` the node's event loop is not polled between
/// the two (a busy application), so the transport sees the cancellation and B's failure in the same poll.
/// Every accepted dial must end in exactly one outcome: B's failure is reported once, A is connected once, and B can be
/// dialed again.
fn concurrent_dials_one_cancelled_on_real_tcp(ctx: &mut Ctx, both_in_one_poll: bool, seed: u64) {
    let result = std::thread::spawn(move || -> Result<String, (String, String)> {
        let rt = crate::env::driver::runtime_io(seed);
        let r = catch_unwind(AssertUnwindSafe(|| {
            rt.block_on(async {
                let (_park_tx, park_rx) = std::sync::mpsc::channel::<()>();
                let _parked = tokio::task::spawn_blocking(move || {
                    let _ = park_rx.recv();
                });
                let mut w = World::new();
                // a user protocol on each node keeps the A<->node connection up (a connection nobody holds closes at once,
                // and that closure would poll the node again)
                let mut handles = Vec::new();
                let mut mk = || {
                    let (m, h) = crate::env::node::Monitor::new("/verif/x/1");
                    handles.push(h);
                    ConfigBuilder::new().with_user_protocol(m).with_keep_alive_timeout(Duration::from_secs(100_000))
                };
                let l = w.add_tcp_node(51, mk()).expect("tcp node");
                let a = w.add_tcp_node(52, mk()).expect("tcp node");
                async fn settle(w: &mut World) {
                    loop {
                        w.run_to_quiescence(1_000_000);
                        if !crate::mc::e2::settle_io(w).await {
                            break;
                        }
                    }
                }
                settle(&mut w).await;
                let peer_a = w.nodes[a].peer;
                let peer_b = util::peer(5353);
                // sockets that take connections (kernel backlog) and never speak
                let sock_a = std::net::TcpListener::bind("127.0.0.1:0").map_err(|e| ("machinery/tcp-setup".to_string(), e.to_string()))?;
                let sock_b = std::net::TcpListener::bind("127.0.0.1:0").map_err(|e| ("machinery/tcp-setup".to_string(), e.to_string()))?;
                let addr = |port: u16, p: litep2p::PeerId| -> multiaddr::Multiaddr {
                    format!("/ip4/127.0.0.1/tcp/{port}").parse::<multiaddr::Multiaddr>().unwrap().with(multiaddr::Protocol::P2p(p.into()))
                };
                let addr_b = addr(sock_b.local_addr().unwrap().port(), peer_b);
                let _ = w.nodes[l].cmd.send(NodeCmd::AddKnown(peer_a, addr(sock_a.local_addr().unwrap().port(), peer_a)));
                let _ = w.nodes[l].cmd.send(NodeCmd::AddKnown(peer_b, addr_b));
                settle(&mut w).await;
                let _ = w.nodes[l].cmd.send(NodeCmd::Dial(peer_a));
                let _ = w.nodes[l].cmd.send(NodeCmd::Dial(peer_b));
                settle(&mut w).await;
                let short = |w: &World| -> Vec<String> {
                    w.nodes[l]
                        .log
                        .lock()
                        .iter()
                        .map(|e| match e {
                            NodeLog::Event(s) => s.chars().take(110).collect(),
                            NodeLog::DialResult(p, r) => format!("dial({}) -> {r:?}", if *p == peer_a { "A" } else { "B" }),
                        })
                        .collect()
                };
                let dials_ok = w.nodes[l].log.lock().iter().filter(|e| matches!(e, NodeLog::DialResult(_, Ok(())))).count();
                if dials_ok != 2 {
                    return Err(("machinery/tcp-setup".to_string(), format!("the two dials were not accepted: {:?}", short(&w))));
                }
                // A connects to the node on its own: the node reports it (and cancels its own dial towards A). With
                // `both_in_one_poll` the application is busy after that event, so the node is not polled again until
                // the socket dialed for B has gone away
                let hold = w.nodes[l].hold_after_event.clone();
                if both_in_one_poll {
                    hold.0.store(true, std::sync::atomic::Ordering::SeqCst);
                }
                let _ = w.nodes[a].cmd.send(NodeCmd::DialAddress(w.nodes[l].address.clone()));
                settle(&mut w).await;
                // accept-and-drop, then drop the listener: the dialer's socket sees the peer go away
                sock_b.set_nonblocking(true).ok();
                while let Ok((s, _)) = sock_b.accept() {
                    drop(s);
                }
                drop(sock_b);
                settle(&mut w).await;
                hold.0.store(false, std::sync::atomic::Ordering::SeqCst);
                hold.1.notify_one();
                settle(&mut w).await;
                if std::env::var_os("VERIF_C05_TRACE").is_some() {
                    eprintln!("[c05-tcp] right after release: {:?}", short(&w));
                }
                // some time, well below every timer that would poll the node again (connection open timeout 10 s..)
                for _ in 0..3 {
                    tokio::time::advance(Duration::from_secs(1)).await;
                    settle(&mut w).await;
                }
                let log = short(&w);
                let b_text = peer_b.to_string();
                let a_text = peer_a.to_string();
                let b_failures = log.iter().filter(|s| (s.starts_with("DialFailure") || s.starts_with("OpenFailure")) && (s.contains(&b_text) || s.starts_with("OpenFailure"))).count();
                let a_established = log.iter().filter(|s| s.starts_with("ConnectionEstablished") && s.contains(&a_text)).count();
                let desc = format!("both_in_one_poll={both_in_one_poll} runtime_seed={seed}; node log {log:?}");
                if a_established != 1 {
                    return Err(("c05/tcp/inbound-connection-not-reported".to_string(), format!("A connected to the node but ConnectionEstablished(A) was reported {a_established} times; {desc}")));
                }
                if b_failures != 1 {
                    return Err((
                        "c05/tcp/no-outcome/dial-failed-while-another-dial-was-cancelled".to_string(),
                        format!("the dial towards B (its socket went away) must end in exactly one failure report, saw {b_failures}, 3 s later; {desc}"),
                    ));
                }
                // B can be dialed again (refused now): one more failure
                let _ = w.nodes[l].cmd.send(NodeCmd::Dial(peer_b));
                for _ in 0..3 {
                    settle(&mut w).await;
                    tokio::time::advance(Duration::from_secs(1)).await;
                }
                settle(&mut w).await;
                let log2 = short(&w);
                let redial = log2.iter().rev().find(|s| s.starts_with("dial(B)")).cloned().unwrap_or_default();
                let failures2 = log2.iter().filter(|s| s.starts_with("DialFailure") || s.starts_with("OpenFailure")).count();
                if !redial.contains("Ok") || failures2 != 2 {
                    return Err((
                        "c05/tcp/wedged-after-failure".to_string(),
                        format!("after its failure B must be dialable again and that attempt must get its own outcome: redial {redial:?}, failure reports {failures2}; node log {log2:?}"),
                    ));
                }
                Ok(desc)
            })
        }));
        match r {
            Ok(x) => x,
            Err(_) => {
                let msg = take_panic();
                Err((format!("panic/{}", panic_site(&msg)), format!("panic in the concurrent-dials TCP scenario: {msg}")))
            }
        }
    })
    .join();
    let replay = json!({"kind": "concurrent-dials-one-cancelled-on-real-tcp", "both_in_one_poll": both_in_one_poll, "runtime_seed": seed});
    match result {
        Ok(Ok(desc)) => {
            if std::env::var_os("VERIF_C05_TRACE").is_some() {
                eprintln!("[c05-tcp] {desc}");
            }
            ctx.cov_add("traces_validated_against_impl", 1);
            ctx.cov_add("tcp_concurrent_dial_scenarios", 1);
            if both_in_one_poll {
                ctx.sample(json!({"case": replay, "observed": desc.chars().take(700).collect::<String>()}));
            }
        }
        Ok(Err((sig, what))) if sig.starts_with("machinery/") => ctx.machinery_error(format!("{sig}: {what}")),
        Ok(Err((sig, what))) => ctx.violation(Violation { signature: sig, what, replay }),
        Err(_) => ctx.machinery_error("concurrent-dials TCP scenario: harness thread panicked outside the guarded region"),
    }
}
