//! C05 — every dial attempt ends in exactly one outcome and never wedges the peer (oracles `c05/*` of the manager model).
use crate::report::Ctx;

pub fn run(ctx: &mut Ctx) {
    super::manager::run_filtered(ctx, "c05");
}
