//! C04 — "Framed substream messages round-trip exactly within configured limits".
//!
//! Bounded exhaustive enumeration over the REAL `litep2p::substream::Substream` (TCP flavour) on top of a real
//! yamux connection pair (driven through litep2p's own `yamux::Control` / `ControlledConnection`) over the scripted
//! duplex carrier, all polled by the deterministic driver. One case = fresh paused runtime, two connection driver
//! tasks, one writer task, one reader task.
//!
//! Honest cases: codec x message-size sequence x send API x reader pattern x carrier policy.
//!   oracle: (a) sizes valid for the codec are accepted, others refused with Err;
//!           (b) the reader receives exactly the accepted messages, byte-exact, in order, nothing extra;
//!           (c) at the moment `send` / `flush` / `send_framed` returns Ok nothing is left queued inside the
//!               substream (observer hook) AND the reader can obtain every message while the writer's substream
//!               is never polled again (only the connection tasks run);
//!           (d) nothing hangs, nothing panics.
//! Raw cases: arbitrary bytes (malformed / oversized length prefixes) are written through the tokio `AsyncWrite`
//!   impl of a peer `Substream` with `ProtocolCodec::Unspecified`; the receiver uses `UnsignedVarint(max)`.
//!   oracle: complete well-formed frames before the defect are delivered exactly, then `Some(Err)` or `None`;
//!           never a message longer than max; an oversized / malformed length is rejected while the stream is
//!           still open (i.e. before waiting for / allocating the claimed payload); never a panic — also not when
//!           the stream is polled again after it yielded an error (reported under its own signature).

use crate::{
    env::{driver, pipe},
    mc::e1::{hash128, take_panic},
    report::{Ctx, Violation},
};
use bytes::Bytes;
use futures::{
    channel::{mpsc, oneshot},
    SinkExt, StreamExt,
};
use litep2p::{codec::ProtocolCodec, substream::Substream, types::SubstreamId, verif::tcp_substream, yamux};
use parking_lot::Mutex;
use serde::{Deserialize, Serialize};
use serde_json::{json, Value};
use std::{
    collections::{BTreeMap, HashSet},
    future::Future,
    panic::{catch_unwind, AssertUnwindSafe},
    pin::Pin,
    sync::{
        atomic::{AtomicUsize, Ordering},
        Arc,
    },
};

// ---------------------------------------------------------------------------------------------------------
// case description
// ---------------------------------------------------------------------------------------------------------

#[derive(Clone, Copy, Debug, PartialEq, Eq, Hash, Serialize, Deserialize)]
enum Codec {
    Identity(usize),
    Varint(Option<usize>),
}

impl Codec {
    fn real(self) -> ProtocolCodec {
        match self {
            Codec::Identity(n) => ProtocolCodec::Identity(n),
            Codec::Varint(m) => ProtocolCodec::UnsignedVarint(m),
        }
    }
    fn kind(self) -> &'static str {
        match self {
            Codec::Identity(_) => "identity",
            Codec::Varint(_) => "varint",
        }
    }
    /// the property's notion of "within configured limits"
    fn valid(self, size: usize) -> bool {
        match self {
            Codec::Identity(n) => size == n,
            Codec::Varint(Some(m)) => size <= m,
            Codec::Varint(None) => true,
        }
    }
}

#[derive(Clone, Copy, Debug, PartialEq, Eq, Hash, Serialize, Deserialize)]
enum Api {
    SinkSend,
    FeedFlush,
    SendFramed,
}

impl Api {
    fn name(self) -> &'static str {
        match self {
            Api::SinkSend => "sink-send",
            Api::FeedFlush => "feed-flush",
            Api::SendFramed => "send-framed",
        }
    }
}

const APIS: [Api; 3] = [Api::SinkSend, Api::FeedFlush, Api::SendFramed];

#[derive(Clone, Copy, Debug, PartialEq, Eq, Hash, Serialize, Deserialize)]
enum ReaderPat {
    /// reads concurrently with the writer
    Eager,
    /// is started only after the writer reported completion of every send (or, if the writer legitimately
    /// blocks on flow control, at that stall); after completion the writer's substream is never polled again
    AfterCompletion,
    /// reads one message, then pauses until the rest of the system is quiescent
    PauseAfterOne,
}

impl ReaderPat {
    fn name(self) -> &'static str {
        match self {
            ReaderPat::Eager => "eager",
            ReaderPat::AfterCompletion => "after-completion",
            ReaderPat::PauseAfterOne => "pause-after-one",
        }
    }
}

const READERS: [ReaderPat; 3] = [ReaderPat::Eager, ReaderPat::AfterCompletion, ReaderPat::PauseAfterOne];

/// Carrier policy under yamux (same shape in both directions). `pending` = spurious `Pending` deviations:
/// (pipe: 0 = writer-side -> reader-side, 1 = reverse; kind: 0 read, 1 write, 2 flush; operation index).
#[derive(Clone, Debug, Default, PartialEq, Eq, Hash, Serialize, Deserialize)]
struct Carrier {
    read_chunk: Option<usize>,
    write_accept: Option<usize>,
    window: Option<usize>,
    pending: Vec<(u8, u8, u64)>,
    /// task schedule: false = round-robin in ascending task order (connection tasks first), true = descending
    #[serde(default)]
    rev_sched: bool,
}

impl Carrier {
    fn policy(&self, pipe_no: u8) -> pipe::Policy {
        let mut p = pipe::Policy::default();
        if let Some(x) = self.read_chunk {
            p.read_chunk = x;
        }
        if let Some(x) = self.write_accept {
            p.write_accept = x;
        }
        if let Some(x) = self.window {
            p.window = x;
        }
        for (pp, k, i) in &self.pending {
            if *pp == pipe_no {
                match k {
                    0 => p.pending_reads.insert(*i),
                    1 => p.pending_writes.insert(*i),
                    _ => p.pending_flushes.insert(*i),
                };
            }
        }
        p
    }
}

#[derive(Clone, Debug, PartialEq, Eq, Hash, Serialize, Deserialize)]
#[serde(tag = "kind")]
enum Case {
    Honest { codec: Codec, sizes: Vec<usize>, api: Api, reader: ReaderPat, carrier: Carrier },
    /// `raw` (hex) is written verbatim into the stream; `eof`: the sender closes its half right after
    Raw { max: Option<usize>, raw: String, eof: bool, carrier: Carrier },
}

#[derive(Default, Clone, Debug)]
struct Outcome {
    viols: Vec<(String, String)>,
    delivered: usize,
    delivered_bytes: u64,
    accepted: usize,
    refused: usize,
    len_check: bool,
    /// [pipe][kind] operation counts on the carrier
    ops: [[u64; 3]; 2],
    injected: u64,
    steps: u64,
    writer_blocked_until_reader: bool,
    info: Vec<String>,
    log: String,
}

// ---------------------------------------------------------------------------------------------------------
// helpers
// ---------------------------------------------------------------------------------------------------------

/// deterministic message content depending on (message index, offset)
///
/// For the unbounded codec the high bit of every payload byte is cleared: should a (mutated) receiver lose frame
/// synchronisation it would otherwise interpret payload bytes as an astronomically large length and — having no
/// maximum — abort the whole process on the failed allocation instead of letting the oracle report it.
fn payload(codec: Codec, i: usize, size: usize) -> Bytes {
    let mask = if codec == Codec::Varint(None) { 0x7fu8 } else { 0xffu8 };
    let mut v = Vec::with_capacity(size);
    for j in 0..size {
        v.push(((i * 131 + 17) ^ (j * 7 + (j >> 8) * 13 + (j >> 16) * 29)) as u8 & mask);
    }
    Bytes::from(v)
}

fn site(msg: &str) -> String {
    let loc = msg.split(": ").next().unwrap_or("unknown");
    let loc = if let Some(p) = loc.rfind("/repo/") {
        &loc[p + 6..]
    } else if let Some(p) = loc.find("/registry/src/") {
        let rest = &loc[p + 14..];
        rest.splitn(2, '/').nth(1).unwrap_or(rest)
    } else {
        loc
    };
    loc.replace('/', "_")
}

fn unhex(s: &str) -> Vec<u8> {
    (0..s.len() / 2).map(|i| u8::from_str_radix(&s[2 * i..2 * i + 2], 16).unwrap_or(0)).collect()
}

const STEP_CAP: u64 = 5_000_000;

#[derive(PartialEq, Eq, Debug, Clone, Copy)]
enum RunEnd {
    Stopped,
    Stalled,
    Cap,
    Panic,
}

struct Exec {
    d: driver::Driver,
    panics: Vec<(String, String)>,
    /// round-robin direction over the woken tasks (false: ascending task index, true: descending)
    rev: bool,
}

impl Exec {
    fn new() -> Self {
        Exec { d: driver::Driver::new(), panics: Vec::new(), rev: false }
    }

    /// round-robin over enabled tasks; every poll is guarded
    fn run(&mut self, stop: &dyn Fn(&driver::Driver) -> bool) -> RunEnd {
        loop {
            if stop(&self.d) {
                return RunEnd::Stopped;
            }
            let mut en = self.d.enabled();
            if en.is_empty() {
                return RunEnd::Stalled;
            }
            if self.rev {
                en.reverse();
            }
            for i in en {
                let r = catch_unwind(AssertUnwindSafe(|| self.d.step(i)));
                if r.is_err() {
                    let msg = take_panic();
                    self.panics.push((self.d.tasks[i].name.clone(), msg));
                    let _ = catch_unwind(AssertUnwindSafe(|| self.d.cancel(i)));
                    return RunEnd::Panic;
                }
                if self.d.steps >= STEP_CAP {
                    return RunEnd::Cap;
                }
                if stop(&self.d) {
                    return RunEnd::Stopped;
                }
            }
        }
    }

    fn teardown(&mut self) {
        for i in 0..self.d.tasks.len() {
            let _ = catch_unwind(AssertUnwindSafe(|| self.d.cancel(i)));
        }
    }
}

#[derive(Clone, Debug)]
enum Recv {
    Msg(Vec<u8>),
    Err(String),
    End,
}

struct SendRec {
    size: usize,
    ok: bool,
    err: String,
}

/// (after message index, which call, bytes still queued in the sink, backpressure counter)
type Completion = (usize, &'static str, usize, usize);

#[derive(Default)]
struct Shared {
    sends: Vec<SendRec>,
    completions: Vec<Completion>,
    flush_err: Option<String>,
    open_err: Option<String>,
    writer_finished: bool,
    keep_writer: Option<(Substream, yamux::Control)>,
    keep_writer_ctrl: Option<yamux::Control>,
    recv: Vec<Recv>,
    /// set right after the reader saw its first `Some(Err)` (a later panic is a re-poll panic)
    reader_saw_err: bool,
    reader_finished: bool,
    /// the reader side has seen the inbound yamux stream (yamux announces a stream with its first frame)
    reader_has_stream: bool,
    keep_reader: Option<Substream>,
    keep_reader_ctrl: Option<yamux::Control>,
    close_done: bool,
    raw_write_err: Option<String>,
}

type BoxFut = Pin<Box<dyn Future<Output = ()> + Send>>;

struct World {
    ex: Exec,
    sh: Arc<Mutex<Shared>>,
    h: [pipe::PipeHandle; 2],
    ctrl_a: Option<yamux::Control>,
    inbound: Option<mpsc::UnboundedReceiver<yamux::Stream>>,
}

fn world(carrier: &Carrier) -> World {
    let (a, b, h_ab, h_ba) = pipe::duplex(carrier.policy(0), carrier.policy(1));
    let conn_a = yamux::Connection::new(a, yamux::Config::default(), yamux::Mode::Client);
    let conn_b = yamux::Connection::new(b, yamux::Config::default(), yamux::Mode::Server);
    let (ctrl_a, mut cc_a) = yamux::Control::new(conn_a);
    let (ctrl_b, mut cc_b) = yamux::Control::new(conn_b);
    let sh = Arc::new(Mutex::new(Shared::default()));
    sh.lock().keep_reader_ctrl = Some(ctrl_b);
    let (tx, rx) = mpsc::unbounded::<yamux::Stream>();
    let mut ex = Exec::new();
    ex.rev = carrier.rev_sched;
    // the connection tasks: independent of the protocol tasks, exactly as `TcpConnection::start` polls
    // `ControlledConnection::next()` in its own task
    ex.d.spawn("conn-writer-side", async move {
        while let Some(r) = cc_a.next().await {
            if r.is_err() {
                break;
            }
        }
    });
    ex.d.spawn("conn-reader-side", async move {
        while let Some(r) = cc_b.next().await {
            match r {
                Ok(s) => {
                    let _ = tx.unbounded_send(s);
                }
                Err(_) => break,
            }
        }
    });
    World { ex, sh, h: [h_ab, h_ba], ctrl_a: Some(ctrl_a), inbound: Some(rx) }
}

fn reader_task(
    sh: Arc<Mutex<Shared>>,
    mut inbound: mpsc::UnboundedReceiver<yamux::Stream>,
    codec: ProtocolCodec,
    pause_after_one: Option<oneshot::Receiver<()>>,
    max_items: usize,
    repolls_after_err: usize,
) -> BoxFut {
    Box::pin(async move {
        let Some(stream) = inbound.next().await else {
            let mut g = sh.lock();
            g.recv.push(Recv::End);
            g.reader_finished = true;
            return;
        };
        sh.lock().reader_has_stream = true;
        let mut sub = tcp_substream(crate::util::peer(1), SubstreamId::from(1usize), stream, codec);
        let mut gate = pause_after_one;
        let mut n = 0usize;
        let mut errs = 0usize;
        loop {
            if n == 1 {
                if let Some(g) = gate.take() {
                    let _ = g.await;
                }
            }
            match sub.next().await {
                Some(Ok(m)) => {
                    sh.lock().recv.push(Recv::Msg(m.to_vec()));
                    n += 1;
                    if n >= max_items {
                        break;
                    }
                }
                Some(Err(e)) => {
                    {
                        let mut g = sh.lock();
                        g.recv.push(Recv::Err(format!("{e:?}")));
                        g.reader_saw_err = true;
                    }
                    errs += 1;
                    if errs > repolls_after_err {
                        break;
                    }
                }
                None => {
                    sh.lock().recv.push(Recv::End);
                    break;
                }
            }
        }
        let mut g = sh.lock();
        g.keep_reader = Some(sub);
        g.reader_finished = true;
    })
}

fn closer_task(sh: Arc<Mutex<Shared>>) -> BoxFut {
    Box::pin(async move {
        let kept = sh.lock().keep_writer.take();
        if let Some((sub, ctrl)) = kept {
            sub.close().await;
            // keep the control alive: dropping the last control closes the whole connection
            sh.lock().keep_writer_ctrl = Some(ctrl);
        }
        sh.lock().close_done = true;
    })
}

fn collect_carrier(w: &World, out: &mut Outcome) {
    for p in 0..2 {
        let s = w.h[p].stats();
        out.ops[p] = [s.read_ops, s.write_ops, s.flush_ops];
        out.injected += s.injected_pending;
    }
    out.steps = w.ex.d.steps;
}

fn panic_violations(w: &World, desc: &str, out: &mut Outcome) -> bool {
    let reader_prefix = "receiver";
    if w.ex.panics.is_empty() {
        return false;
    }
    for (task, msg) in &w.ex.panics {
        let saw_err = w.sh.lock().reader_saw_err;
        let class = match task.as_str() {
            "reader" if saw_err => format!("{reader_prefix}/panic-after-error"),
            "reader" => format!("{reader_prefix}/panic"),
            "writer" | "closer" => "sender/panic".to_string(),
            _ => "transport/panic".to_string(),
        };
        out.viols.push((format!("{class}/{}", site(msg)), format!("{desc}: task `{task}` panicked: {msg}")));
    }
    true
}

// ---------------------------------------------------------------------------------------------------------
// honest run
// ---------------------------------------------------------------------------------------------------------

fn writer_task(sh: Arc<Mutex<Shared>>, mut ctrl: yamux::Control, codec: Codec, sizes: Vec<usize>, api: Api) -> BoxFut {
    Box::pin(async move {
        let stream = match ctrl.open_stream().await {
            Ok(s) => s,
            Err(e) => {
                let mut g = sh.lock();
                g.open_err = Some(format!("{e:?}"));
                g.writer_finished = true;
                return;
            }
        };
        let mut sub = tcp_substream(crate::util::peer(2), SubstreamId::from(0usize), stream, codec.real());
        for (i, &size) in sizes.iter().enumerate() {
            let msg = payload(codec, i, size);
            let (r, call) = match api {
                Api::SinkSend => (sub.send(msg).await, "send"),
                Api::FeedFlush => (sub.feed(msg).await, "feed"),
                Api::SendFramed => (sub.send_framed(msg).await, "send_framed"),
            };
            let mut g = sh.lock();
            match r {
                Ok(()) => {
                    g.sends.push(SendRec { size, ok: true, err: String::new() });
                    if api != Api::FeedFlush {
                        g.completions.push((
                            i,
                            call,
                            sub.verif_sink_queued_bytes(),
                            sub.verif_sink_backpressure_counter(),
                        ));
                    }
                }
                Err(e) => g.sends.push(SendRec { size, ok: false, err: format!("{e:?}") }),
            }
        }
        if api == Api::FeedFlush {
            let r = sub.flush().await;
            let mut g = sh.lock();
            match r {
                Ok(()) => g.completions.push((
                    sizes.len().saturating_sub(1),
                    "flush",
                    sub.verif_sink_queued_bytes(),
                    sub.verif_sink_backpressure_counter(),
                )),
                Err(e) => g.flush_err = Some(format!("{e:?}")),
            }
        }
        let mut g = sh.lock();
        g.keep_writer = Some((sub, ctrl));
        g.writer_finished = true;
    })
}

fn run_honest(codec: Codec, sizes: &[usize], api: Api, reader: ReaderPat, carrier: &Carrier) -> Outcome {
    let rt = driver::runtime(4);
    rt.block_on(async { honest_inner(codec, sizes, api, reader, carrier) })
}

fn honest_inner(codec: Codec, sizes: &[usize], api: Api, reader: ReaderPat, carrier: &Carrier) -> Outcome {
    let mut out = Outcome::default();
    let mut w = world(carrier);
    let sh = w.sh.clone();
    let (gate_tx, gate_rx) = oneshot::channel::<()>();
    let mut gate_tx = Some(gate_tx);
    let widx = w.ex.d.spawn("writer", writer_task(sh.clone(), w.ctrl_a.take().unwrap(), codec, sizes.to_vec(), api));
    let mut reader_fut = Some(reader_task(
        sh.clone(),
        w.inbound.take().unwrap(),
        codec.real(),
        if reader == ReaderPat::PauseAfterOne { Some(gate_rx) } else { None },
        sizes.len() + 2,
        0,
    ));
    let mut ridx: Option<usize> = None;
    if reader != ReaderPat::AfterCompletion {
        ridx = Some(w.ex.d.spawn("reader", reader_fut.take().unwrap()));
    }
    let desc = format!(
        "codec={codec:?} sizes={sizes:?} api={} reader={} carrier={carrier:?}",
        api.name(),
        reader.name()
    );

    // ---- phase A: until the writer has reported completion of everything
    let writer_done = |d: &driver::Driver| d.is_done(widx);
    let mut end = w.ex.run(&writer_done);
    if end == RunEnd::Stalled {
        // The writer blocks (flow control) — legitimate if nobody reads. Let the reader run / resume.
        out.writer_blocked_until_reader = true;
        if let Some(f) = reader_fut.take() {
            ridx = Some(w.ex.d.spawn("reader", f));
        }
        if let Some(g) = gate_tx.take() {
            let _ = g.send(());
        }
        end = w.ex.run(&writer_done);
    }
    let finish = |mut out: Outcome, w: &mut World, log: String| {
        collect_carrier(w, &mut out);
        out.log = log;
        w.ex.teardown();
        out
    };
    if end == RunEnd::Panic {
        panic_violations(&w, &desc, &mut out);
        return finish(out, &mut w, format!("{desc}\npanic in phase A"));
    }
    if end != RunEnd::Stopped {
        let g = sh.lock();
        out.viols.push((
            format!("hang/writer-blocked/{}", reader.name()),
            format!(
                "{desc}: writer never completed ({end:?}); sends so far={} received so far={}",
                g.sends.len(),
                g.recv.len()
            ),
        ));
        drop(g);
        return finish(out, &mut w, format!("{desc}\nwriter blocked"));
    }

    // ---- phase B: writer task is gone (its substream is parked, never polled); only the connection tasks and
    // the reader run
    if let Some(f) = reader_fut.take() {
        ridx = Some(w.ex.d.spawn("reader", f));
    }
    let never = |_: &driver::Driver| false;
    let mut end = w.ex.run(&never);
    if end == RunEnd::Stalled {
        if let Some(g) = gate_tx.take() {
            let _ = g.send(());
            end = w.ex.run(&never);
        }
    }
    if end == RunEnd::Panic {
        panic_violations(&w, &desc, &mut out);
        return finish(out, &mut w, format!("{desc}\npanic in phase B"));
    }
    if end == RunEnd::Cap {
        out.viols.push((format!("hang/livelock/{}", reader.name()), format!("{desc}: step cap reached in phase B")));
        return finish(out, &mut w, format!("{desc}\nlivelock"));
    }

    let mut log = String::new();
    log.push_str(&desc);
    log.push('\n');
    let mut sender_fault = false;
    let mut expected: Vec<usize> = Vec::new();
    let mut queued_after_completion: Option<Completion> = None;
    {
        let g = sh.lock();
        if let Some(e) = &g.open_err {
            out.viols.push(("transport/open-failed".into(), format!("{desc}: open_stream failed: {e}")));
            sender_fault = true;
        }
        for (i, s) in g.sends.iter().enumerate() {
            log.push_str(&format!(
                "  send[{i}] size={} -> {}\n",
                s.size,
                if s.ok { "Ok".to_string() } else { format!("Err({})", s.err) }
            ));
            let valid = codec.valid(s.size);
            if s.ok {
                expected.push(i);
                out.accepted += 1;
            } else {
                out.refused += 1;
            }
            if valid && !s.ok {
                sender_fault = true;
                out.viols.push((
                    format!("sender/valid-refused/{}/{}", codec.kind(), api.name()),
                    format!("{desc}: message #{i} of {} bytes is within the limit but was refused: {}", s.size, s.err),
                ));
            }
            if !valid && s.ok {
                sender_fault = true;
                out.viols.push((
                    format!("sender/oversize-accepted/{}/{}", codec.kind(), api.name()),
                    format!("{desc}: message #{i} of {} bytes violates the codec limit but was accepted", s.size),
                ));
            }
        }
        if let Some(e) = &g.flush_err {
            sender_fault = true;
            out.viols.push((
                format!("sender/flush-failed/{}", codec.kind()),
                format!("{desc}: flush after feeding returned Err({e})"),
            ));
        }
        for c in &g.completions {
            log.push_str(&format!(
                "  `{}` after msg[{}] returned Ok: sink-queued bytes={} backpressure counter={}\n",
                c.1, c.0, c.2, c.3
            ));
            if c.2 > 0 && queued_after_completion.is_none() {
                queued_after_completion = Some(*c);
            }
            if c.2 == 0 && c.3 != 0 {
                out.info.push("backpressure-counter-drift".into());
            }
        }
    }
    if let Some(c) = queued_after_completion {
        out.viols.push((
            format!("completion/bytes-still-queued/{}", api.name()),
            format!(
                "{desc}: `{}` for message #{} returned Ok while {} byte(s) were still queued inside the substream \
                 (not handed to the transport)",
                c.1, c.0, c.2
            ),
        ));
    }

    // what did the reader get without any further action by the sender?
    let check_messages = |recv: &[Recv], expected: &[usize], phase: &str, out: &mut Outcome| -> bool {
        let mut k = 0usize;
        for r in recv {
            if let Recv::Msg(m) = r {
                if k >= expected.len() {
                    out.viols.push((
                        format!("roundtrip/sequence-differs/{}/{}", codec.kind(), api.name()),
                        format!(
                            "{desc}: [{phase}] reader received an extra message #{k} of {} bytes; only {} were accepted",
                            m.len(),
                            expected.len()
                        ),
                    ));
                    return false;
                }
                let want = payload(codec, expected[k], sizes[expected[k]]);
                if m.as_slice() != want.as_ref() {
                    let first = m.iter().zip(want.iter()).position(|(a, b)| a != b);
                    out.viols.push((
                        format!("roundtrip/sequence-differs/{}/{}", codec.kind(), api.name()),
                        format!(
                            "{desc}: [{phase}] received message #{k} differs from accepted message #{} \
                             (got {} bytes, sent {} bytes, first differing offset {:?})",
                            expected[k],
                            m.len(),
                            want.len(),
                            first
                        ),
                    ));
                    return false;
                }
                k += 1;
            }
        }
        true
    };

    let (recv_b, reader_finished_b) = {
        let g = sh.lock();
        (g.recv.clone(), g.reader_finished)
    };
    let msgs_b = recv_b.iter().filter(|r| matches!(r, Recv::Msg(_))).count();
    out.delivered = msgs_b;
    out.delivered_bytes =
        recv_b.iter().map(|r| if let Recv::Msg(m) = r { m.len() as u64 } else { 0 }).sum();
    for r in &recv_b {
        match r {
            Recv::Msg(m) => log.push_str(&format!("  recv Msg({} bytes)\n", m.len())),
            Recv::Err(e) => log.push_str(&format!("  recv Err({e})\n")),
            Recv::End => log.push_str("  recv None\n"),
        }
    }
    log.push_str(&format!("  -- quiescent with writer idle: {msgs_b}/{} messages delivered\n", expected.len()));

    if !sender_fault {
        let ok = check_messages(&recv_b, &expected, "writer idle", &mut out);
        if ok {
            if let Some(Recv::Err(e)) = recv_b.iter().find(|r| matches!(r, Recv::Err(_))) {
                out.viols.push((
                    format!("roundtrip/receiver-error/{}/{}", codec.kind(), api.name()),
                    format!("{desc}: reader got Err({e}) on an honest stream after {msgs_b} message(s)"),
                ));
            } else if msgs_b < expected.len() {
                if queued_after_completion.is_some() {
                    // same cause as the completion violation above; make the consequence visible there
                    if let Some(v) = out.viols.iter_mut().find(|v| v.0.starts_with("completion/")) {
                        v.1.push_str(&format!(
                            "; consequence: with the sender idle the reader obtained only {msgs_b} of {} message(s) \
                             and the system is quiescent",
                            expected.len()
                        ));
                    }
                } else if reader_finished_b {
                    out.viols.push((
                        format!("roundtrip/sequence-differs/{}/{}", codec.kind(), api.name()),
                        format!(
                            "{desc}: reader saw end-of-stream after {msgs_b} of {} accepted message(s)",
                            expected.len()
                        ),
                    ));
                } else {
                    out.viols.push((
                        format!("hang/reader-starved/{}", reader.name()),
                        format!(
                            "{desc}: all sends reported complete, sender idle, system quiescent, but the reader \
                             obtained only {msgs_b} of {} message(s)",
                            expected.len()
                        ),
                    ));
                }
            }
        }
    }

    // ---- phase C: the sender closes; the reader must see a clean end and nothing extra
    w.ex.d.spawn("closer", closer_task(sh.clone()));
    if ridx.is_none() {
        // unreachable by construction, keep the reader alive anyway
        out.info.push("reader-never-started".into());
    }
    let end = w.ex.run(&never);
    if end == RunEnd::Panic {
        panic_violations(&w, &desc, &mut out);
        return finish(out, &mut w, log);
    }
    let (recv_c, reader_finished_c, reader_has_stream) = {
        let g = sh.lock();
        (g.recv.clone(), g.reader_finished, g.reader_has_stream)
    };
    for r in recv_c.iter().skip(recv_b.len()) {
        match r {
            Recv::Msg(m) => log.push_str(&format!("  after close: recv Msg({} bytes)\n", m.len())),
            Recv::Err(e) => log.push_str(&format!("  after close: recv Err({e})\n")),
            Recv::End => log.push_str("  after close: recv None\n"),
        }
    }
    if !sender_fault && out.viols.is_empty() {
        check_messages(&recv_c, &expected, "after close", &mut out);
        if !reader_has_stream && expected.is_empty() {
            // Nothing was accepted, so nothing at all was put on the wire: yamux never announced the stream to the
            // peer (in litep2p the multistream-select negotiation always precedes). Nothing to observe.
            out.info.push("nothing-on-the-wire".into());
            log.push_str("  nothing was accepted and nothing reached the wire (peer never saw the stream)\n");
        } else if out.viols.is_empty() && !reader_finished_c {
            out.viols.push((
                format!("hang/reader-after-close/{}", reader.name()),
                format!("{desc}: sender closed the substream but the reader never observed end-of-stream ({end:?})"),
            ));
        }
    }
    finish(out, &mut w, log)
}

// ---------------------------------------------------------------------------------------------------------
// raw (malformed inbound) run
// ---------------------------------------------------------------------------------------------------------

#[derive(Debug, Clone, PartialEq, Eq)]
enum Terminal {
    /// all bytes consumed at a frame boundary
    Clean,
    /// bytes end inside a length prefix
    TruncPrefix,
    /// bytes end inside a payload (`missing` bytes short)
    TruncPayload { missing: u128 },
    /// length > max
    Oversize { claimed: u128 },
    /// no terminator within 10 bytes / value does not fit 64 bits / (strict mode) non-minimal encoding
    Malformed,
}

/// Reference framing parser. `lenient`: accept non-minimal encodings (the statement is silent on those).
///
/// `wrap`: NOT an accepted behaviour, only used to *classify* a mismatch: a 10-byte prefix whose value does not fit
/// 64 bits is decoded by silently dropping the excess bits.
fn ref_parse(raw: &[u8], max: Option<usize>, lenient: bool, wrap: bool) -> (Vec<Vec<u8>>, Terminal, bool) {
    let mut frames = Vec::new();
    let mut pos = 0usize;
    let mut reached_len_check = false;
    loop {
        if pos == raw.len() {
            return (frames, Terminal::Clean, reached_len_check);
        }
        let mut val: u128 = 0;
        #[allow(unused_assignments)]
        let mut n = 0usize;
        let mut done = false;
        while pos + n < raw.len() && n < 10 {
            let b = raw[pos + n];
            val |= ((b & 0x7f) as u128) << (7 * n);
            n += 1;
            if b & 0x80 == 0 {
                done = true;
                break;
            }
        }
        if !done {
            if n >= 10 {
                return (frames, Terminal::Malformed, true);
            }
            return (frames, Terminal::TruncPrefix, reached_len_check);
        }
        reached_len_check = true;
        if val > u64::MAX as u128 {
            if !wrap {
                return (frames, Terminal::Malformed, true);
            }
            val &= u64::MAX as u128;
        }
        if n > 1 && raw[pos + n - 1] == 0 && !lenient {
            return (frames, Terminal::Malformed, true);
        }
        if let Some(m) = max {
            if val > m as u128 {
                return (frames, Terminal::Oversize { claimed: val }, true);
            }
        }
        pos += n;
        let remaining = (raw.len() - pos) as u128;
        if remaining < val {
            return (frames, Terminal::TruncPayload { missing: val - remaining }, true);
        }
        let len = val as usize;
        frames.push(raw[pos..pos + len].to_vec());
        pos += len;
    }
}

fn raw_writer_task(sh: Arc<Mutex<Shared>>, mut ctrl: yamux::Control, raw: Vec<u8>, eof: bool) -> BoxFut {
    Box::pin(async move {
        use tokio::io::AsyncWriteExt;
        let stream = match ctrl.open_stream().await {
            Ok(s) => s,
            Err(e) => {
                let mut g = sh.lock();
                g.open_err = Some(format!("{e:?}"));
                g.writer_finished = true;
                return;
            }
        };
        // raw bytes through the tokio AsyncWrite impl of a real Substream without framing
        let mut sub = tcp_substream(crate::util::peer(2), SubstreamId::from(0usize), stream, ProtocolCodec::Unspecified);
        let mut err = None;
        if let Err(e) = AsyncWriteExt::write_all(&mut sub, &raw).await {
            err = Some(format!("write_all: {e:?}"));
        } else if let Err(e) = AsyncWriteExt::flush(&mut sub).await {
            err = Some(format!("flush: {e:?}"));
        } else if eof {
            if let Err(e) = AsyncWriteExt::shutdown(&mut sub).await {
                err = Some(format!("shutdown: {e:?}"));
            }
        }
        let mut g = sh.lock();
        g.raw_write_err = err;
        g.keep_writer = Some((sub, ctrl));
        g.writer_finished = true;
    })
}

fn run_raw(max: Option<usize>, raw: &[u8], eof: bool, carrier: &Carrier) -> Outcome {
    let rt = driver::runtime(4);
    rt.block_on(async { raw_inner(max, raw, eof, carrier) })
}

fn raw_inner(max: Option<usize>, raw: &[u8], eof: bool, carrier: &Carrier) -> Outcome {
    let mut out = Outcome::default();
    let desc = format!("receiver codec=UnsignedVarint({max:?}) raw={} eof={eof} carrier={carrier:?}", crate::util::hex(&raw[..raw.len().min(24)]))
        + &if raw.len() > 24 { format!("..({} bytes)", raw.len()) } else { String::new() };
    let (frames_strict, term_strict, lc1) = ref_parse(raw, max, false, false);
    let (frames_lenient, term_lenient, lc2) = ref_parse(raw, max, true, false);
    let wrapped: Vec<(Vec<Vec<u8>>, Terminal, bool)> =
        vec![ref_parse(raw, max, false, true), ref_parse(raw, max, true, true)];
    out.len_check = lc1 || lc2;
    // unbounded codec with an unsatisfiable claimed length: outside the statement ("any maximum"); observed only
    let informational = max.is_none()
        && [&term_strict, &term_lenient, &wrapped[0].1, &wrapped[1].1]
            .iter()
            .any(|t| matches!(t, Terminal::TruncPayload { missing } if *missing > (1u128 << 40)));

    let mut w = world(carrier);
    let sh = w.sh.clone();
    w.ex.d.spawn("writer", raw_writer_task(sh.clone(), w.ctrl_a.take().unwrap(), raw.to_vec(), eof));
    w.ex.d.spawn(
        "reader",
        reader_task(
            sh.clone(),
            w.inbound.take().unwrap(),
            ProtocolCodec::UnsignedVarint(max),
            None,
            frames_lenient.len() + 3,
            2,
        ),
    );
    let never = |_: &driver::Driver| false;
    let finish = |mut out: Outcome, w: &mut World, log: String| {
        collect_carrier(w, &mut out);
        out.log = log;
        w.ex.teardown();
        out
    };
    let end = w.ex.run(&never);
    let mut log = format!("{desc}\n  reference(strict): {} frame(s) then {term_strict:?}\n  reference(lenient): {} frame(s) then {term_lenient:?}\n", frames_strict.len(), frames_lenient.len());
    if end == RunEnd::Panic {
        if informational {
            out.info.push(format!("unbounded-codec-huge-claim-panic: {}", w.ex.panics[0].1));
            log.push_str("  (informational) panic with unbounded codec and unsatisfiable claimed length\n");
        } else {
            panic_violations(&w, &desc, &mut out);
        }
        return finish(out, &mut w, log);
    }
    if end == RunEnd::Cap {
        out.viols.push(("hang/livelock/raw".into(), format!("{desc}: step cap reached")));
        return finish(out, &mut w, log);
    }
    let recv_open = sh.lock().recv.clone();
    // close the sender half if it is still open, the reader must terminate
    if !eof {
        w.ex.d.spawn("closer", closer_task(sh.clone()));
        let end = w.ex.run(&never);
        if end == RunEnd::Panic {
            if informational {
                out.info.push(format!("unbounded-codec-huge-claim-panic: {}", w.ex.panics[0].1));
            } else {
                panic_violations(&w, &desc, &mut out);
            }
            return finish(out, &mut w, log);
        }
    }
    let (recv, reader_finished, werr) = {
        let g = sh.lock();
        (g.recv.clone(), g.reader_finished, g.raw_write_err.clone().or(g.open_err.clone()))
    };
    for (i, r) in recv.iter().enumerate() {
        let tag = if i >= recv_open.len() { "after close: " } else { "" };
        match r {
            Recv::Msg(m) => log.push_str(&format!("  {tag}recv Msg({} bytes)\n", m.len())),
            Recv::Err(e) => log.push_str(&format!("  {tag}recv Err({e})\n")),
            Recv::End => log.push_str(&format!("  {tag}recv None\n")),
        }
    }
    if let Some(e) = werr {
        // the raw writer could not deliver its bytes (not the subject of this sub-check)
        out.info.push(format!("raw-writer-error: {e}"));
        return finish(out, &mut w, log);
    }
    let all_msgs: Vec<&Vec<u8>> = recv.iter().filter_map(|r| if let Recv::Msg(m) = r { Some(m) } else { None }).collect();
    // What the receiver hands out after it has reported the framing error is not constrained by the statement (the
    // stream is desynchronised; litep2p restarts at the next byte): only the messages before the first error are
    // compared with the reference. The no-panic and max-size oracles still cover everything.
    let msgs: Vec<&Vec<u8>> = recv
        .iter()
        .take_while(|r| !matches!(r, Recv::Err(_)))
        .filter_map(|r| if let Recv::Msg(m) = r { Some(m) } else { None })
        .collect();
    out.delivered = all_msgs.len();
    out.delivered_bytes = all_msgs.iter().map(|m| m.len() as u64).sum();

    // never a message longer than max
    if let Some(m) = max {
        if let Some(big) = all_msgs.iter().find(|x| x.len() > m) {
            out.viols.push((
                "receiver/oversize-delivered".into(),
                format!("{desc}: receiver delivered a message of {} bytes, maximum is {m}", big.len()),
            ));
        }
    }
    // messages must appear before any Err / None
    let first_term = recv.iter().position(|r| !matches!(r, Recv::Msg(_)));
    if let Some(p) = first_term {
        if recv.iter().skip(p).any(|r| matches!(r, Recv::Msg(_))) {
            // a message after an error: the statement does not forbid resynchronisation, but the content must
            // still be a frame of the stream — covered by the frame comparison below (it will not match)
        }
    }
    let matches_ref = |frames: &Vec<Vec<u8>>, term: &Terminal| -> Result<(), String> {
        if msgs.len() != frames.len() || msgs.iter().zip(frames.iter()).any(|(a, b)| a.as_slice() != b.as_slice()) {
            return Err(format!(
                "delivered {} message(s) {:?}, reference has {} complete frame(s) {:?}",
                msgs.len(),
                msgs.iter().map(|m| m.len()).collect::<Vec<_>>(),
                frames.len(),
                frames.iter().map(|m| m.len()).collect::<Vec<_>>()
            ));
        }
        if !reader_finished {
            return Err("reader never terminated although the sender half is closed".into());
        }
        let term_items_open: Vec<&Recv> = recv_open.iter().filter(|r| !matches!(r, Recv::Msg(_))).collect();
        match term {
            Terminal::Oversize { .. } | Terminal::Malformed => {
                // must be rejected while the stream is still open, without waiting for the payload
                if !eof && term_items_open.is_empty() {
                    return Err(format!(
                        "{term:?}: the receiver did not reject the length while the stream was open (it waited for payload)"
                    ));
                }
                Ok(())
            }
            Terminal::Clean | Terminal::TruncPrefix | Terminal::TruncPayload { .. } => {
                if !eof && !term_items_open.is_empty() {
                    return Err(format!(
                        "{term:?}: the receiver terminated ({:?}) while the stream was open and the data so far is a valid prefix",
                        term_items_open[0]
                    ));
                }
                Ok(())
            }
        }
    };
    let r1 = matches_ref(&frames_strict, &term_strict);
    let r2 = matches_ref(&frames_lenient, &term_lenient);
    if let (Err(e1), Err(e2)) = (&r1, &r2) {
        if informational {
            out.info.push(format!("unbounded-codec-huge-claim: {e1}"));
        } else {
            let wrap_match = wrapped.iter().any(|(f, t, _)| matches_ref(f, t).is_ok());
            let class = if wrap_match {
                "receiver/overflowing-length-accepted"
            } else if e1.contains("never terminated") {
                "hang/raw-reader"
            } else if e1.contains("waited for payload") {
                "receiver/length-not-rejected-promptly"
            } else if e1.contains("while the stream was open and") {
                "receiver/valid-prefix-rejected"
            } else {
                "receiver/frames-differ"
            };
            out.viols.push((
                class.into(),
                format!("{desc}: strict reference: {e1}; lenient reference: {e2}; observed {:?}", recv.iter().map(|r| match r { Recv::Msg(m) => format!("Msg({})", m.len()), Recv::Err(_) => "Err".into(), Recv::End => "None".into() }).collect::<Vec<_>>()),
            ));
        }
    }
    finish(out, &mut w, log)
}

// ---------------------------------------------------------------------------------------------------------
// dispatch / replay
// ---------------------------------------------------------------------------------------------------------

fn run_case(c: &Case) -> Outcome {
    match c {
        Case::Honest { codec, sizes, api, reader, carrier } => run_honest(*codec, sizes, *api, *reader, carrier),
        Case::Raw { max, raw, eof, carrier } => run_raw(*max, &unhex(raw), *eof, carrier),
    }
}

/// The malformed / oversized inbound length prefixes of group G4 on the default carrier, as (case, violations) —
/// used by C19 for its "no decoder panics on a peer-chosen length prefix" clause.
pub fn raw_prefix_panics(combo_len: usize) -> (u64, Vec<(String, String, Value)>) {
    let carriers = vec![Carrier::default()];
    let mut cases = Vec::new();
    for m in VARINT_MAXIMA {
        cases.extend(raw_cases(Some(m), &carriers, combo_len));
    }
    cases.extend(raw_cases(None, &carriers, combo_len));
    let mut out = Vec::new();
    let n = cases.len() as u64;
    for c in &cases {
        for (sig, what) in run_case(c).viols {
            if sig.contains("panic") {
                out.push((sig, what, serde_json::to_value(c).unwrap_or_default()));
            }
        }
    }
    (n, out)
}

pub fn replay(case: &Value) -> Result<String, String> {
    let c: Case = serde_json::from_value(case.clone()).map_err(|e| format!("bad case: {e}"))?;
    let o = run_case(&c);
    let mut log = o.log.clone();
    for i in &o.info {
        log.push_str(&format!("\n  info: {i}"));
    }
    if o.viols.is_empty() {
        Ok(log)
    } else {
        for (s, w) in &o.viols {
            log.push_str(&format!("\n  VIOLATION [{s}]: {w}"));
        }
        Err(log)
    }
}

fn run_all(cases: &[Case]) -> Vec<Outcome> {
    let threads = std::env::var("VERIF_C04_THREADS")
        .ok()
        .and_then(|s| s.parse().ok())
        .unwrap_or_else(|| std::thread::available_parallelism().map(|n| n.get()).unwrap_or(4).min(16));
    let next = AtomicUsize::new(0);
    let slots: Vec<Mutex<Option<Outcome>>> = (0..cases.len()).map(|_| Mutex::new(None)).collect();
    std::thread::scope(|s| {
        for _ in 0..threads {
            s.spawn(|| loop {
                let i = next.fetch_add(1, Ordering::SeqCst);
                if i >= cases.len() {
                    break;
                }
                let o = match catch_unwind(AssertUnwindSafe(|| run_case(&cases[i]))) {
                    Ok(o) => o,
                    Err(_) => {
                        let msg = take_panic();
                        let mut o = Outcome::default();
                        o.viols.push((
                            format!("harness/unguarded-panic/{}", site(&msg)),
                            format!("panic outside a guarded step: {msg}"),
                        ));
                        o
                    }
                };
                *slots[i].lock() = Some(o);
            });
        }
    });
    slots.into_iter().map(|m| m.into_inner().expect("every case evaluated")).collect()
}

// ---------------------------------------------------------------------------------------------------------
// enumeration
// ---------------------------------------------------------------------------------------------------------

const IDENTITY_SIZES: [usize; 6] = [1, 10, 1023, 1024, 1025, 4096];
const VARINT_MAXIMA: [usize; 7] = [0, 1, 127, 128, 300, 16384, 70000];
const VARINT_SIZES: [usize; 10] = [0, 1, 127, 128, 16383, 16384, 65535, 65536, 70000, 300000];

fn codecs() -> Vec<Codec> {
    let mut v: Vec<Codec> = IDENTITY_SIZES.iter().map(|n| Codec::Identity(*n)).collect();
    v.extend(VARINT_MAXIMA.iter().map(|m| Codec::Varint(Some(*m))));
    v.push(Codec::Varint(None));
    v
}

fn dedup(mut v: Vec<usize>) -> Vec<usize> {
    let mut seen = HashSet::new();
    v.retain(|x| seen.insert(*x));
    v
}

/// full singleton size set of a codec
fn full_sizes(c: Codec) -> Vec<usize> {
    match c {
        Codec::Identity(n) => dedup(vec![n, n.saturating_sub(1), n + 1, 0]),
        Codec::Varint(Some(m)) => {
            let mut v = vec![0, 1, m.saturating_sub(1), m, m + 1];
            v.extend(VARINT_SIZES);
            dedup(v)
        }
        Codec::Varint(None) => dedup(VARINT_SIZES.to_vec()),
    }
}

/// reduced size set used for sequences
fn reduced_sizes(c: Codec) -> Vec<usize> {
    match c {
        Codec::Identity(n) => dedup(vec![n, n + 1, 0]),
        Codec::Varint(Some(m)) => dedup(vec![0, 1.min(m), m, m + 1]),
        Codec::Varint(None) => vec![0, 1, 128, 65536],
    }
}

fn sequences(set: &[usize], max_len: usize) -> Vec<Vec<usize>> {
    let mut out: Vec<Vec<usize>> = Vec::new();
    let mut layer: Vec<Vec<usize>> = vec![vec![]];
    for _ in 0..max_len {
        let mut next = Vec::new();
        for p in &layer {
            for s in set {
                let mut q = p.clone();
                q.push(*s);
                next.push(q);
            }
        }
        out.extend(next.iter().cloned());
        layer = next;
    }
    out
}

fn total_valid(c: Codec, sizes: &[usize]) -> usize {
    sizes.iter().filter(|s| c.valid(**s)).sum()
}

/// a small valid size for deviation enumeration
fn small_valid(c: Codec) -> usize {
    match c {
        Codec::Identity(n) => n,
        Codec::Varint(Some(m)) => m.min(300),
        Codec::Varint(None) => 300,
    }
}

fn varint_bytes(v: u64) -> Vec<u8> {
    let mut b = unsigned_varint::encode::u64_buffer();
    unsigned_varint::encode::u64(v, &mut b).to_vec()
}

/// raw prefixes (length-prefix shapes) for the malformed-inbound sub-check
fn raw_prefixes(max: Option<usize>, combo_len: usize) -> Vec<Vec<u8>> {
    let pat = [0x00usize, 0x7f, 0x80, 0xff];
    // all combinations up to `combo_len` bytes
    let mut v: Vec<Vec<u8>> =
        sequences(&pat, combo_len).into_iter().map(|s| s.into_iter().map(|b| b as u8).collect()).collect();
    // selected 4..10 byte shapes
    for k in 3..=9usize {
        let mut s = vec![0x80u8; k];
        s.push(0x01); // 2^(7k)
        v.push(s);
        let mut s = vec![0xffu8; k];
        s.push(0x7f); // all ones, k+1 bytes (k = 9: overflows 64 bits)
        v.push(s);
        let mut s = vec![0x80u8; k];
        s.push(0x00); // non-minimal zero
        v.push(s);
    }
    v.push([vec![0xffu8; 9], vec![0x01]].concat()); // u64::MAX
    v.push([vec![0xffu8; 9], vec![0x02]].concat()); // overflow by one bit
    v.push([vec![0x80u8; 9], vec![0x02]].concat()); // 2^64: does not fit 64 bits (truncates to 0)
    v.push([vec![0x85u8], vec![0x80u8; 8], vec![0x02]].concat()); // 2^64 + 5 (truncates to 5)
    v.push([vec![0x85u8], vec![0x80u8; 8], vec![0x7e]].concat()); // bits 64..69 set (truncates to 5)
    v.push(vec![0x80u8; 10]); // no terminator within 10 bytes
    v.push(vec![0xffu8; 10]);
    v.push(vec![0x80u8; 11]);
    v.push([vec![0x80u8; 10], vec![0x01]].concat()); // 11-byte overlong
    for val in [1u64 << 32, 1u64 << 63, u64::MAX, (1u64 << 32) - 1] {
        v.push(varint_bytes(val));
    }
    if let Some(m) = max {
        for val in [m.saturating_sub(1), m, m + 1, 2 * m + 2] {
            v.push(varint_bytes(val as u64));
        }
    }
    let mut seen = HashSet::new();
    v.retain(|x| seen.insert(x.clone()));
    v
}

fn pattern_bytes(n: usize) -> Vec<u8> {
    (0..n).map(|j| (j * 5 + 3) as u8).collect()
}

fn raw_cases(max: Option<usize>, carriers: &[Carrier], combo_len: usize) -> Vec<Case> {
    let mut out = Vec::new();
    let mut seen = HashSet::new();
    for pre in raw_prefixes(max, combo_len) {
        // tails: nothing; one byte; two bytes; exactly the missing payload (+ a further valid-looking frame);
        // one byte short of the missing payload
        let mut tails: Vec<Vec<u8>> = vec![vec![], vec![0x01], vec![0x01, 0xaa]];
        let (_, term, _) = ref_parse(&pre, max, true, true);
        if let Terminal::TruncPayload { missing } = term {
            if max.is_none() && missing > (1 << 24) && missing < (1u128 << 63) {
                // unbounded codec would really allocate this much: not enumerated (see assumptions)
                continue;
            }
            if missing <= 70000 {
                let m = missing as usize;
                tails.push(pattern_bytes(m));
                tails.push([pattern_bytes(m), vec![0x01, 0x42]].concat());
                if m >= 2 {
                    tails.push(pattern_bytes(m - 1));
                }
            }
        }
        for t in tails {
            let raw = [pre.clone(), t].concat();
            if max.is_none() {
                // skip anything whose claimed length an unbounded codec would try to allocate for real
                let bad = [(true, true), (true, false), (false, true), (false, false)].iter().any(|(l, w)| {
                    matches!(ref_parse(&raw, None, *l, *w).1, Terminal::TruncPayload { missing } if missing > (1 << 24) && missing < (1u128 << 63))
                });
                if bad {
                    continue;
                }
            }
            for eof in [true, false] {
                for carrier in carriers {
                    let c = Case::Raw { max, raw: crate::util::hex(&raw), eof, carrier: carrier.clone() };
                    if seen.insert(c.clone()) {
                        out.push(c);
                    }
                }
            }
        }
    }
    out
}

struct Group {
    name: &'static str,
    cases: Vec<Case>,
}

fn honest(codec: Codec, sizes: &[usize], api: Api, reader: ReaderPat, carrier: &Carrier) -> Case {
    Case::Honest { codec, sizes: sizes.to_vec(), api, reader, carrier: carrier.clone() }
}

pub fn run(ctx: &mut Ctx) {
    let thorough = ctx.tier == crate::report::Tier::Thorough;
    let default_carrier = Carrier::default();
    let rev_carrier = Carrier { rev_sched: true, ..Default::default() };
    let mut groups: Vec<Group> = Vec::new();
    let g1_seq_len = ctx.tier.pick(3, 4);

    // G1: default carrier — singletons over the full size set, sequences (len <= 3) over the reduced set
    let mut g1 = Vec::new();
    let mut g1_seen = HashSet::new();
    for codec in codecs() {
        let mut seqs: Vec<Vec<usize>> = full_sizes(codec).into_iter().map(|s| vec![s]).collect();
        seqs.extend(sequences(&reduced_sizes(codec), g1_seq_len));
        for sizes in seqs {
            for api in APIS {
                for reader in READERS {
                    for carrier in [&default_carrier, &rev_carrier] {
                        let c = honest(codec, &sizes, api, reader, carrier);
                        if g1_seen.insert(c.clone()) {
                            g1.push(c);
                        }
                    }
                }
            }
        }
    }
    // simplest first
    g1.sort_by_key(|c| match c {
        Case::Honest { sizes, codec, .. } => (sizes.len(), total_valid(*codec, sizes)),
        _ => (0, 0),
    });
    groups.push(Group { name: "honest_default_carrier", cases: g1 });

    // G2: sequences whose accepted bytes exceed the 256 KiB yamux receive window (flow-control stalls)
    let mut g2 = Vec::new();
    let crossing: Vec<(Codec, Vec<usize>)> = vec![
        (Codec::Varint(None), vec![300000, 5]),
        (Codec::Varint(None), vec![131072, 131072, 1]),
        (Codec::Varint(None), vec![262144]),
        (Codec::Varint(None), vec![262141]),
        (Codec::Varint(None), vec![262142]),
        (Codec::Varint(None), vec![300000, 300000]),
        (Codec::Varint(Some(70000)), vec![70000, 70000, 70000, 70000]),
        (Codec::Varint(Some(16384)), vec![16384; 17]),
        // the window boundary falls inside a *small* message (or between its length prefix and its payload)
        (Codec::Varint(None), vec![262100, 500, 7]),
        (Codec::Varint(None), vec![262138, 3, 3]),
        (Codec::Varint(None), vec![262139, 3, 3]),
        (Codec::Varint(Some(1024)), vec![1000; 270]),
        (Codec::Identity(1024), vec![1024; 257]),
        (Codec::Identity(1023), vec![1023; 260]),
    ];
    for (codec, sizes) in &crossing {
        for api in APIS {
            for reader in READERS {
                g2.push(honest(*codec, sizes, api, reader, &default_carrier));
                g2.push(honest(*codec, sizes, api, reader, &rev_carrier));
            }
        }
    }
    groups.push(Group { name: "honest_window_crossing", cases: g2 });

    // G3: fragmenting / throttling carriers, small totals only
    let mut frag_carriers: Vec<Carrier> = vec![
        Carrier { read_chunk: Some(1), ..Default::default() },
        Carrier { read_chunk: Some(3), ..Default::default() },
        Carrier { write_accept: Some(1), ..Default::default() },
        Carrier { write_accept: Some(7), ..Default::default() },
        Carrier { window: Some(10), ..Default::default() },
        Carrier { read_chunk: Some(1), write_accept: Some(1), window: Some(10), ..Default::default() },
    ];
    if thorough {
        frag_carriers.extend([
            Carrier { read_chunk: Some(2), ..Default::default() },
            Carrier { read_chunk: Some(13), ..Default::default() },
            Carrier { write_accept: Some(3), ..Default::default() },
            Carrier { window: Some(1), ..Default::default() },
            Carrier { window: Some(100), ..Default::default() },
            Carrier { read_chunk: Some(3), write_accept: Some(7), ..Default::default() },
        ]);
    }
    let with_rev: Vec<Carrier> = frag_carriers.iter().map(|c| Carrier { rev_sched: true, ..c.clone() }).collect();
    frag_carriers.extend(with_rev);
    let frag_total_cap = 4200usize;
    let frag_seq_len = 3;
    let mut g3 = Vec::new();
    let mut g3_seen = HashSet::new();
    for codec in codecs() {
        let mut seqs: Vec<Vec<usize>> = full_sizes(codec).into_iter().map(|s| vec![s]).collect();
        seqs.extend(sequences(&reduced_sizes(codec), frag_seq_len));
        for sizes in seqs {
            if total_valid(codec, &sizes) > frag_total_cap {
                continue;
            }
            for carrier in &frag_carriers {
                for api in APIS {
                    for reader in READERS {
                        let c = honest(codec, &sizes, api, reader, carrier);
                        if g3_seen.insert(c.clone()) {
                            g3.push(c);
                        }
                    }
                }
            }
        }
    }
    g3.sort_by_key(|c| match c {
        Case::Honest { sizes, codec, .. } => (sizes.len(), total_valid(*codec, sizes)),
        _ => (0, 0),
    });
    groups.push(Group { name: "honest_fragmented_carrier", cases: g3 });

    // G4: malformed / oversized inbound length prefixes
    let mut g4 = Vec::new();
    let mut raw_carriers: Vec<Carrier> =
        vec![default_carrier.clone(), Carrier { read_chunk: Some(1), ..Default::default() }];
    if thorough {
        raw_carriers.extend([
            rev_carrier.clone(),
            Carrier { read_chunk: Some(3), ..Default::default() },
            Carrier { window: Some(10), ..Default::default() },
        ]);
    }
    let combo_len = ctx.tier.pick(3, 4);
    for m in VARINT_MAXIMA {
        g4.extend(raw_cases(Some(m), &raw_carriers, combo_len));
    }
    g4.extend(raw_cases(None, &raw_carriers, combo_len));
    g4.sort_by_key(|c| match c {
        Case::Raw { raw, .. } => raw.len(),
        _ => 0,
    });
    groups.push(Group { name: "malformed_inbound", cases: g4 });

    // ---- stage 1
    let mut all_cases: Vec<Case> = Vec::new();
    let mut group_of: Vec<usize> = Vec::new();
    let mut seen1: HashSet<Case> = HashSet::new();
    for (gi, g) in groups.iter().enumerate() {
        for c in &g.cases {
            if seen1.insert(c.clone()) {
                all_cases.push(c.clone());
                group_of.push(gi);
            }
        }
    }
    let outcomes1 = run_all(&all_cases);

    // ---- stage 2: spurious-Pending deviations on the carrier, enumerated from the measured operation counts of
    // the deviation-free baseline of each selected case
    let mut base_idx: std::collections::HashMap<Case, usize> = std::collections::HashMap::new();
    for (i, c) in all_cases.iter().enumerate() {
        base_idx.entry(c.clone()).or_insert(i);
    }
    let mut dev1: Vec<Case> = Vec::new();
    let mut dev2: Vec<Case> = Vec::new();
    let mut dev1_bases = 0u64;
    let mut dev2_bases = 0u64;
    let mut max_ops_seen = 0u64;
    for codec in codecs() {
        let v = small_valid(codec);
        let mut seqs: Vec<Vec<usize>> = vec![vec![v], vec![v, v]];
        {
            let bad = match codec {
                Codec::Identity(n) => Some(n + 1),
                Codec::Varint(Some(m)) => Some(m + 1),
                Codec::Varint(None) => None,
            };
            if let Some(b) = bad {
                seqs.push(vec![v, b, v]);
            }
            seqs.push(vec![v, v, v]);
        }
        for (si, sizes) in seqs.iter().enumerate() {
            for api in APIS {
                for reader in READERS {
                    let base = honest(codec, sizes, api, reader, &default_carrier);
                    let ops = match base_idx.get(&base) {
                        Some(i) => outcomes1[*i].ops,
                        None => run_case(&base).ops,
                    };
                    let mut flat: Vec<(u8, u8, u64)> = Vec::new();
                    for p in 0..2u8 {
                        for k in 0..3u8 {
                            let n = ops[p as usize][k as usize];
                            max_ops_seen = max_ops_seen.max(n);
                            for i in 0..n {
                                flat.push((p, k, i));
                            }
                        }
                    }
                    dev1_bases += 1;
                    for d in &flat {
                        dev1.push(honest(
                            codec,
                            sizes,
                            api,
                            reader,
                            &Carrier { pending: vec![*d], ..Default::default() },
                        ));
                    }
                    // pairs: singleton sequences (thorough: also the two-message sequences)
                    let pair_sel = si == 0 || (thorough && si == 1);
                    if pair_sel {
                        dev2_bases += 1;
                        for a in 0..flat.len() {
                            for b in (a + 1)..flat.len() {
                                dev2.push(honest(
                                    codec,
                                    sizes,
                                    api,
                                    reader,
                                    &Carrier { pending: vec![flat[a], flat[b]], ..Default::default() },
                                ));
                            }
                        }
                    }
                }
            }
        }
    }
    let g_dev1 = groups.len();
    groups.push(Group { name: "honest_pending_1_deviation", cases: Vec::new() });
    let g_dev2 = groups.len();
    groups.push(Group { name: "honest_pending_2_deviations", cases: Vec::new() });
    let mut cases2: Vec<Case> = Vec::new();
    let mut group_of2: Vec<usize> = Vec::new();
    let mut seen2: HashSet<Case> = HashSet::new();
    for c in dev1 {
        if seen2.insert(c.clone()) {
            cases2.push(c);
            group_of2.push(g_dev1);
        }
    }
    for c in dev2 {
        if seen2.insert(c.clone()) {
            cases2.push(c);
            group_of2.push(g_dev2);
        }
    }
    let outcomes2 = run_all(&cases2);

    // ---- merge (deterministic: enumeration order)
    #[derive(Default)]
    struct Agg {
        cases: u64,
        nontrivial: u64,
        delivered_msgs: u64,
        delivered_bytes: u64,
        accepted: u64,
        refused: u64,
        violating_cases: u64,
        injected_pending: u64,
        writer_blocked_until_reader: u64,
        info: BTreeMap<String, u64>,
    }
    let mut aggs: Vec<Agg> = groups.iter().map(|_| Agg::default()).collect();
    let mut distinct: HashSet<u128> = HashSet::new();
    let mut distinct_all: HashSet<u128> = HashSet::new();
    let mut evaluations = 0u64;
    let mut samples: Vec<Value> = Vec::new();
    let mut sample_groups: HashSet<(usize, bool)> = HashSet::new();
    let all = all_cases
        .iter()
        .zip(outcomes1.iter())
        .zip(group_of.iter())
        .chain(cases2.iter().zip(outcomes2.iter()).zip(group_of2.iter()));
    for ((case, o), gi) in all {
        evaluations += 1;
        let a = &mut aggs[*gi];
        a.cases += 1;
        let h = hash128(&serde_json::to_vec(case).unwrap());
        distinct_all.insert(h);
        let nontrivial = o.delivered >= 1 || o.len_check;
        if nontrivial {
            a.nontrivial += 1;
            distinct.insert(h);
        }
        a.delivered_msgs += o.delivered as u64;
        a.delivered_bytes += o.delivered_bytes;
        a.accepted += o.accepted as u64;
        a.refused += o.refused as u64;
        a.injected_pending += o.injected;
        if o.writer_blocked_until_reader {
            a.writer_blocked_until_reader += 1;
        }
        for i in &o.info {
            let key = i.split(':').next().unwrap_or("").to_string();
            *a.info.entry(key).or_insert(0) += 1;
        }
        if !o.viols.is_empty() {
            a.violating_cases += 1;
        }
        for (sig, what) in &o.viols {
            ctx.violation(Violation {
                signature: sig.clone(),
                what: what.clone(),
                replay: serde_json::to_value(case).unwrap(),
            });
        }
        // samples: per group one passing nontrivial case and one violating case (if any)
        if (nontrivial || !o.viols.is_empty()) && sample_groups.insert((*gi, o.viols.is_empty())) {
            samples.push(json!({
                "group": groups[*gi].name,
                "case": serde_json::to_value(case).unwrap(),
                "delivered_messages": o.delivered,
                "delivered_bytes": o.delivered_bytes,
                "accepted": o.accepted,
                "refused": o.refused,
                "violations": o.viols.iter().map(|v| v.0.clone()).collect::<Vec<_>>(),
            }));
        }
    }
    for s in samples {
        ctx.sample(s);
    }
    ctx.cov_add("evaluations", evaluations);
    ctx.cov("distinct_cases", distinct_all.len() as u64);
    ctx.cov("distinct_nontrivial", distinct.len() as u64);
    ctx.cov("exhaustive", true);
    ctx.cov(
        "rule",
        "bounded exhaustive grid over the real Substream on real yamux over the scripted carrier: \
         codecs {Identity(1,10,1023,1024,1025,4096), UnsignedVarint(Some(0,1,127,128,300,16384,70000)), UnsignedVarint(None)} \
         x size sequences (all singletons of the full per-codec size set incl. n-1/n/n+1, max-1/max/max+1, 0, 300000; all \
         sequences of length <= 3 over the reduced per-codec set; hand-picked window-crossing sequences) x send API \
         {send, feed*k+flush, send_framed} x reader {eager, after-completion, pause-after-one} x carrier {whole; read chunk 1,3; \
         write accept 1,7; window 10; all three} (fragmenting carriers: accepted bytes <= 4200) + every single spurious Pending \
         at every carrier operation index of the baseline (and every pair for singleton sequences) + malformed inbound \
         length prefixes (all 1..3-byte combinations over {00,7f,80,ff}, selected 4..11-byte shapes, max-1/max/max+1, 2^32, \
         2^63, 2^64-1) x tails x {EOF, open}. A case is non-trivial iff >= 1 message was delivered to the reader or (raw \
         cases) the reference parser reaches a complete length prefix, i.e. the receiver-side length check is exercised.",
    );
    ctx.cov("deviation_bound_completed", json!({
        "0": "all cases",
        "1": format!("every single op index (read/write/flush, both directions) for {dev1_bases} base cases"),
        "2": format!("every pair of op indices for {dev2_bases} base cases (single-message sequences; thorough tier: also two-message sequences)"),
        "max_ops_per_pipe_and_kind_in_a_baseline": max_ops_seen,
    }));
    for (g, a) in groups.iter().zip(aggs.iter()) {
        ctx.sub(
            g.name,
            json!({
                "cases": a.cases,
                "nontrivial": a.nontrivial,
                "messages_delivered": a.delivered_msgs,
                "bytes_delivered": a.delivered_bytes,
                "sends_accepted": a.accepted,
                "sends_refused": a.refused,
                "violating_cases": a.violating_cases,
                "injected_pending_effective": a.injected_pending,
                "cases_where_writer_blocked_until_reader_ran": a.writer_blocked_until_reader,
                "informational": a.info,
            }),
        );
    }
    ctx.assume("Substreams are the TCP flavour (`Substream::new_tcp` over `yamux::Stream`) built by `litep2p::verif::tcp_substream`; WebSocket shares the same code path shape, QUIC/WebRTC substreams are not exercised.");
    ctx.assume("The yamux connections run with `yamux::Config::default()` (what `TcpConfig::default()` uses) and are driven through litep2p's own `yamux::Control`/`ControlledConnection`, one driver task per side, mirroring `TcpConnection`.");
    ctx.assume("Task schedule: deterministic round-robin over woken tasks; schedule non-determinism is explored through carrier policies and injected spurious Pending (bound 2), not through task-order permutations.");
    ctx.assume("yamux 0.13 receive-window auto-tuning reads the wall clock (RTT); it can only change window sizes, never the oracle's expectation.");
    ctx.assume("'Reported complete' is observed in two ways: the read-only hook `Substream::verif_sink_queued_bytes()` right after the call returned Ok, and behaviourally by never polling the writer's substream again.");
    ctx.assume("UnsignedVarint(None): claimed lengths between 2^24 and 2^63 are not enumerated (the codec has no maximum and would really allocate); lengths >= 2^63 are run and recorded as informational only.");
    ctx.assume("Non-minimal varint encodings: the statement is silent; both rejecting them and decoding them are accepted.");
}
