//! One module per property.

use crate::report::Ctx;
use serde_json::Value;

pub mod c01;
pub mod c02;
pub mod c03;
pub mod c04;
pub mod c05;
pub mod c06;
pub mod manager;
pub mod c07;
pub mod c08;
pub mod c09;
pub mod conn;
pub mod c10;
pub mod c11;
pub mod c12;
pub mod c13;
pub mod c14;
pub mod selftest;
pub mod c15;
pub mod c16;
pub mod c17;
pub mod c18;
pub mod c19;
pub mod c20;

/// (property id, evidence level, check function)
pub const REGISTRY: &[(&str, &str, fn(&mut Ctx))] = &[
    ("C01", "fault_enumeration", c01::run),
    ("C02", "fault_enumeration", c02::run),
    ("C03", "exploration", c03::run),
    ("C04", "exploration", c04::run),
    ("C05", "model_checking", c05::run),
    ("C06", "model_checking", c06::run),
    ("C07", "model_checking", c07::run),
    ("C08", "model_checking", c08::run),
    ("C09", "model_checking", c09::run),
    ("C10", "model_checking", c10::run),
    ("C11", "model_checking", c11::run),
    ("C12", "model_checking", c12::run),
    ("C13", "model_checking", c13::run),
    ("C14", "model_checking", c14::run),
    ("C15", "model_checking", c15::run),
    ("C16", "model_checking", c16::run),
    ("C17", "model_checking", c17::run),
    ("C18", "exploration", c18::run),
    ("C19", "exploration", c19::run),
    ("C20", "exploration", c20::run),
];

pub fn replay(id: &str, case: &Value) -> Result<String, String> {
    match id {
        "C01" => c01::replay(case),
        "C02" => c02::replay(case),
        "C03" => c03::replay(case),
        "C04" => c04::replay(case),
        "C05" | "C06" => manager::replay(case),
        "C07" | "C08" | "C09" => conn::replay(case),
        "C10" => c10::replay(case),
        "C11" => c11::replay(case),
        "C12" => c12::replay(case),
        "C13" => c13::replay(case),
        "C14" => c14::replay(case),
        "C15" => c15::replay(case),
        "C16" => c16::replay(case),
        "C17" => c17::replay(case),
        "C18" => c18::replay(case),
        "C19" => c19::replay(case),
        "C20" => c20::replay(case),
        _ => Err(format!("no replayer for {id}")),
    }
}
