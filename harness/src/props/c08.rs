//! C08 — well-formed per-peer connection and substream event stream for protocols (oracles `c08/*` of the connection-lifecycle scenarios in `conn.rs`).
use crate::report::Ctx;

pub fn run(ctx: &mut Ctx) {
    super::conn::run_filtered(ctx, "c08");
}
