//! C09 — idle connections close after the keep-alive timeout, busy ones are kept (oracles `c09/*` of the connection-lifecycle scenarios in `conn.rs`).
use crate::report::Ctx;

pub fn run(ctx: &mut Ctx) {
    super::conn::run_filtered(ctx, "c09");
}
