//! C03 — protocol negotiation agrees on one protocol and is transparent afterwards.
//!
//! Bounded exhaustive enumeration of the real `litep2p` multistream-select implementation
//! (`dialer_select_proto`, `listener_select_proto`, `Negotiated`, `WebRtcDialerState`,
//! `webrtc_listener_negotiate`). Every stream case is one fresh paused runtime with two tasks (dialer, listener)
//! over the scripted duplex carrier under the deterministic driver; the reference implementation is libp2p's
//! `multistream-select` 0.13 in either role.
//!
//! Application script of one stream case (the same on every pairing):
//!   dialer  : select -> [write payload, flush]  -> [read exactly |listener payload| bytes] -> `complete()`
//!             -> close write half -> read to EOF (must be empty)
//!   listener: select -> [write payload, flush]  -> read to EOF (must equal the dialer payload) -> drop
//! Payloads are written IMMEDIATELY after the select future resolved, i.e. for `V1Lazy` before the negotiation
//! has completed. A side "reports protocol p" iff its whole script succeeded after selecting p; it "reports
//! failure" iff the select future, a read, or `complete()` returned an error.
//!
//! Oracles (signatures):
//!  * `terminate/hang/..`, `terminate/livelock/..`   driver stalled with unfinished tasks / step cap
//!  * `agree/wrong-protocol/..`, `agree/sides-differ/..`, `agree/spurious-failure/..`
//!  * `lazy/silent-success/..`                      lazy dialer ends successfully although nothing matches
//!  * `transparent/bytes-lost|bytes-differ|extra-bytes|bytes-left-unread/..`
//!  * `webrtc/..` for the message based variant, `fallback/..` for the (main, fallback) mapping
//!  * `panic/<site>`

use crate::{
    env::{driver, pipe},
    mc::e1,
    report::{Ctx, Violation},
};
use bytes::Bytes;
use futures::{AsyncRead, AsyncReadExt, AsyncWrite, AsyncWriteExt};
use litep2p::{verif as lv, ProtocolName};
use multistream_select as rf;
use parking_lot::Mutex;
use serde_json::{json, Value};
use std::{
    collections::{BTreeMap, HashSet, VecDeque},
    future::Future,
    io,
    panic::{catch_unwind, AssertUnwindSafe},
    pin::Pin,
    sync::{
        atomic::{AtomicUsize, Ordering},
        Arc,
    },
    task::{Context, Poll},
};

// ------------------------------------------------------------------------------------------------
// case description
// ------------------------------------------------------------------------------------------------

#[derive(Clone, Copy, PartialEq, Eq, Debug, Hash, PartialOrd, Ord)]
enum Pairing {
    LiteLite,
    LiteRef,
    RefLite,
}

impl Pairing {
    const ALL: [Pairing; 3] = [Pairing::LiteLite, Pairing::LiteRef, Pairing::RefLite];
    fn name(self) -> &'static str {
        match self {
            Pairing::LiteLite => "lite-lite",
            Pairing::LiteRef => "lite-ref",
            Pairing::RefLite => "ref-lite",
        }
    }
    fn parse(s: &str) -> Option<Self> {
        Self::ALL.into_iter().find(|p| p.name() == s)
    }
}

#[derive(Clone, Copy, PartialEq, Eq, Debug, Hash, PartialOrd, Ord)]
enum Ver {
    V1,
    V1Lazy,
}

impl Ver {
    const ALL: [Ver; 2] = [Ver::V1, Ver::V1Lazy];
    fn name(self) -> &'static str {
        match self {
            Ver::V1 => "V1",
            Ver::V1Lazy => "V1Lazy",
        }
    }
    fn parse(s: &str) -> Option<Self> {
        Self::ALL.into_iter().find(|p| p.name() == s)
    }
    fn lite(self) -> lv::Version {
        match self {
            Ver::V1 => lv::Version::V1,
            Ver::V1Lazy => lv::Version::V1Lazy,
        }
    }
    fn reference(self) -> rf::Version {
        match self {
            Ver::V1 => rf::Version::V1,
            Ver::V1Lazy => rf::Version::V1Lazy,
        }
    }
}

/// Direction of a pipe: dialer->listener or listener->dialer.
#[derive(Clone, Copy, PartialEq, Eq, Debug, Hash, PartialOrd, Ord)]
enum Dir {
    D2L,
    L2D,
}

impl Dir {
    const ALL: [Dir; 2] = [Dir::D2L, Dir::L2D];
    fn name(self) -> &'static str {
        match self {
            Dir::D2L => "d2l",
            Dir::L2D => "l2d",
        }
    }
    fn parse(s: &str) -> Option<Self> {
        Self::ALL.into_iter().find(|p| p.name() == s)
    }
    fn idx(self) -> usize {
        match self {
            Dir::D2L => 0,
            Dir::L2D => 1,
        }
    }
}

#[derive(Clone, Copy, PartialEq, Eq, Debug, Hash, PartialOrd, Ord)]
enum Op {
    Read,
    Write,
    Flush,
}

impl Op {
    const ALL: [Op; 3] = [Op::Read, Op::Write, Op::Flush];
    fn name(self) -> &'static str {
        match self {
            Op::Read => "read",
            Op::Write => "write",
            Op::Flush => "flush",
        }
    }
    fn parse(s: &str) -> Option<Self> {
        Self::ALL.into_iter().find(|p| p.name() == s)
    }
    fn idx(self) -> usize {
        match self {
            Op::Read => 0,
            Op::Write => 1,
            Op::Flush => 2,
        }
    }
}

/// Carrier policy of one case. `read_chunk` / `write_accept` apply to both directions. `split` truncates the read
/// that would cross absolute stream offset `k` of one direction (a short read ending exactly at `k`). `pending`
/// lists (direction, operation kind, 0-based operation index on that pipe) at which one spurious `Pending` is
/// injected (the task is woken immediately).
#[derive(Clone, Debug, Default, PartialEq, Eq)]
struct Carrier {
    read_chunk: Option<usize>,
    write_accept: Option<usize>,
    split: Option<(Dir, u64)>,
    pending: Vec<(Dir, Op, u64)>,
    /// both directions buffer written bytes until a flush completes (what a NoiseSocket / TLS carrier does)
    buffered: bool,
}

impl Carrier {
    fn whole() -> Self {
        Carrier::default()
    }
    fn chunk1() -> Self {
        Carrier { read_chunk: Some(1), ..Default::default() }
    }
    fn write1() -> Self {
        Carrier { write_accept: Some(1), ..Default::default() }
    }
    fn buffered() -> Self {
        Carrier { buffered: true, ..Default::default() }
    }
    fn is_default(&self) -> bool {
        *self == Carrier::default()
    }
    fn to_json(&self) -> Value {
        json!({
            "read_chunk": self.read_chunk,
            "write_accept": self.write_accept,
            "buffered": self.buffered,
            "split": self.split.map(|(d, k)| json!({"dir": d.name(), "at": k})),
            "pending": self.pending.iter().map(|(d, o, i)| json!({"dir": d.name(), "op": o.name(), "idx": i})).collect::<Vec<_>>(),
        })
    }
    fn from_json(v: &Value) -> Result<Self, String> {
        let mut c = Carrier::default();
        c.read_chunk = v["read_chunk"].as_u64().map(|x| x as usize);
        c.write_accept = v["write_accept"].as_u64().map(|x| x as usize);
        c.buffered = v["buffered"].as_bool().unwrap_or(false);
        if let Some(s) = v["split"].as_object() {
            let d = Dir::parse(s["dir"].as_str().unwrap_or("")).ok_or("split.dir")?;
            c.split = Some((d, s["at"].as_u64().ok_or("split.at")?));
        }
        for p in v["pending"].as_array().cloned().unwrap_or_default() {
            c.pending.push((
                Dir::parse(p["dir"].as_str().unwrap_or("")).ok_or("pending.dir")?,
                Op::parse(p["op"].as_str().unwrap_or("")).ok_or("pending.op")?,
                p["idx"].as_u64().ok_or("pending.idx")?,
            ));
        }
        Ok(c)
    }
    fn policy(&self, dir: Dir) -> pipe::Policy {
        let mut p = pipe::Policy::default();
        p.deliver_on_flush = self.buffered;
        if let Some(c) = self.read_chunk {
            p.read_chunk = c;
        }
        if let Some(c) = self.write_accept {
            p.write_accept = c;
        }
        for (d, o, i) in &self.pending {
            if *d == dir {
                match o {
                    Op::Read => p.pending_reads.insert(*i),
                    Op::Write => p.pending_writes.insert(*i),
                    Op::Flush => p.pending_flushes.insert(*i),
                };
            }
        }
        p
    }
}

/// One stream-based case. Names are symbolic: `"<N>"` expands to a deterministic N-byte name.
#[derive(Clone, Debug)]
struct StreamCase {
    dialer: Vec<String>,
    listener: Vec<String>,
    ver: Ver,
    pairing: Pairing,
    carrier: Carrier,
    /// bytes the dialer writes immediately after its select future resolved
    pay_d: usize,
    /// bytes the listener writes immediately after its select future resolved
    pay_l: usize,
    /// poll order of the round-robin driver: listener task first instead of dialer first
    listener_first: bool,
}

impl StreamCase {
    fn to_json(&self) -> Value {
        json!({
            "kind": "stream",
            "dialer": self.dialer,
            "listener": self.listener,
            "version": self.ver.name(),
            "pairing": self.pairing.name(),
            "carrier": self.carrier.to_json(),
            "payload": {"dialer": self.pay_d, "listener": self.pay_l},
            "first": if self.listener_first { "listener" } else { "dialer" },
        })
    }
    fn from_json(v: &Value) -> Result<Self, String> {
        let strs = |x: &Value| -> Vec<String> {
            x.as_array().map(|a| a.iter().filter_map(|s| s.as_str().map(String::from)).collect()).unwrap_or_default()
        };
        Ok(StreamCase {
            dialer: strs(&v["dialer"]),
            listener: strs(&v["listener"]),
            ver: Ver::parse(v["version"].as_str().unwrap_or("")).ok_or("version")?,
            pairing: Pairing::parse(v["pairing"].as_str().unwrap_or("")).ok_or("pairing")?,
            carrier: Carrier::from_json(&v["carrier"])?,
            pay_d: v["payload"]["dialer"].as_u64().unwrap_or(0) as usize,
            pay_l: v["payload"]["listener"].as_u64().unwrap_or(0) as usize,
            listener_first: v["first"].as_str() == Some("listener"),
        })
    }
    fn hash(&self) -> u128 {
        let mut k: Vec<u8> = Vec::with_capacity(96);
        for n in &self.dialer {
            k.extend_from_slice(n.as_bytes());
            k.push(0);
        }
        k.push(1);
        for n in &self.listener {
            k.extend_from_slice(n.as_bytes());
            k.push(0);
        }
        k.extend_from_slice(&[1, self.ver as u8, self.pairing as u8, self.listener_first as u8]);
        k.extend_from_slice(&(self.pay_d as u64).to_le_bytes());
        k.extend_from_slice(&(self.pay_l as u64).to_le_bytes());
        k.extend_from_slice(&(self.carrier.read_chunk.map(|x| x as u64 + 1).unwrap_or(0)).to_le_bytes());
        k.extend_from_slice(&(self.carrier.write_accept.map(|x| x as u64 + 1).unwrap_or(0)).to_le_bytes());
        if let Some((d, at)) = self.carrier.split {
            k.extend_from_slice(&[2, d as u8]);
            k.extend_from_slice(&at.to_le_bytes());
        }
        for (d, o, i) in &self.carrier.pending {
            k.extend_from_slice(&[3, *d as u8, *o as u8]);
            k.extend_from_slice(&i.to_le_bytes());
        }
        e1::hash128(&k)
    }
    /// The protocol both sides must report: the dialer's first name the listener supports.
    fn expected(&self) -> Option<String> {
        self.dialer.iter().find(|n| self.listener.contains(n)).map(|n| expand_name(n))
    }
}

/// `"<N>"` -> deterministic N-byte protocol name; anything else is literal.
fn expand_name(s: &str) -> String {
    if let Some(n) = s.strip_prefix('<').and_then(|r| r.strip_suffix('>')).and_then(|n| n.parse::<usize>().ok()) {
        let mut out = format!("/long{n}/");
        let mut i = 0u32;
        while out.len() < n {
            out.push((b'a' + (i % 26) as u8) as char);
            i += 1;
        }
        out.truncate(n);
        out
    } else {
        s.to_string()
    }
}

fn short(s: &str) -> String {
    if s.len() > 24 {
        format!("{}..({}B)", &s[..12], s.len())
    } else {
        s.to_string()
    }
}

/// Application payloads. The small ones deliberately look like multistream-select framing (a length prefix, a
/// frame holding "/\n", the start of an "na" frame) so that any re-interpretation after negotiation shows.
fn payload(n: usize, who: Dir) -> Vec<u8> {
    match (n, who) {
        (0, _) => Vec::new(),
        (1, Dir::D2L) => vec![0x13],
        (1, Dir::L2D) => vec![0x03],
        (3, Dir::D2L) => vec![0x02, b'/', b'\n'],
        (3, Dir::L2D) => vec![0x03, b'n', b'a'],
        (n, Dir::D2L) => (0..n).map(|i| (i.wrapping_mul(7).wrapping_add(3)) as u8).collect(),
        (n, Dir::L2D) => (0..n).map(|i| (i.wrapping_mul(13).wrapping_add(5)) as u8).collect(),
    }
}

// ------------------------------------------------------------------------------------------------
// carrier adapter: short read ending at a chosen absolute offset
// ------------------------------------------------------------------------------------------------

struct Shaped {
    inner: pipe::End,
    split_at: Option<u64>,
    nread: u64,
}

impl AsyncRead for Shaped {
    fn poll_read(mut self: Pin<&mut Self>, cx: &mut Context<'_>, out: &mut [u8]) -> Poll<io::Result<usize>> {
        let this = &mut *self;
        let mut lim = out.len();
        if let Some(k) = this.split_at {
            if this.nread < k {
                lim = lim.min((k - this.nread) as usize);
            }
        }
        match Pin::new(&mut this.inner).poll_read(cx, &mut out[..lim]) {
            Poll::Ready(Ok(n)) => {
                this.nread += n as u64;
                Poll::Ready(Ok(n))
            }
            o => o,
        }
    }
}

impl AsyncWrite for Shaped {
    fn poll_write(mut self: Pin<&mut Self>, cx: &mut Context<'_>, data: &[u8]) -> Poll<io::Result<usize>> {
        Pin::new(&mut self.inner).poll_write(cx, data)
    }
    fn poll_flush(mut self: Pin<&mut Self>, cx: &mut Context<'_>) -> Poll<io::Result<()>> {
        Pin::new(&mut self.inner).poll_flush(cx)
    }
    fn poll_close(mut self: Pin<&mut Self>, cx: &mut Context<'_>) -> Poll<io::Result<()>> {
        Pin::new(&mut self.inner).poll_close(cx)
    }
}

// ------------------------------------------------------------------------------------------------
// the two application scripts, generic over the implementation's `Negotiated`
// ------------------------------------------------------------------------------------------------

type BoxRes<T> = Pin<Box<dyn Future<Output = Result<T, String>> + Send>>;

trait Nego: AsyncRead + AsyncWrite + Unpin + Send + Sized + 'static {
    fn finish(self) -> BoxRes<Self>;
}

impl Nego for lv::Negotiated<Shaped> {
    fn finish(self) -> BoxRes<Self> {
        Box::pin(async move { self.complete().await.map_err(|e| err_lite(&e)) })
    }
}

impl Nego for rf::Negotiated<Shaped> {
    fn finish(self) -> BoxRes<Self> {
        Box::pin(async move { self.complete().await.map_err(|e| err_ref(&e)) })
    }
}

fn err_lite(e: &lv::NegotiationError) -> String {
    match e {
        lv::NegotiationError::Failed => "Failed".into(),
        o => format!("{o:?}"),
    }
}

fn err_ref(e: &rf::NegotiationError) -> String {
    match e {
        rf::NegotiationError::Failed => "Failed".into(),
        o => format!("{o:?}"),
    }
}

fn err_io(e: &io::Error) -> String {
    format!("io {:?}: {e}", e.kind())
}

#[derive(Default, Debug, Clone)]
struct Side {
    phase: &'static str,
    /// name yielded by the select future (optimistic for a lazy dialer)
    selected: Option<String>,
    /// final report: Ok(name) or Err(reason)
    outcome: Option<Result<String, String>>,
    received: Vec<u8>,
    recv_err: Option<String>,
    extra: Vec<u8>,
    /// dialer only: payload was accepted by the carrier before any byte from the listener had been read
    zero_rtt: bool,
}

async fn read_n<R: AsyncRead + Unpin>(io: &mut R, n: usize) -> (Vec<u8>, Option<io::Result<()>>) {
    let mut buf = vec![0u8; n];
    let mut got = 0;
    while got < n {
        match io.read(&mut buf[got..]).await {
            Ok(0) => {
                buf.truncate(got);
                return (buf, Some(Ok(())));
            }
            Ok(k) => got += k,
            Err(e) => {
                buf.truncate(got);
                return (buf, Some(Err(e)));
            }
        }
    }
    (buf, None)
}

async fn read_all<R: AsyncRead + Unpin>(io: &mut R) -> (Vec<u8>, Option<io::Error>) {
    let mut out = Vec::new();
    let mut buf = vec![0u8; 4096];
    loop {
        match io.read(&mut buf).await {
            Ok(0) => return (out, None),
            Ok(k) => out.extend_from_slice(&buf[..k]),
            Err(e) => return (out, Some(e)),
        }
    }
}

async fn dialer_app<N: Nego>(
    sel: Result<(String, N), String>,
    out: Arc<Mutex<Side>>,
    wp: Vec<u8>,
    expect_n: usize,
    h_l2d: pipe::PipeHandle,
) {
    let (name, mut io) = match sel {
        Ok(x) => x,
        Err(e) => {
            out.lock().outcome = Some(Err(format!("select: {e}")));
            return;
        }
    };
    out.lock().selected = Some(name.clone());
    if !wp.is_empty() {
        out.lock().phase = "write";
        if let Err(e) = io.write_all(&wp).await {
            out.lock().outcome = Some(Err(format!("write: {}", err_io(&e))));
            return;
        }
        if let Err(e) = io.flush().await {
            out.lock().outcome = Some(Err(format!("flush: {}", err_io(&e))));
            return;
        }
        out.lock().zero_rtt = h_l2d.stats().bytes_read == 0;
    }
    if expect_n > 0 {
        out.lock().phase = "read";
        let (got, end) = read_n(&mut io, expect_n).await;
        out.lock().received = got;
        match end {
            None => {}
            // a clean EOF is only delivered by a completed `Negotiated`: the negotiation itself succeeded
            Some(Ok(())) => out.lock().recv_err = Some("eof before the expected bytes".into()),
            Some(Err(e)) => {
                out.lock().outcome = Some(Err(format!("read: {}", err_io(&e))));
                return;
            }
        }
    }
    out.lock().phase = "complete";
    let mut io = match io.finish().await {
        Ok(io) => io,
        Err(e) => {
            out.lock().outcome = Some(Err(format!("complete: {e}")));
            return;
        }
    };
    out.lock().outcome = Some(Ok(name));
    out.lock().phase = "close";
    let _ = io.close().await;
    out.lock().phase = "drain";
    let (extra, _) = read_all(&mut io).await;
    out.lock().extra = extra;
    out.lock().phase = "done";
}

async fn listener_app<N: Nego>(sel: Result<(String, N), String>, out: Arc<Mutex<Side>>, wp: Vec<u8>) {
    let (name, mut io) = match sel {
        Ok(x) => x,
        Err(e) => {
            out.lock().outcome = Some(Err(format!("select: {e}")));
            return;
        }
    };
    out.lock().selected = Some(name.clone());
    if !wp.is_empty() {
        out.lock().phase = "write";
        if let Err(e) = io.write_all(&wp).await {
            out.lock().outcome = Some(Err(format!("write: {}", err_io(&e))));
            return;
        }
        if let Err(e) = io.flush().await {
            out.lock().outcome = Some(Err(format!("flush: {}", err_io(&e))));
            return;
        }
    }
    out.lock().phase = "read";
    let (got, err) = read_all(&mut io).await;
    out.lock().received = got;
    if let Some(e) = err {
        out.lock().recv_err = Some(err_io(&e));
    }
    out.lock().outcome = Some(Ok(name));
    out.lock().phase = "done";
}

// ------------------------------------------------------------------------------------------------
// the listener hangs up right after its answer
// ------------------------------------------------------------------------------------------------

/// A lazy dialer sends header, proposal and request in one go; the listener agrees, answers and hangs up before the
/// dialer reads. The carrier behaves like a yamux stream whose remote is gone: what was received is still served, writes
/// and flushes fail with `WriteZero`. The negotiation succeeded and the answer arrived, so the dialer must get both
/// (`Negotiated` tolerates exactly that flush error for this reason).
fn run_hangup(lite_listener: bool, pay_d: usize, listener_first: bool) -> Vec<(String, String)> {
    let desc = json!({"kind": "hangup", "lite_listener": lite_listener, "payload_dialer": pay_d, "first": if listener_first { "listener" } else { "dialer" }});
    let rt = driver::runtime(1);
    rt.block_on(async move {
        let mut pd = pipe::Policy::default();
        pd.gone_is_write_zero = true;
        let (a, b, _h_d2l, h_l2d) = pipe::duplex(pd, pipe::Policy::default());
        let a = Shaped { inner: a, split_at: None, nread: 0 };
        let b = Shaped { inner: b, split_at: None, nread: 0 };
        let sd: Arc<Mutex<Side>> = Arc::new(Mutex::new(Side { phase: "select", ..Default::default() }));
        let wp_d = payload(pay_d, Dir::D2L);
        let wp_l = payload(3, Dir::L2D);
        let names = vec!["/a".to_string()];
        let mut d = driver::Driver::new();
        let fut_d: driver::BoxFut = {
            let (o, wp, n, h, dn) = (sd.clone(), wp_d.clone(), wp_l.len(), h_l2d.clone(), names.clone());
            Box::pin(async move {
                let sel = lv::dialer_select_proto(a, dn, Ver::V1Lazy.lite()).await.map_err(|e| err_lite(&e));
                dialer_app(sel, o, wp, n, h).await
            })
        };
        let fut_l: driver::BoxFut = {
            let (wp, ln, need) = (wp_l.clone(), names.clone(), pay_d);
            Box::pin(async move {
                // negotiate, read the request (if any), answer, hang up without any further read
                async fn serve<N: Nego>(sel: Result<(String, N), String>, wp: Vec<u8>, need: usize) {
                    let Ok((_, mut io)) = sel else { return };
                    if need > 0 {
                        let _ = read_n(&mut io, need).await;
                    }
                    let _ = io.write_all(&wp).await;
                    let _ = io.flush().await;
                }
                if lite_listener {
                    serve(lv::listener_select_proto(b, ln).await.map_err(|e| err_lite(&e)), wp, need).await
                } else {
                    serve(rf::listener_select_proto(b, ln).await.map_err(|e| err_ref(&e)), wp, need).await
                }
            })
        };
        if listener_first {
            d.spawn("listener", fut_l);
            d.spawn("dialer", fut_d);
        } else {
            d.spawn("dialer", fut_d);
            d.spawn("listener", fut_l);
        }
        let finished = d.run_until_stalled(STEP_CAP);
        let all_done = d.all_done();
        drop(d);
        let sd = sd.lock().clone();
        let mut v = Vec::new();
        if !finished || !all_done {
            v.push(("terminate/hang/listener-hung-up".to_string(), format!("dialer did not terminate after the listener answered and hung up: phase={} outcome={:?}; {desc}", sd.phase, sd.outcome)));
            return v;
        }
        match &sd.outcome {
            Some(Ok(name)) if name == "/a" && sd.received == wp_l => {}
            other => v.push((
                "agree/answer-lost-after-listener-hung-up".to_string(),
                format!(
                    "the listener agreed on \"/a\", answered {} B and hung up; the dialer reports {:?} and received {} B (expected Ok(\"/a\") and the whole answer); {desc}",
                    wp_l.len(), other, sd.received.len()
                ),
            )),
        }
        v
    })
}

// ------------------------------------------------------------------------------------------------
// a conforming dialer that does not pipeline
// ------------------------------------------------------------------------------------------------

async fn read_frame<R: AsyncRead + Unpin>(io: &mut R) -> Result<Vec<u8>, String> {
    let mut len = 0usize;
    let mut shift = 0u32;
    loop {
        let mut b = [0u8; 1];
        match io.read(&mut b).await {
            Ok(0) => return Err("eof".into()),
            Ok(_) => {}
            Err(e) => return Err(err_io(&e)),
        }
        len |= ((b[0] & 0x7f) as usize) << shift;
        if b[0] & 0x80 == 0 {
            break;
        }
        shift += 7;
        if shift > 21 {
            return Err("length prefix too long".into());
        }
    }
    let (got, err) = read_n(io, len).await;
    match err {
        None => Ok(got),
        Some(Ok(())) => Err("eof inside a frame".into()),
        Some(Err(e)) => Err(err_io(&e)),
    }
}

/// The multistream-select handshake written out step by step, the way py-libp2p and older js-libp2p dial: send the
/// header ALONE, wait for the listener's header, then propose one name at a time and wait for each answer. Both sides are
/// required to send their header unprompted, so the litep2p listener must terminate with this dialer exactly as it does
/// with a pipelining one: agreement on the first name of `list` the listener supports, failure if there is none.
fn run_stepwise_dialer(list: &[String], set: &[String], listener_first: bool) -> Vec<(String, String)> {
    let desc = json!({"kind": "stepwise-dialer", "dialer": list, "listener": set, "first": if listener_first { "listener" } else { "dialer" }});
    let expected: Option<String> = list.iter().find(|n| set.contains(n)).cloned();
    let rt = driver::runtime(1);
    rt.block_on(async move {
        let (a, b, _h_d2l, _h_l2d) = pipe::duplex(pipe::Policy::default(), pipe::Policy::default());
        let mut a = Shaped { inner: a, split_at: None, nread: 0 };
        let b = Shaped { inner: b, split_at: None, nread: 0 };
        let sd: Arc<Mutex<Side>> = Arc::new(Mutex::new(Side { phase: "header", ..Default::default() }));
        let sl: Arc<Mutex<Side>> = Arc::new(Mutex::new(Side { phase: "select", ..Default::default() }));
        let wp_d = payload(3, Dir::D2L);
        let wp_l = payload(3, Dir::L2D);
        let mut d = driver::Driver::new();
        let fut_d: driver::BoxFut = {
            let (o, names, wp, n) = (sd.clone(), list.to_vec(), wp_d.clone(), wp_l.len());
            Box::pin(async move {
                let fail = |o: &Arc<Mutex<Side>>, why: String| o.lock().outcome = Some(Err(why));
                if a.write_all(&frame(b"/multistream/1.0.0\n")).await.is_err() || a.flush().await.is_err() {
                    return fail(&o, "write header".into());
                }
                o.lock().phase = "await-header";
                match read_frame(&mut a).await {
                    Ok(f) if f == b"/multistream/1.0.0\n" => {}
                    other => return fail(&o, format!("expected the listener's header, got {other:?}")),
                }
                let mut agreed = None;
                for name in &names {
                    o.lock().phase = "propose";
                    let mut line = name.clone().into_bytes();
                    line.push(b'\n');
                    if a.write_all(&frame(&line)).await.is_err() || a.flush().await.is_err() {
                        return fail(&o, "write proposal".into());
                    }
                    o.lock().phase = "await-answer";
                    match read_frame(&mut a).await {
                        Ok(f) if f == line => {
                            agreed = Some(name.clone());
                            break;
                        }
                        Ok(f) if f == b"na\n" => continue,
                        other => return fail(&o, format!("answer to {name:?}: {other:?}")),
                    }
                }
                let Some(name) = agreed else {
                    let _ = a.close().await;
                    return fail(&o, "no protocol".into());
                };
                o.lock().selected = Some(name.clone());
                o.lock().phase = "payload";
                if a.write_all(&wp).await.is_err() || a.flush().await.is_err() {
                    return fail(&o, "write payload".into());
                }
                let (got, _) = read_n(&mut a, n).await;
                o.lock().received = got;
                let _ = a.close().await;
                o.lock().outcome = Some(Ok(name));
                o.lock().phase = "done";
            })
        };
        let fut_l: driver::BoxFut = {
            let (o, ln, wp) = (sl.clone(), set.to_vec(), wp_l.clone());
            Box::pin(async move {
                let sel = lv::listener_select_proto(b, ln).await.map_err(|e| err_lite(&e));
                listener_app(sel, o, wp).await
            })
        };
        if listener_first {
            d.spawn("listener", fut_l);
            d.spawn("dialer", fut_d);
        } else {
            d.spawn("dialer", fut_d);
            d.spawn("listener", fut_l);
        }
        let finished = d.run_until_stalled(STEP_CAP);
        let all_done = d.all_done();
        drop(d);
        let (sd, sl) = (sd.lock().clone(), sl.lock().clone());
        let mut v = Vec::new();
        if !finished || !all_done {
            v.push((
                "terminate/hang/stepwise-dialer".to_string(),
                format!("negotiation with a dialer that does not pipeline never ended: dialer phase={} outcome={:?}, listener phase={} outcome={:?}; {desc}", sd.phase, sd.outcome, sl.phase, sl.outcome),
            ));
            return v;
        }
        let got_d = sd.outcome.clone().and_then(|r| r.ok());
        let got_l = sl.outcome.clone().and_then(|r| r.ok());
        if got_d != expected || got_l != expected {
            v.push((
                "agree/stepwise-dialer".to_string(),
                format!("expected both sides to end with {expected:?}; dialer {:?}, listener {:?}; {desc}", sd.outcome, sl.outcome),
            ));
        } else if expected.is_some() && (sd.received != wp_l || sl.received != wp_d) {
            v.push((
                "payload/stepwise-dialer".to_string(),
                format!("payload after the negotiation: dialer received {:?} (expected {:?}), listener received {:?} (expected {:?}); {desc}", sd.received, wp_l, sl.received, wp_d),
            ));
        }
        v
    })
}

/// The dialer's FIRST operation on the negotiated stream is a vectored write (`poll_write_vectored`, what a codec that
/// gathers header and body does): for a lazy dialer the negotiation frames are still buffered at that moment and have to
/// go out before the payload.
fn run_vectored_first(ver: Ver, lite_listener: bool, listener_first: bool) -> Vec<(String, String)> {
    match catch_unwind(AssertUnwindSafe(|| run_vectored_first_inner(ver, lite_listener, listener_first))) {
        Ok(v) => v,
        Err(_) => {
            let msg = normalize_panic(&e1::take_panic());
            vec![(format!("panic/{}", e1::panic_site(&msg)), format!("panic `{msg}` when the dialer's first operation on the negotiated stream was a vectored write ({}, {} listener)", ver.name(), if lite_listener { "litep2p" } else { "reference" }))]
        }
    }
}

fn run_vectored_first_inner(ver: Ver, lite_listener: bool, listener_first: bool) -> Vec<(String, String)> {
    let desc = json!({"kind": "vectored-first-write", "version": ver.name(), "lite_listener": lite_listener, "first": if listener_first { "listener" } else { "dialer" }});
    let rt = driver::runtime(1);
    rt.block_on(async move {
        let (a, b, _h_d2l, _h_l2d) = pipe::duplex(pipe::Policy::default(), pipe::Policy::default());
        let a = Shaped { inner: a, split_at: None, nread: 0 };
        let b = Shaped { inner: b, split_at: None, nread: 0 };
        let sd: Arc<Mutex<Side>> = Arc::new(Mutex::new(Side { phase: "select", ..Default::default() }));
        let sl: Arc<Mutex<Side>> = Arc::new(Mutex::new(Side { phase: "select", ..Default::default() }));
        let wp_d = payload(3, Dir::D2L);
        let wp_l = payload(3, Dir::L2D);
        let names = vec!["/a".to_string()];
        let mut d = driver::Driver::new();
        let fut_d: driver::BoxFut = {
            let (o, wp, n, dn) = (sd.clone(), wp_d.clone(), wp_l.len(), names.clone());
            Box::pin(async move {
                let (name, mut io) = match lv::dialer_select_proto(a, dn, ver.lite()).await {
                    Ok(x) => x,
                    Err(e) => {
                        o.lock().outcome = Some(Err(format!("select: {}", err_lite(&e))));
                        return;
                    }
                };
                o.lock().phase = "write-vectored";
                let mut off = 0;
                while off < wp.len() {
                    match io.write_vectored(&[std::io::IoSlice::new(&wp[off..])]).await {
                        Ok(0) => break,
                        Ok(k) => off += k,
                        Err(e) => {
                            o.lock().outcome = Some(Err(format!("write: {}", err_io(&e))));
                            return;
                        }
                    }
                }
                if let Err(e) = io.flush().await {
                    o.lock().outcome = Some(Err(format!("flush: {}", err_io(&e))));
                    return;
                }
                o.lock().phase = "read";
                let (got, _) = read_n(&mut io, n).await;
                o.lock().received = got;
                let _ = io.close().await;
                o.lock().outcome = Some(Ok(name.to_string()));
                o.lock().phase = "done";
            })
        };
        let fut_l: driver::BoxFut = {
            let (o, ln, wp) = (sl.clone(), names.clone(), wp_l.clone());
            Box::pin(async move {
                if lite_listener {
                    listener_app(lv::listener_select_proto(b, ln).await.map_err(|e| err_lite(&e)), o, wp).await
                } else {
                    listener_app(rf::listener_select_proto(b, ln).await.map_err(|e| err_ref(&e)), o, wp).await
                }
            })
        };
        if listener_first {
            d.spawn("listener", fut_l);
            d.spawn("dialer", fut_d);
        } else {
            d.spawn("dialer", fut_d);
            d.spawn("listener", fut_l);
        }
        let finished = d.run_until_stalled(STEP_CAP);
        let all_done = d.all_done();
        drop(d);
        let (sd, sl) = (sd.lock().clone(), sl.lock().clone());
        let mut v = Vec::new();
        if !finished || !all_done {
            v.push((
                "terminate/hang/vectored-first-write".to_string(),
                format!("negotiation did not end when the dialer's first operation was a vectored write: dialer phase={} outcome={:?}, listener phase={} outcome={:?}; {desc}", sd.phase, sd.outcome, sl.phase, sl.outcome),
            ));
            return v;
        }
        let ok = |r: &Option<Result<String, String>>| matches!(r, Some(Ok(n)) if n == "/a");
        if !ok(&sd.outcome) || !ok(&sl.outcome) || sd.received != wp_l || sl.received != wp_d {
            v.push((
                "agree/vectored-first-write".to_string(),
                format!("expected both sides to agree on \"/a\" and exchange 3 bytes each way; dialer {:?} received {:?}, listener {:?} received {:?}; {desc}", sd.outcome, sd.received, sl.outcome, sl.received),
            ));
        }
        v
    })
}

// ------------------------------------------------------------------------------------------------
// one execution
// ------------------------------------------------------------------------------------------------

#[derive(Default, Debug, Clone)]
struct RunOut {
    viols: Vec<(String, String)>,
    /// protocol proposals seen on the dialer->listener wire
    proposals: usize,
    steps: u64,
    /// operation counts per pipe: [dir][op]
    ops: [[u64; 3]; 2],
    /// bytes that went through each pipe
    wire: [usize; 2],
    injected: u64,
    zero_rtt: bool,
    summary: String,
}

const STEP_CAP: u64 = 4_000_000;

/// Parse as many varint-length-prefixed frames as possible; returns the frames.
fn parse_frames(mut b: &[u8]) -> Vec<Vec<u8>> {
    let mut out = Vec::new();
    while !b.is_empty() {
        let Ok((len, tail)) = unsigned_varint::decode::usize(b) else { break };
        if len > tail.len() {
            break;
        }
        out.push(tail[..len].to_vec());
        b = &tail[len..];
    }
    out
}

fn run_stream(case: &StreamCase) -> RunOut {
    match catch_unwind(AssertUnwindSafe(|| run_stream_inner(case))) {
        Ok(o) => o,
        Err(_) => {
            let msg = normalize_panic(&e1::take_panic());
            let mut o = RunOut::default();
            o.summary = format!("panic {msg}");
            o.viols.push((
                format!("panic/{}", e1::panic_site(&msg)),
                format!("panic `{msg}` while running {}", describe(case)),
            ));
            o
        }
    }
}

/// strip the checkout prefix so the site is stable across worktrees
fn normalize_panic(msg: &str) -> String {
    match msg.find("/repo/") {
        Some(i) if msg[..i].find(": ").is_none() => msg[i + "/repo/".len()..].to_string(),
        _ => msg.to_string(),
    }
}

fn describe(c: &StreamCase) -> String {
    format!(
        "dialer={:?} listener={:?} version={} pairing={} carrier={} payload(d={},l={}) polled-first={}",
        c.dialer,
        c.listener,
        c.ver.name(),
        c.pairing.name(),
        c.carrier.to_json(),
        c.pay_d,
        c.pay_l,
        if c.listener_first { "listener" } else { "dialer" }
    )
}

fn run_stream_inner(case: &StreamCase) -> RunOut {
    // fresh paused runtime per execution
    let rt = driver::runtime(1);
    let case = case.clone();
    rt.block_on(async move {
        let (a, b, h_d2l, h_l2d) = pipe::duplex(case.carrier.policy(Dir::D2L), case.carrier.policy(Dir::L2D));
        let split = |d: Dir| case.carrier.split.and_then(|(sd, k)| (sd == d).then_some(k));
        // the dialer reads the l2d direction, the listener the d2l direction
        let io_d = Shaped { inner: a, split_at: split(Dir::L2D), nread: 0 };
        let io_l = Shaped { inner: b, split_at: split(Dir::D2L), nread: 0 };
        let dn: Vec<String> = case.dialer.iter().map(|s| expand_name(s)).collect();
        let ln: Vec<String> = case.listener.iter().map(|s| expand_name(s)).collect();
        let sd: Arc<Mutex<Side>> = Arc::new(Mutex::new(Side { phase: "select", ..Default::default() }));
        let sl: Arc<Mutex<Side>> = Arc::new(Mutex::new(Side { phase: "select", ..Default::default() }));
        let wp_d = payload(case.pay_d, Dir::D2L);
        let wp_l = payload(case.pay_l, Dir::L2D);
        let mut d = driver::Driver::new();

        let fut_d: driver::BoxFut = {
            let o = sd.clone();
            let wp = wp_d.clone();
            let n = wp_l.len();
            let h = h_l2d.clone();
            let ver = case.ver;
            match case.pairing {
                Pairing::LiteLite | Pairing::LiteRef => Box::pin(async move {
                    let sel = lv::dialer_select_proto(io_d, dn, ver.lite()).await.map_err(|e| err_lite(&e));
                    dialer_app(sel, o, wp, n, h).await
                }),
                Pairing::RefLite => Box::pin(async move {
                    let sel = rf::dialer_select_proto(io_d, dn, ver.reference()).await.map_err(|e| err_ref(&e));
                    dialer_app(sel, o, wp, n, h).await
                }),
            }
        };
        let fut_l: driver::BoxFut = {
            let o = sl.clone();
            let wp = wp_l.clone();
            match case.pairing {
                Pairing::LiteLite | Pairing::RefLite => Box::pin(async move {
                    let sel = lv::listener_select_proto(io_l, ln).await.map_err(|e| err_lite(&e));
                    listener_app(sel, o, wp).await
                }),
                Pairing::LiteRef => Box::pin(async move {
                    let sel = rf::listener_select_proto(io_l, ln).await.map_err(|e| err_ref(&e));
                    listener_app(sel, o, wp).await
                }),
            }
        };
        if case.listener_first {
            d.spawn("listener", fut_l);
            d.spawn("dialer", fut_d);
        } else {
            d.spawn("dialer", fut_d);
            d.spawn("listener", fut_l);
        }

        let finished = d.run_until_stalled(STEP_CAP);
        let all_done = d.all_done();
        let stuck: Vec<String> = d.tasks.iter().filter(|t| !t.done()).map(|t| t.name.clone()).collect();
        let steps = d.steps;
        // drop unfinished futures (and their pipe ends) before looking at the pipes
        drop(d);

        let sd = sd.lock().clone();
        let sl = sl.lock().clone();
        let mut out = RunOut::default();
        out.steps = steps;
        for (i, h) in [&h_d2l, &h_l2d].into_iter().enumerate() {
            let s = h.stats();
            out.ops[i] = [s.read_ops, s.write_ops, s.flush_ops];
            out.injected += s.injected_pending;
            out.wire[i] = h.log().len();
        }
        out.zero_rtt = sd.zero_rtt;
        let log_d2l = h_d2l.log();
        let nego: &[u8] = if !wp_d.is_empty() && log_d2l.ends_with(&wp_d) {
            &log_d2l[..log_d2l.len() - wp_d.len()]
        } else {
            &log_d2l
        };
        out.proposals = parse_frames(nego)
            .iter()
            .filter(|f| f.first() == Some(&b'/') && f.as_slice() != b"/multistream/1.0.0\n")
            .count();
        out.summary = format!(
            "dialer={:?} listener={:?} steps={steps} wire(d2l={},l2d={}) proposals={}",
            sd.outcome.as_ref().map(|r| r.as_ref().map(|s| short(s)).map_err(|e| e.clone())),
            sl.outcome.as_ref().map(|r| r.as_ref().map(|s| short(s)).map_err(|e| e.clone())),
            out.wire[0],
            out.wire[1],
            out.proposals
        );
        judge(&case, &sd, &sl, finished, all_done, &stuck, [h_d2l.buffered(), h_l2d.buffered()], &wp_d, &wp_l, &mut out);
        out
    })
}

#[allow(clippy::too_many_arguments)]
fn judge(
    case: &StreamCase,
    sd: &Side,
    sl: &Side,
    finished: bool,
    all_done: bool,
    stuck: &[String],
    buffered: [usize; 2],
    wp_d: &[u8],
    wp_l: &[u8],
    out: &mut RunOut,
) {
    let exp = case.expected();
    let pairing = case.pairing.name();
    let ver = case.ver.name();
    let desc = describe(case);
    let mut v = |sig: String, what: String| out.viols.push((sig, what));

    if !finished {
        v(
            format!("terminate/livelock/{pairing}/{ver}"),
            format!("step cap {STEP_CAP} reached without termination; {desc}"),
        );
        return;
    }
    if !all_done {
        let negotiated = sd.selected.is_some() && sl.selected.is_some() && sd.selected == sl.selected && sd.selected == exp;
        let app_phase = |p: &str| matches!(p, "read" | "drain" | "close" | "done");
        if negotiated && app_phase(sd.phase) && app_phase(sl.phase) {
            v(
                format!("transparent/bytes-lost/hang/{pairing}"),
                format!(
                    "both sides selected {:?} but the transfer never finished (a reader waits for bytes that never arrive): stuck tasks {stuck:?}, dialer phase={} received {}/{} B, listener phase={} received {} B of {} B; {desc}",
                    exp.as_deref().map(short), sd.phase, sd.received.len(), wp_l.len(), sl.phase, sl.received.len(), wp_d.len()
                ),
            );
        } else {
            v(
                format!("terminate/hang/{pairing}/{ver}"),
                format!(
                    "driver stalled with unfinished tasks {stuck:?} (all Pending, nobody woken): dialer phase={} selected={:?} outcome={:?}; listener phase={} selected={:?} outcome={:?}; expected protocol {:?}; {desc}",
                    sd.phase, sd.selected.as_deref().map(short), sd.outcome, sl.phase, sl.selected.as_deref().map(short), sl.outcome, exp.as_deref().map(short)
                ),
            );
        }
        return;
    }
    let (Some(od), Some(ol)) = (&sd.outcome, &sl.outcome) else {
        v("machinery/no-outcome".into(), format!("a task finished without recording an outcome; {desc}"));
        return;
    };
    match (&exp, od, ol) {
        (Some(e), Ok(x), Ok(y)) => {
            if x != y {
                v(
                    format!("agree/sides-differ/{pairing}"),
                    format!("dialer reports {:?}, listener reports {:?}, expected both {:?}; {desc}", short(x), short(y), short(e)),
                );
            }
            if x != e || y != e {
                v(
                    format!("agree/wrong-protocol/{pairing}"),
                    format!(
                        "expected the dialer's most preferred supported protocol {:?}, dialer reports {:?}, listener reports {:?}; {desc}",
                        short(e), short(x), short(y)
                    ),
                );
            }
            if x == e && y == e {
                // transparency
                let mut cmp = |dir: Dir, sent: &[u8], got: &[u8], note: &Option<String>| {
                    if sent == got {
                        return;
                    }
                    let kind = if got.len() < sent.len() && sent.starts_with(got) {
                        "bytes-lost"
                    } else if got.len() < sent.len() {
                        "bytes-lost"
                    } else {
                        "bytes-differ"
                    };
                    let first_diff = sent.iter().zip(got.iter()).position(|(a, b)| a != b);
                    v(
                        format!("transparent/{kind}/{}/{pairing}", dir.name()),
                        format!(
                            "{} payload: {} B written right after negotiation, {} B received, first differing offset {:?}, sent[..8]={:02x?} got[..8]={:02x?}, reader note {:?}; {desc}",
                            dir.name(), sent.len(), got.len(), first_diff, &sent[..sent.len().min(8)], &got[..got.len().min(8)], note
                        ),
                    );
                };
                cmp(Dir::D2L, wp_d, &sl.received, &sl.recv_err);
                cmp(Dir::L2D, wp_l, &sd.received, &sd.recv_err);
                if !sd.extra.is_empty() {
                    v(
                        format!("transparent/extra-bytes/l2d/{pairing}"),
                        format!("dialer read {} unexpected byte(s) {:02x?} after the listener payload; {desc}", sd.extra.len(), &sd.extra[..sd.extra.len().min(8)]),
                    );
                }
                for d in Dir::ALL {
                    if buffered[d.idx()] != 0 {
                        v(
                            format!("transparent/bytes-left-unread/{}/{pairing}", d.name()),
                            format!("{} byte(s) remain unread in the {} pipe although both sides read to EOF; {desc}", buffered[d.idx()], d.name()),
                        );
                    }
                }
            }
        }
        (Some(e), Err(a), Err(b)) => v(
            format!("agree/spurious-failure/{pairing}/{ver}"),
            format!("both sides report failure (dialer: {a}; listener: {b}) although {:?} is supported by both; {desc}", short(e)),
        ),
        (None, Err(_), Err(_)) => {}
        (None, Ok(x), _) if case.ver == Ver::V1Lazy => v(
            format!("lazy/silent-success/{pairing}"),
            format!(
                "no common protocol, yet the lazy dialer finished its script (write/read/complete) successfully on {:?}; listener outcome {:?}; {desc}",
                short(x), ol
            ),
        ),
        (None, Ok(_), Ok(_)) | (None, Ok(_), Err(_)) | (None, Err(_), Ok(_)) => v(
            format!("agree/wrong-protocol/{pairing}"),
            format!("no common protocol, expected failure on both sides; dialer {:?}, listener {:?}; {desc}", od, ol),
        ),
        (Some(e), _, _) => v(
            format!("agree/sides-differ/{pairing}"),
            format!("expected both sides to report {:?}; dialer {:?}, listener {:?}; {desc}", short(e), od, ol),
        ),
    }
}

// ------------------------------------------------------------------------------------------------
// enumeration
// ------------------------------------------------------------------------------------------------

const U4: [&str; 4] = ["/a", "/b", "/ab", "/a/1"];
const BIG: usize = 70 * 1024;

fn strs(x: &[&str]) -> Vec<String> {
    x.iter().map(|s| s.to_string()).collect()
}

/// all ordered lists without repetition of length 1..=max_len over `names`
fn ordered_lists(names: &[&str], max_len: usize) -> Vec<Vec<String>> {
    let mut out = Vec::new();
    fn rec(names: &[&str], cur: &mut Vec<usize>, len: usize, out: &mut Vec<Vec<String>>) {
        if cur.len() == len {
            out.push(cur.iter().map(|&i| names[i].to_string()).collect());
            return;
        }
        for i in 0..names.len() {
            if !cur.contains(&i) {
                cur.push(i);
                rec(names, cur, len, out);
                cur.pop();
            }
        }
    }
    for len in 1..=max_len.min(names.len()) {
        rec(names, &mut Vec::new(), len, &mut out);
    }
    out
}

/// all subsets of `names`, each in ascending and (if different) descending order, smallest first
fn listener_sets(names: &[&str]) -> Vec<Vec<String>> {
    let mut out: Vec<Vec<String>> = Vec::new();
    for mask in 0u32..(1 << names.len()) {
        let mut s: Vec<String> = (0..names.len()).filter(|i| mask & (1 << i) != 0).map(|i| names[i].to_string()).collect();
        s.sort();
        out.push(s.clone());
        if s.len() > 1 {
            s.reverse();
            out.push(s);
        }
    }
    out.sort_by_key(|s| s.len());
    out
}

fn grid_pairs() -> Vec<(Vec<String>, Vec<String>)> {
    let mut out = Vec::new();
    let ls = listener_sets(&U4);
    for d in ordered_lists(&U4, 4) {
        for l in &ls {
            out.push((d.clone(), l.clone()));
        }
    }
    // long names: 100 B (1-byte length prefix), 126 B (frame 127 = largest 1-byte prefix), 127 B (frame 128 =
    // smallest 2-byte prefix), 300 B (2-byte prefix)
    let long_lists: Vec<Vec<String>> = vec![
        strs(&["<300>"]),
        strs(&["<100>"]),
        strs(&["<126>"]),
        strs(&["<127>"]),
        strs(&["<300>", "/a"]),
        strs(&["/b", "<300>"]),
        strs(&["<100>", "<300>", "/a"]),
        strs(&["<127>", "<126>"]),
    ];
    let mut long_sets = listener_sets(&["/a", "<100>", "<300>"]);
    long_sets.extend(listener_sets(&["<126>", "<127>"]).into_iter().filter(|s| !s.is_empty()));
    for d in long_lists {
        for l in &long_sets {
            out.push((d.clone(), l.clone()));
        }
    }
    out
}

/// the 12 pairs used for the expensive carrier dimensions
fn subset12() -> Vec<(Vec<String>, Vec<String>)> {
    vec![
        (strs(&["/a"]), strs(&["/a"])),
        (strs(&["/a"]), strs(&["/b"])),
        (strs(&["/a"]), strs(&[])),
        (strs(&["/a", "/b"]), strs(&["/b"])),
        (strs(&["/a", "/b", "/ab"]), strs(&["/ab"])),
        (strs(&["/a", "/b", "/ab"]), strs(&["/a/1"])),
        (strs(&["/ab", "/a"]), strs(&["/a", "/a/1"])),
        (strs(&["/a/1", "/ab", "/b"]), strs(&["/b", "/ab", "/a"])),
        (strs(&["<300>"]), strs(&["<300>"])),
        (strs(&["<100>", "<300>"]), strs(&["<300>"])),
        (strs(&["/b", "<300>"]), strs(&["/a"])),
        (strs(&["/a", "/b"]), strs(&["/a", "/a/1", "/ab", "/b"])),
    ]
}

#[derive(Clone, Copy, PartialEq, Eq, Debug)]
enum Expand {
    /// just the case
    One,
    /// the case with a short read ending at every offset 1..len of each direction
    Splits,
    /// every single spurious-Pending injection (direction x op kind x op index)
    Pending1,
    /// every single and every pair of injections
    Pending2,
}

struct Job {
    sub: &'static str,
    case: StreamCase,
    expand: Expand,
    /// record the last case of this job as an evidence sample
    want_sample: bool,
}

/// Per-worker accumulator (everything in it merges order-independently, except violations and samples which
/// carry their job index and are merged in job order).
#[derive(Default)]
struct Agg {
    evals: u64,
    hashes: Vec<u128>,
    nontrivial: Vec<u128>,
    /// signature -> (first job index, what, replay, occurrences)
    viols: BTreeMap<String, (usize, String, Value, u64)>,
    counters: BTreeMap<(&'static str, &'static str), u64>,
    samples: Vec<(usize, Value)>,
}

impl Agg {
    fn bump(&mut self, sub: &'static str, k: &'static str, n: u64) {
        *self.counters.entry((sub, k)).or_insert(0) += n;
    }
    fn account(&mut self, idx: usize, job: &Job, case: &StreamCase, out: &RunOut, last: bool) {
        let sub = job.sub;
        self.evals += 1;
        let h = case.hash();
        self.hashes.push(h);
        if out.proposals >= 2 || !case.carrier.is_default() {
            self.nontrivial.push(h);
        }
        self.bump(sub, "runs", 1);
        if case.expected().is_some() {
            self.bump(sub, "expected_agreement", 1);
        } else {
            self.bump(sub, "expected_failure", 1);
        }
        self.bump(sub, "runs_with_violation", (!out.viols.is_empty()) as u64);
        self.bump(sub, "injected_pendings", out.injected);
        self.bump(sub, "zero_rtt_payloads", out.zero_rtt as u64);
        self.bump(sub, "proposals_ge2", (out.proposals >= 2) as u64);
        self.bump(sub, "driver_steps", out.steps);
        let e = self.counters.entry((sub, "max_wire_bytes")).or_insert(0);
        *e = (*e).max((out.wire[0] + out.wire[1]) as u64);
        for (sig, what) in &out.viols {
            match self.viols.get_mut(sig) {
                Some(v) => v.3 += 1,
                None => {
                    self.viols.insert(sig.clone(), (idx, what.clone(), case.to_json(), 1));
                }
            }
        }
        if job.want_sample && last {
            self.samples.push((idx, json!({"sub": sub, "case": case.to_json(), "observed": out.summary})));
        }
    }
}

fn run_job(idx: usize, job: &Job, agg: &mut Agg) {
    let base = run_stream(&job.case);
    agg.account(idx, job, &job.case, &base, job.expand == Expand::One);
    match job.expand {
        Expand::One => {}
        Expand::Splits => {
            let total: u64 = Dir::ALL.iter().map(|d| (base.wire[d.idx()] as u64).saturating_sub(1)).sum();
            let mut n = 0;
            for d in Dir::ALL {
                for k in 1..base.wire[d.idx()] as u64 {
                    let mut c = job.case.clone();
                    c.carrier.split = Some((d, k));
                    let o = run_stream(&c);
                    n += 1;
                    agg.account(idx, job, &c, &o, n == total);
                }
            }
        }
        Expand::Pending1 | Expand::Pending2 => {
            // every operation the fault-free execution performed, plus one more index per kind (an injection
            // shifts later operations by one)
            let mut points = Vec::new();
            for d in Dir::ALL {
                for op in Op::ALL {
                    for i in 0..=base.ops[d.idx()][op.idx()] {
                        points.push((d, op, i));
                    }
                }
            }
            for (n, p) in points.iter().enumerate() {
                let mut c = job.case.clone();
                c.carrier.pending = vec![*p];
                let o = run_stream(&c);
                agg.account(idx, job, &c, &o, job.expand == Expand::Pending1 && n == points.len() / 2);
            }
            let pairs = if job.expand == Expand::Pending2 { points.len() } else { 0 };
            for i in 0..pairs {
                for j in i + 1..pairs {
                    let mut c = job.case.clone();
                    c.carrier.pending = vec![points[i], points[j]];
                    let o = run_stream(&c);
                    // sample a pair in the middle of the execution rather than the trailing flush indices
                    agg.account(idx, job, &c, &o, i == points.len() / 3 && j == 2 * points.len() / 3);
                }
            }
        }
    }
}

fn mk(d: &[String], l: &[String], ver: Ver, pairing: Pairing, carrier: Carrier, pay_d: usize, pay_l: usize) -> StreamCase {
    StreamCase { dialer: d.to_vec(), listener: l.to_vec(), ver, pairing, carrier, pay_d, pay_l, listener_first: false }
}

fn build_jobs(thorough: bool) -> Vec<Job> {
    let mut jobs = Vec::new();
    let grid = grid_pairs();
    let sub = subset12();
    let small: [(usize, usize); 6] = [(0, 0), (1, 0), (0, 1), (3, 0), (0, 3), (3, 3)];
    let big: [(usize, usize); 3] = [(BIG, 0), (0, BIG), (BIG, 3)];
    let carriers = [Carrier::whole(), Carrier::chunk1(), Carrier::write1(), Carrier::buffered()];
    let push_grid = |sub_name: &'static str, pairs: &[(Vec<String>, Vec<String>)], pays: &[(usize, usize)], jobs: &mut Vec<Job>| {
        for car in &carriers {
            for &(pd, pl) in pays {
                for (d, l) in pairs {
                    for ver in Ver::ALL {
                        for pairing in Pairing::ALL {
                            for listener_first in [false, true] {
                                let mut case = mk(d, l, ver, pairing, car.clone(), pd, pl);
                                case.listener_first = listener_first;
                                jobs.push(Job { sub: sub_name, case, expand: Expand::One, want_sample: false });
                            }
                        }
                    }
                }
            }
        }
    };
    // A. full grid x {whole, 1-byte reads, 1-byte write acceptance} x small payloads x both poll orders
    push_grid("grid", &grid, &small, &mut jobs);
    // B. 70 KiB payloads: thorough on the full grid, quick on the 12-pair subset
    if thorough {
        push_grid("grid_70k", &grid, &big, &mut jobs);
    } else {
        push_grid("subset_70k", &sub, &big, &mut jobs);
    }
    // C. a short read ending at every offset of each direction, for every pair of the grid
    for (pd, pl) in [(3, 0), (0, 3)] {
        for (d, l) in &grid {
            for ver in Ver::ALL {
                for pairing in Pairing::ALL {
                    jobs.push(Job { sub: "split_every_offset", case: mk(d, l, ver, pairing, Carrier::whole(), pd, pl), expand: Expand::Splits, want_sample: false });
                }
            }
        }
    }
    // D. spurious Pending. Bound 1 (every single injection) for every pair of the grid; bound 2 (every unordered
    // pair of injections) for the 12-pair subset at quick tier and for every pair of the grid at thorough tier.
    for (pd, pl) in [(3, 0), (0, 3)] {
        if !thorough {
            for (d, l) in &grid {
                for ver in Ver::ALL {
                    for pairing in Pairing::ALL {
                        jobs.push(Job { sub: "pending_1", case: mk(d, l, ver, pairing, Carrier::whole(), pd, pl), expand: Expand::Pending1, want_sample: false });
                    }
                }
            }
        }
        for (d, l) in if thorough { &grid } else { &sub } {
            for ver in Ver::ALL {
                for pairing in Pairing::ALL {
                    jobs.push(Job { sub: "pending_le2", case: mk(d, l, ver, pairing, Carrier::whole(), pd, pl), expand: Expand::Pending2, want_sample: false });
                }
            }
        }
    }
    // E. the same single injections on a carrier that only delivers what has been flushed: a flush answered with
    // Pending must be resumed, or the frames never leave
    for (pd, pl) in [(3, 0), (0, 3)] {
        for (d, l) in if thorough { &grid } else { &sub } {
            for ver in Ver::ALL {
                for pairing in Pairing::ALL {
                    jobs.push(Job { sub: "pending_1_buffering_carrier", case: mk(d, l, ver, pairing, Carrier::buffered(), pd, pl), expand: Expand::Pending1, want_sample: false });
                }
            }
        }
    }
    // simplest first (stable within equal keys)
    jobs.sort_by_cached_key(|j| {
        let c = &j.case;
        (
            match j.expand {
                Expand::One => 0,
                Expand::Splits => 1,
                Expand::Pending1 => 2,
                Expand::Pending2 => 3,
            },
            c.carrier.read_chunk.is_some() as u8 + 2 * c.carrier.write_accept.is_some() as u8,
            c.pay_d + c.pay_l,
            c.listener_first,
            c.dialer.iter().map(|n| expand_name(n).len()).sum::<usize>() + c.listener.iter().map(|n| expand_name(n).len()).sum::<usize>(),
            c.dialer.len(),
            c.listener.len(),
            c.ver,
            c.pairing,
        )
    });
    // one or two samples per sub-check: one third into and at the end of its (simplest-first) job list
    let mut by_sub: BTreeMap<&'static str, Vec<usize>> = BTreeMap::new();
    for (i, j) in jobs.iter().enumerate() {
        by_sub.entry(j.sub).or_default().push(i);
    }
    for (sub, idxs) in by_sub {
        if !matches!(sub, "pending_1" | "subset_70k" | "grid_70k") {
            jobs[idxs[idxs.len() / 3]].want_sample = true;
        }
        jobs[idxs[idxs.len() - 1]].want_sample = true;
    }
    jobs
}

fn run_jobs(jobs: &[Job]) -> Vec<Agg> {
    let n_threads = std::thread::available_parallelism().map(|n| n.get()).unwrap_or(4).min(32);
    let next = AtomicUsize::new(0);
    let results: Mutex<Vec<Agg>> = Mutex::new(Vec::new());
    std::thread::scope(|s| {
        for _ in 0..n_threads {
            s.spawn(|| {
                let mut agg = Agg::default();
                agg.hashes.reserve(1 << 16);
                agg.nontrivial.reserve(1 << 16);
                loop {
                    // small batches keep the shared counter cold
                    let start = next.fetch_add(8, Ordering::SeqCst);
                    if start >= jobs.len() {
                        break;
                    }
                    for i in start..(start + 8).min(jobs.len()) {
                        run_job(i, &jobs[i], &mut agg);
                    }
                }
                results.lock().push(agg);
            });
        }
    });
    results.into_inner()
}

// ------------------------------------------------------------------------------------------------
// message based variant (WebRTC style)
// ------------------------------------------------------------------------------------------------

#[derive(Clone, Debug)]
struct MsgCase {
    main: String,
    fallbacks: Vec<String>,
    listener: Vec<String>,
    /// deliver a dialer payload that holds header + proposal as two payloads
    split_d2l: bool,
    /// deliver a listener payload that holds header + answer as two payloads
    split_l2d: bool,
    /// application bytes appended to the payload that carries the confirmation
    trailing: usize,
}

impl MsgCase {
    fn to_json(&self) -> Value {
        json!({"kind": "webrtc", "main": self.main, "fallbacks": self.fallbacks, "listener": self.listener,
               "split_d2l": self.split_d2l, "split_l2d": self.split_l2d, "trailing": self.trailing})
    }
    fn from_json(v: &Value) -> Self {
        let strs = |x: &Value| -> Vec<String> {
            x.as_array().map(|a| a.iter().filter_map(|s| s.as_str().map(String::from)).collect()).unwrap_or_default()
        };
        MsgCase {
            main: v["main"].as_str().unwrap_or("").to_string(),
            fallbacks: strs(&v["fallbacks"]),
            listener: strs(&v["listener"]),
            split_d2l: v["split_d2l"].as_bool().unwrap_or(false),
            split_l2d: v["split_l2d"].as_bool().unwrap_or(false),
            trailing: v["trailing"].as_u64().unwrap_or(0) as usize,
        }
    }
}

/// split a payload holding >= 2 frames after its first frame
fn group(payload: Vec<u8>, split: bool) -> Vec<Vec<u8>> {
    if split {
        if let Ok((len, tail)) = unsigned_varint::decode::usize(&payload) {
            let first = payload.len() - tail.len() + len;
            if len <= tail.len() && first < payload.len() {
                return vec![payload[..first].to_vec(), payload[first..].to_vec()];
            }
        }
    }
    vec![payload]
}

const TRAILING: [u8; 4] = [0xde, 0xad, 0xbe, 0xef];

struct MsgOut {
    viols: Vec<(String, String)>,
    rounds: usize,
    split_effective: bool,
    summary: String,
}

fn run_msg(case: &MsgCase) -> MsgOut {
    match catch_unwind(AssertUnwindSafe(|| run_msg_inner(case))) {
        Ok(o) => o,
        Err(_) => {
            let msg = normalize_panic(&e1::take_panic());
            MsgOut {
                viols: vec![(format!("panic/{}", e1::panic_site(&msg)), format!("panic `{msg}` in message-based negotiation {}", case.to_json()))],
                rounds: 0,
                split_effective: false,
                summary: format!("panic {msg}"),
            }
        }
    }
}

fn run_msg_inner(case: &MsgCase) -> MsgOut {
    let mut viols: Vec<(String, String)> = Vec::new();
    let desc = case.to_json().to_string();
    let names: Vec<String> = std::iter::once(&case.main).chain(case.fallbacks.iter()).map(|n| expand_name(n)).collect();
    let supported: Vec<ProtocolName> = case.listener.iter().map(|n| ProtocolName::from(expand_name(n))).collect();
    let expected = names.iter().find(|n| case.listener.iter().any(|l| &expand_name(l) == *n)).cloned();

    let (mut st, first) = match lv::WebRtcDialerState::propose(
        ProtocolName::from(names[0].clone()),
        names[1..].iter().map(|n| ProtocolName::from(n.clone())).collect(),
    ) {
        Ok(x) => x,
        Err(e) => {
            viols.push(("webrtc/propose-error".into(), format!("propose failed: {e:?}; {desc}")));
            return MsgOut { viols, rounds: 0, split_effective: false, summary: "propose error".into() };
        }
    };
    let mut to_listener: VecDeque<Vec<u8>> = VecDeque::new();
    let mut to_dialer: VecDeque<Vec<u8>> = VecDeque::new();
    let g = group(first, case.split_d2l);
    let mut split_effective = g.len() > 1;
    to_listener.extend(g);
    let mut header_received = false;
    let mut listener_accepted: Option<String> = None;
    let mut dialer_result: Option<Result<String, String>> = None;
    let mut trailing_dropped = false;
    let mut rounds = 0;
    while (!to_listener.is_empty() || !to_dialer.is_empty()) && rounds < 64 {
        rounds += 1;
        while let Some(p) = to_listener.pop_front() {
            if listener_accepted.is_some() {
                viols.push(("webrtc/message-after-accept".into(), format!("dialer kept proposing after the listener accepted; {desc}")));
                break;
            }
            match lv::webrtc_listener_negotiate(supported.clone(), Bytes::from(p), header_received) {
                Ok(lv::ListenerSelectResult::Accepted { protocol, message }) => {
                    listener_accepted = Some(protocol.to_string());
                    let mut parts = group(message.to_vec(), case.split_l2d);
                    split_effective |= parts.len() > 1;
                    parts.last_mut().unwrap().extend_from_slice(&TRAILING[..case.trailing]);
                    to_dialer.extend(parts);
                }
                Ok(lv::ListenerSelectResult::Rejected { message }) => {
                    header_received = true;
                    let parts = group(message.to_vec(), case.split_l2d);
                    split_effective |= parts.len() > 1;
                    to_dialer.extend(parts);
                }
                Ok(lv::ListenerSelectResult::PendingProtocol { message }) => {
                    header_received = true;
                    to_dialer.push_back(message.to_vec());
                }
                Err(e) => {
                    viols.push(("webrtc/listener-error".into(), format!("listener rejected an honest dialer message: {e:?}; {desc}")));
                    to_listener.clear();
                }
            }
        }
        while let Some(p) = to_dialer.pop_front() {
            if dialer_result.is_some() {
                break;
            }
            let carries_trailing = case.trailing > 0 && p.ends_with(&TRAILING[..case.trailing]);
            match st.register_response(p) {
                Ok(lv::HandshakeResult::NotReady) => {}
                Ok(lv::HandshakeResult::Succeeded(name)) => {
                    // `Succeeded` carries only the name and `WebRtcDialerState` has no accessor for unparsed bytes
                    trailing_dropped = carries_trailing;
                    dialer_result = Some(Ok(name.to_string()));
                }
                Ok(lv::HandshakeResult::Rejected) => match st.propose_next_fallback() {
                    Ok(Some(m)) => to_listener.push_back(m),
                    Ok(None) => dialer_result = Some(Err("all proposals rejected".into())),
                    Err(e) => dialer_result = Some(Err(format!("propose_next_fallback: {e:?}"))),
                },
                Err(e) => dialer_result = Some(Err(format!("register_response: {e:?}"))),
            }
        }
    }
    let summary = format!("dialer={dialer_result:?} listener_accepted={listener_accepted:?} rounds={rounds}");
    match (&expected, &dialer_result, &listener_accepted) {
        (Some(e), Some(Ok(x)), Some(y)) => {
            if x != y {
                viols.push(("webrtc/sides-differ".into(), format!("dialer {:?} vs listener {:?}; {desc}", short(x), short(y))));
            }
            if x != e || y != e {
                viols.push((
                    "webrtc/wrong-protocol".into(),
                    format!("expected {:?} (dialer's most preferred supported), dialer {:?}, listener {:?}; {desc}", short(e), short(x), short(y)),
                ));
            }
            if trailing_dropped {
                viols.push((
                    "webrtc/trailing-bytes-dropped".into(),
                    format!(
                        "the payload carrying the confirmation of {:?} also carried {} application byte(s) {:02x?}; `register_response` returned `Succeeded(name)` and the bytes are gone: the result carries only the name and `WebRtcDialerState` offers no accessor for the unparsed remainder (the code logs a warning and discards them); {desc}",
                        short(e), case.trailing, &TRAILING[..case.trailing]
                    ),
                ));
            }
        }
        (None, Some(Err(_)), None) => {}
        (None, None, None) => viols.push(("webrtc/no-result".into(), format!("negotiation ran out of messages without a dialer result; {desc}"))),
        (e, d, l) => viols.push((
            "webrtc/agreement".into(),
            format!("expected {:?}; dialer result {:?}, listener accepted {:?}; {desc}", e.as_deref().map(short), d, l.as_deref().map(short)),
        )),
    }
    MsgOut { viols, rounds, split_effective, summary }
}

fn frame(body: &[u8]) -> Vec<u8> {
    let mut b = unsigned_varint::encode::usize_buffer();
    let mut out = unsigned_varint::encode::usize(body.len(), &mut b).to_vec();
    out.extend_from_slice(body);
    out
}

/// A confirmation for a name that is NOT the current proposal must never make the dialer report success.
/// `stage` = number of rejections (and `propose_next_fallback` calls) before the bogus confirmation arrives.
fn run_unproposed(names: &[String], stage: usize, bogus: &str, with_header: bool) -> Result<String, (String, String)> {
    let desc = json!({"kind": "webrtc-unproposed", "names": names, "stage": stage, "bogus": bogus, "header_in_same_payload": with_header});
    let r = catch_unwind(AssertUnwindSafe(|| {
        let (mut st, _) = lv::WebRtcDialerState::propose(
            ProtocolName::from(expand_name(&names[0])),
            names[1..].iter().map(|n| ProtocolName::from(expand_name(n))).collect(),
        )
        .map_err(|e| format!("propose: {e:?}"))?;
        let header = frame(b"/multistream/1.0.0\n");
        let na = frame(b"na\n");
        let mut header_sent = false;
        for _ in 0..stage {
            let mut p = Vec::new();
            if !header_sent {
                p.extend_from_slice(&header);
                header_sent = true;
            }
            p.extend_from_slice(&na);
            match st.register_response(p) {
                Ok(lv::HandshakeResult::Rejected) => {}
                o => return Err(format!("setup: expected Rejected, got {o:?}")),
            }
            match st.propose_next_fallback() {
                Ok(Some(_)) => {}
                o => return Err(format!("setup: expected a fallback, got {o:?}")),
            }
        }
        let mut p = Vec::new();
        if !header_sent {
            if with_header {
                p.extend_from_slice(&header);
            } else {
                match st.register_response(header.clone()) {
                    Ok(lv::HandshakeResult::NotReady) => {}
                    o => return Err(format!("setup: expected NotReady after header, got {o:?}")),
                }
            }
        }
        let mut body = expand_name(bogus).into_bytes();
        body.push(b'\n');
        p.extend_from_slice(&frame(&body));
        Ok(format!("{:?}", st.register_response(p)))
    }));
    match r {
        Err(_) => {
            let msg = normalize_panic(&e1::take_panic());
            Err((format!("panic/{}", e1::panic_site(&msg)), format!("panic `{msg}`; {desc}")))
        }
        Ok(Err(e)) => Err(("webrtc/unproposed-setup".into(), format!("{e}; {desc}"))),
        Ok(Ok(res)) if res.contains("Succeeded") => Err((
            "webrtc/unproposed-accepted".into(),
            format!(
                "dialer currently proposes {:?} but accepted a confirmation for {:?}: {res}; {desc}",
                names[stage], bogus
            ),
        )),
        Ok(Ok(res)) => Ok(res),
    }
}

// ------------------------------------------------------------------------------------------------
// run / replay
// ------------------------------------------------------------------------------------------------

pub fn run(ctx: &mut Ctx) {
    let thorough = ctx.tier == crate::report::Tier::Thorough;
    let mut all: HashSet<u128> = HashSet::new();
    let mut nontrivial: HashSet<u128> = HashSet::new();

    // ---- stream based ----
    let jobs = build_jobs(thorough);
    let aggs = run_jobs(&jobs);
    let mut counters: BTreeMap<(&'static str, &'static str), u64> = BTreeMap::new();
    let mut evals = 0u64;
    let mut viols: BTreeMap<String, (usize, String, Value, u64)> = BTreeMap::new();
    let mut samples: Vec<(usize, Value)> = Vec::new();
    for agg in aggs {
        evals += agg.evals;
        all.extend(agg.hashes.iter().copied());
        nontrivial.extend(agg.nontrivial.iter().copied());
        for (k, n) in agg.counters {
            let e = counters.entry(k).or_insert(0);
            if k.1 == "max_wire_bytes" {
                *e = (*e).max(n);
            } else {
                *e += n;
            }
        }
        for (sig, (idx, what, replay, n)) in agg.viols {
            match viols.get_mut(&sig) {
                Some(v) => {
                    v.3 += n;
                    if idx < v.0 {
                        v.0 = idx;
                        v.1 = what;
                        v.2 = replay;
                    }
                }
                None => {
                    viols.insert(sig, (idx, what, replay, n));
                }
            }
        }
        samples.extend(agg.samples);
    }
    for (sig, (_, what, replay, n)) in viols {
        ctx.violation(Violation { signature: sig.clone(), what, replay });
        if let Some(v) = ctx.violations.get_mut(&sig) {
            v.1 += n - 1;
        }
    }
    samples.sort_by_key(|(i, _)| *i);
    for (_, s) in samples {
        ctx.sample(s);
    }
    let mut subs: BTreeMap<&'static str, serde_json::Map<String, Value>> = BTreeMap::new();
    for ((sub, key), n) in &counters {
        subs.entry(sub).or_default().insert(key.to_string(), json!(n));
    }
    for (sub, m) in subs {
        ctx.sub(sub, Value::Object(m));
    }
    ctx.cov("stream_jobs", jobs.len() as u64);

    // ---- the listener hangs up right after its answer (lazy dialer) ----
    {
        let mut n = 0u64;
        for lite_listener in [true, false] {
            for pay_d in [0usize, 3] {
                for listener_first in [false, true] {
                    n += 1;
                    for (sig, what) in run_hangup(lite_listener, pay_d, listener_first) {
                        ctx.violation(Violation { signature: sig, what, replay: json!({"kind": "hangup", "lite_listener": lite_listener, "payload_dialer": pay_d, "listener_first": listener_first}) });
                    }
                }
            }
        }
        evals += n;
        ctx.sub("listener_hangs_up_after_answer", json!({"runs": n}));
    }

    // ---- a conforming dialer that does not pipeline (header alone, then one proposal at a time) ----
    {
        let mut n = 0u64;
        let lists = ordered_lists(&U4, if thorough { 4 } else { 3 });
        let sets = listener_sets(&U4);
        let mut agreed = 0u64;
        for list in &lists {
            for set in &sets {
                for listener_first in [false, true] {
                    n += 1;
                    if list.iter().any(|x| set.contains(x)) {
                        agreed += 1;
                    }
                    for (sig, what) in run_stepwise_dialer(list, set, listener_first) {
                        ctx.violation(Violation { signature: sig, what, replay: json!({"kind": "stepwise-dialer", "dialer": list, "listener": set, "listener_first": listener_first}) });
                    }
                }
            }
        }
        evals += n;
        ctx.sub("stepwise_dialer_vs_litep2p_listener", json!({"runs": n, "with_intersection": agreed, "dialer_lists": lists.len(), "listener_sets": sets.len()}));
    }

    // ---- the dialer's first operation on the negotiated stream is a vectored write ----
    {
        let mut n = 0u64;
        for ver in Ver::ALL {
            for lite_listener in [true, false] {
                for listener_first in [false, true] {
                    n += 1;
                    for (sig, what) in run_vectored_first(ver, lite_listener, listener_first) {
                        ctx.violation(Violation { signature: sig, what, replay: json!({"kind": "vectored-first-write", "version": ver.name(), "lite_listener": lite_listener, "listener_first": listener_first}) });
                    }
                }
            }
        }
        evals += n;
        ctx.sub("vectored_first_write", json!({"runs": n}));
    }

    // ---- message based ----
    let mut msg_runs = 0u64;
    let mut msg_nontrivial = 0u64;
    let mut msg_trailing_dropped = 0u64;
    let mut msg_sample: Vec<Value> = Vec::new();
    let msg_names: &[&str] = if thorough { &["/a", "/b", "/ab", "/a/1", "<300>"] } else { &U4 };
    // main + up to 3 (quick) / 4 (thorough) fallbacks: the order in which fallbacks are proposed only shows from the
    // third fallback on
    let msg_lists = ordered_lists(msg_names, if thorough { 5 } else { 4 });
    let msg_sets = listener_sets(msg_names);
    for list in &msg_lists {
        for set in &msg_sets {
            for (sd, sl) in [(false, false), (true, false), (false, true), (true, true)] {
                for trailing in [0usize, 4] {
                    let c = MsgCase {
                        main: list[0].clone(),
                        fallbacks: list[1..].to_vec(),
                        listener: set.clone(),
                        split_d2l: sd,
                        split_l2d: sl,
                        trailing,
                    };
                    let o = run_msg(&c);
                    msg_runs += 1;
                    let h = e1::hash128(c.to_json().to_string().as_bytes());
                    all.insert(h);
                    if o.rounds >= 2 || o.split_effective {
                        nontrivial.insert(h);
                        msg_nontrivial += 1;
                    }
                    if msg_sample.len() < 2 && (msg_runs == 1 || (o.rounds >= 3 && trailing == 0 && sd && sl)) {
                        msg_sample.push(json!({"sub": "webrtc", "case": c.to_json(), "observed": o.summary}));
                    }
                    for (sig, what) in o.viols {
                        if sig == "webrtc/trailing-bytes-dropped" {
                            msg_trailing_dropped += 1;
                        }
                        ctx.violation(Violation { signature: sig, what, replay: c.to_json() });
                    }
                }
            }
        }
    }
    for s in msg_sample {
        ctx.sample(s);
    }
    ctx.sub(
        "webrtc",
        json!({"runs": msg_runs, "multi_round_or_regrouped": msg_nontrivial, "dialer_lists": msg_lists.len(), "listener_sets": msg_sets.len(),
               "groupings": 4, "trailing_variants": 2, "runs_where_trailing_bytes_were_dropped": msg_trailing_dropped}),
    );
    // bogus confirmations
    let mut unproposed_runs = 0u64;
    for list in &msg_lists {
        for stage in 0..list.len() {
            for bogus in msg_names.iter().chain(["/multistream/1.0.0x"].iter()) {
                if *bogus == list[stage] {
                    continue;
                }
                for with_header in [true, false] {
                    if stage > 0 && !with_header {
                        continue;
                    }
                    unproposed_runs += 1;
                    let replay = json!({"kind": "webrtc-unproposed", "names": list, "stage": stage, "bogus": bogus, "with_header": with_header});
                    all.insert(e1::hash128(replay.to_string().as_bytes()));
                    if let Err((sig, what)) = run_unproposed(list, stage, bogus, with_header) {
                        ctx.violation(Violation { signature: sig, what, replay });
                    }
                }
            }
        }
    }
    ctx.sub("webrtc_unproposed_confirmation", json!({"runs": unproposed_runs}));
    // informational probe (no oracle): application bytes pipelined by the DIALER in the same payload as its proposal
    {
        let mut p = frame(b"/multistream/1.0.0\n");
        p.extend_from_slice(&frame(b"/a\n"));
        p.extend_from_slice(&TRAILING);
        let r = catch_unwind(AssertUnwindSafe(|| {
            format!("{:?}", lv::webrtc_listener_negotiate(vec![ProtocolName::from("/a")], Bytes::from(p), false))
        }))
        .unwrap_or_else(|_| format!("panic {}", normalize_panic(&e1::take_panic())));
        ctx.sub(
            "webrtc_dialer_side_trailing_probe",
            json!({"input": "header + proposal '/a' + 4 application bytes in one payload, listener supports '/a'", "listener_result": r,
                   "note": "informational only: an explicit error is not a silent loss"}),
        );
    }
    evals += msg_runs + unproposed_runs;

    // ---- fallback mapping ----
    fallback_mapping(ctx, &mut evals, &mut all);

    ctx.cov_add("evaluations", evals);
    ctx.cov("distinct_cases", all.len() as u64);
    ctx.cov("distinct_nontrivial", nontrivial.len() as u64);
    ctx.cov("exhaustive", true);
    ctx.cov("deviation_bound_completed", json!({
        "short_read_at_one_offset": "all offsets of both directions",
        "spurious_pending_single": "all (direction x read/write/flush x op index) of the fault-free execution, +1 index",
        "spurious_pending_pairs": "all unordered pairs of those points",
        "short_read_and_single_pending_set": "full grid of (dialer list, listener set) pairs x versions x pairings x payload {dialer 3 B, listener 3 B}",
        "pending_pairs_set": if thorough { "full grid of (dialer list, listener set) pairs" } else { "the 12-pair subset" },
        "all_reads_1_byte": true,
        "all_writes_accept_1_byte": true,
    }));
    ctx.cov(
        "rule",
        "every element of the stated grid is executed once (no sampling): dialer lists = all ordered lists w/o repetition of length 1..3 over {/a,/b,/ab,/a/1} (40) + 8 lists with 100/126/127/300-byte names; listener sets = all 16 subsets in ascending and descending order (+ subsets of the long names); versions {V1,V1Lazy}; pairings {lite-lite, lite-ref, ref-lite}; carriers and payloads per sub-check (see sub_checks). A case is counted in distinct_nontrivial iff the dialer->listener wire carried >= 2 protocol proposals or the carrier deviates from the default (1-byte reads, 1-byte write acceptance, a short read at an offset, injected Pending); message-based cases count iff they needed >= 2 rounds or a payload was regrouped.",
    );
    ctx.assume("Scheduling: the two tasks are polled round-robin by the deterministic driver, in both orders (dialer first / listener first) for the grid sub-checks and dialer first for the deviation sub-checks; further interleavings are explored only through the injected Pending / short-read deviations.");
    ctx.assume("Flow control is unbounded (window = usize::MAX): with a bounded window an application that writes 70 KiB before reading can deadlock by its own design, which is not a negotiation property.");
    ctx.assume("A side 'reports failure' iff its select future, a later read, or Negotiated::complete() returned an error; any error kind counts as failure (the statement does not prescribe the kind).");
    ctx.assume("V1Lazy with no common protocol: the dialer payloads were chosen so that the listener cannot mistake them for a proposal of a protocol it supports (the documented V1Lazy pitfall of payloads that look like multistream frames is out of scope); they do look like framing (length prefixes, '/\\n', 'na') to catch re-interpretation after a successful negotiation.");
    ctx.assume("A flush alone on a lazy Negotiated does not read the peer's answer in either implementation; failure of an optimistic proposal is therefore required to surface on the first read or on complete(), which the script always performs.");
    ctx.assume("Reference = crates.io multistream-select 0.13.0 (rust-libp2p), used unmodified in either role.");
}

pub fn replay(case: &Value) -> Result<String, String> {
    match case["kind"].as_str().unwrap_or("stream") {
        "stream" => {
            let c = StreamCase::from_json(case).map_err(|e| format!("bad case: {e}"))?;
            let o = run_stream(&c);
            let mut log = format!("{}\nexpected protocol: {:?}\nobserved: {}\n", describe(&c), c.expected().as_deref().map(short), o.summary);
            for (sig, what) in &o.viols {
                log.push_str(&format!("VIOLATION [{sig}] {what}\n"));
            }
            if o.viols.is_empty() {
                Ok(log)
            } else {
                Err(log)
            }
        }
        "webrtc" => {
            let c = MsgCase::from_json(case);
            let o = run_msg(&c);
            let mut log = format!("{}\nobserved: {}\n", c.to_json(), o.summary);
            for (sig, what) in &o.viols {
                log.push_str(&format!("VIOLATION [{sig}] {what}\n"));
            }
            if o.viols.is_empty() {
                Ok(log)
            } else {
                Err(log)
            }
        }
        "webrtc-unproposed" => {
            let names: Vec<String> =
                case["names"].as_array().map(|a| a.iter().filter_map(|s| s.as_str().map(String::from)).collect()).unwrap_or_default();
            let stage = case["stage"].as_u64().unwrap_or(0) as usize;
            let bogus = case["bogus"].as_str().unwrap_or("");
            let with_header = case["with_header"].as_bool().unwrap_or(true);
            match run_unproposed(&names, stage, bogus, with_header) {
                Ok(r) => Ok(format!("bogus confirmation answered with {r}")),
                Err((sig, what)) => Err(format!("VIOLATION [{sig}] {what}")),
            }
        }
        "fallback-map" => replay_fallback(case),
        "stepwise-dialer" => {
            let list: Vec<String> = case["dialer"].as_array().map(|a| a.iter().filter_map(|x| x.as_str().map(String::from)).collect()).unwrap_or_default();
            let set: Vec<String> = case["listener"].as_array().map(|a| a.iter().filter_map(|x| x.as_str().map(String::from)).collect()).unwrap_or_default();
            let v = run_stepwise_dialer(&list, &set, case["listener_first"].as_bool().unwrap_or(false));
            if v.is_empty() {
                Ok("both sides ended with the expected outcome".into())
            } else {
                Err(v.iter().map(|(s, w)| format!("VIOLATION [{s}] {w}")).collect::<Vec<_>>().join("\n"))
            }
        }
        "vectored-first-write" => {
            let ver = case["version"].as_str().and_then(Ver::parse).unwrap_or(Ver::V1Lazy);
            let v = run_vectored_first(ver, case["lite_listener"].as_bool().unwrap_or(true), case["listener_first"].as_bool().unwrap_or(false));
            if v.is_empty() {
                Ok("both sides agreed and exchanged their payloads".into())
            } else {
                Err(v.iter().map(|(s, w)| format!("VIOLATION [{s}] {w}")).collect::<Vec<_>>().join("\n"))
            }
        }
        "hangup" => {
            let v = run_hangup(
                case["lite_listener"].as_bool().unwrap_or(true),
                case["payload_dialer"].as_u64().unwrap_or(0) as usize,
                case["listener_first"].as_bool().unwrap_or(false),
            );
            if v.is_empty() {
                Ok("the dialer got the negotiated protocol and the whole answer".into())
            } else {
                Err(v.iter().map(|(s, w)| format!("VIOLATION [{s}] {w}")).collect::<Vec<_>>().join("\n"))
            }
        }
        k => Err(format!("unknown case kind {k}")),
    }
}

// ------------------------------------------------------------------------------------------------
// fallback mapping (ProtocolSet::report_substream_open)
// ------------------------------------------------------------------------------------------------

/// Negotiate for real (lite dialer offering `[main, fallbacks..]` against a lite listener supporting exactly
/// `negotiate_with`), wrap a real yamux stream into a TCP `Substream`, and ask the real
/// `ProtocolSet::report_substream_open` what it tells the protocol handler.
fn run_fallback(list: &[String], supported: &str) -> Result<String, (String, String)> {
    let desc = json!({"kind": "fallback-map", "names": list, "supported": supported});
    let r = catch_unwind(AssertUnwindSafe(|| -> Result<(String, String, Option<String>), String> {
        // 1. real negotiation decides the name
        let c = StreamCase {
            dialer: list.to_vec(),
            listener: vec![supported.to_string()],
            ver: Ver::V1,
            pairing: Pairing::LiteLite,
            carrier: Carrier::whole(),
            pay_d: 0,
            pay_l: 0,
            listener_first: false,
        };
        let rt = driver::runtime(1);
        let names: Vec<String> = list.iter().map(|n| expand_name(n)).collect();
        let sup = expand_name(supported);
        let negotiated: String = rt.block_on(async {
            let (a, b, _h1, _h2) = pipe::duplex(c.carrier.policy(Dir::D2L), c.carrier.policy(Dir::L2D));
            let got: Arc<Mutex<Option<Result<String, String>>>> = Arc::new(Mutex::new(None));
            let g = got.clone();
            let mut d = driver::Driver::new();
            let dn = names.clone();
            d.spawn("dialer", async move {
                let r = lv::dialer_select_proto(a, dn, lv::Version::V1).await.map(|(n, _)| n).map_err(|e| err_lite(&e));
                *g.lock() = Some(r);
            });
            d.spawn("listener", async move {
                let _ = lv::listener_select_proto(b, vec![sup]).await;
            });
            d.run_until_stalled(STEP_CAP);
            let r = got.lock().clone();
            r.ok_or_else(|| "negotiation hung".to_string())?
        })?;
        // 2. a real substream + the real ProtocolSet
        let (protocol, fallback) = rt.block_on(async {
            let (a, _b, _h1, _h2) = pipe::duplex(pipe::Policy::default(), pipe::Policy::default());
            let mut conn = litep2p::yamux::Connection::new(a, litep2p::yamux::Config::default(), litep2p::yamux::Mode::Client);
            let stream =
                futures::future::poll_fn(|cx| conn.poll_new_outbound(cx)).await.map_err(|e| format!("yamux open: {e:?}"))?;
            let peer = crate::util::peer(1);
            let sub = lv::tcp_substream(
                peer,
                litep2p::types::SubstreamId::from(0usize),
                stream,
                litep2p::codec::ProtocolCodec::Identity(32),
            );
            lv::report_substream_open_names(
                peer,
                ProtocolName::from(names[0].clone()),
                names[1..].iter().map(|n| ProtocolName::from(n.clone())).collect(),
                ProtocolName::from(negotiated.clone()),
                sub,
            )
            .await
            .map_err(|e| format!("report_substream_open: {e:?}"))
        })?;
        Ok((negotiated, protocol.to_string(), fallback.map(|f| f.to_string())))
    }));
    match r {
        Err(_) => {
            let msg = normalize_panic(&e1::take_panic());
            Err((format!("panic/{}", e1::panic_site(&msg)), format!("panic `{msg}`; {desc}")))
        }
        Ok(Err(e)) => Err((
            "fallback/negotiation-or-report-failed".into(),
            format!("negotiating {sup:?} (offered by the dialer, supported by the listener) and reporting it failed: {e}; {desc}", sup = supported),
        )),
        Ok(Ok((negotiated, protocol, fallback))) => {
            let main = expand_name(&list[0]);
            let sup = expand_name(supported);
            let want_fb = if sup == main { None } else { Some(sup.clone()) };
            if negotiated != sup {
                return Err(("fallback/negotiated-name".into(), format!("negotiated {negotiated:?}, expected {sup:?}; {desc}")));
            }
            if protocol != main || fallback != want_fb {
                return Err((
                    "fallback/wrong-mapping".into(),
                    format!(
                        "substream negotiated as {negotiated:?} was reported to the protocol as ({protocol:?}, {fallback:?}), expected ({main:?}, {want_fb:?}); {desc}"
                    ),
                ));
            }
            Ok(format!("negotiated {negotiated:?} -> reported ({protocol:?}, {fallback:?})"))
        }
    }
}

fn fallback_mapping(ctx: &mut Ctx, evals: &mut u64, all: &mut HashSet<u128>) {
    let mut runs = 0u64;
    let mut via_fallback = 0u64;
    let mut sample = None;
    for list in ordered_lists(&["/a", "/b", "/ab", "/a/1", "<300>"], 3) {
        for supported in &list {
            let replay = json!({"kind": "fallback-map", "names": list, "supported": supported});
            all.insert(e1::hash128(replay.to_string().as_bytes()));
            runs += 1;
            via_fallback += (supported != &list[0]) as u64;
            match run_fallback(&list, supported) {
                Ok(log) => {
                    if supported != &list[0] && sample.is_none() {
                        sample = Some(json!({"sub": "fallback_mapping", "case": replay, "observed": log}));
                    }
                }
                Err((sig, what)) => ctx.violation(Violation { signature: sig, what, replay }),
            }
        }
    }
    if let Some(s) = sample {
        ctx.sample(s);
    }
    *evals += runs;
    ctx.sub("fallback_mapping", json!({"runs": runs, "negotiated_under_a_fallback_name": via_fallback}));
    ctx.assume("Fallback mapping: ProtocolSet::report_substream_open is driven through the cfg hook `verif::report_substream_open_names` with one installed protocol (main + <= 2 fallbacks) and a real yamux-backed TCP substream; the name fed in is the one the real V1 negotiation produced.");
}

fn replay_fallback(case: &Value) -> Result<String, String> {
    let names: Vec<String> =
        case["names"].as_array().map(|a| a.iter().filter_map(|s| s.as_str().map(String::from)).collect()).unwrap_or_default();
    let supported = case["supported"].as_str().unwrap_or("");
    run_fallback(&names, supported).map_err(|(sig, what)| format!("VIOLATION [{sig}] {what}"))
}
