//! C15 — iterative Kademlia lookups terminate with the closest responsive peers.
//!
//! E1 explicit-state exploration of the real `QueryEngine`: the harness is the network. After every event the
//! engine is drained (`next_action()` until `None`); every in-flight peer can then answer with *any* list of at
//! most two peers out of universe ∪ {local, itself} (an adaptive adversary: covers every fixed topology and
//! every lying peer), answer with a message of the wrong kind, or fail; the virtual clock can jump past the
//! slow-peer threshold. Monitors run on every transition.

use crate::{
    mc::e1::{self, Explorer, Model, Step, Viol},
    report::Ctx,
    util,
};
use litep2p::{
    protocol::libp2p::kademlia::{
        verif::{self as kad, ConnectionType, KademliaMessage, KademliaPeer, QueryAction, QueryEngine},
        ContentProvider, QueryId, Quorum, Record, RecordKey,
    },
    verif::clock,
    PeerId,
};
use serde::{Deserialize, Serialize};
use serde_json::{json, Value};
use std::{
    collections::{BTreeMap, BTreeSet, VecDeque},
    num::NonZeroUsize,
    time::Duration,
};

const LOCAL: u8 = 0;
const QID: QueryId = QueryId(7);

#[derive(Clone, Copy, Debug, Serialize, Deserialize, PartialEq, Eq)]
pub enum Kind {
    FindNode,
    PutRecordLookup,
    AddProviderLookup,
    GetRecord,
    GetProviders,
}

#[derive(Clone, Copy, Debug, Serialize, Deserialize, PartialEq, Eq)]
pub enum Q {
    One,
    Two,
    All,
}

impl Q {
    fn to(self) -> Quorum {
        match self {
            Q::One => Quorum::One,
            Q::Two => Quorum::N(NonZeroUsize::new(2).unwrap()),
            Q::All => Quorum::All,
        }
    }
}

#[derive(Clone, Copy, Debug, Serialize, Deserialize, PartialEq, Eq, PartialOrd, Ord)]
pub enum Item {
    None,
    /// valid record / one provider
    A,
    /// expired record / two providers
    B,
}

#[derive(Clone, Debug, Serialize, Deserialize)]
pub enum Ev {
    Start { seeds: Vec<u8> },
    Respond { from: u8, peers: Vec<u8>, item: Item },
    WrongKind { from: u8 },
    Fail { from: u8 },
    /// advance the (offset) clock by 11 s: pending requests older than 10 s become "slow"
    Clock,
    /// the substream towards a peer with an outstanding request opens only now (slow dial): the event loop asks the
    /// engine for that peer's action (`next_peer_action`) and sends it; the request is as old as it was
    SubstreamOpened { from: u8 },
}

pub struct LookupModel {
    pub kind: Kind,
    pub n: u8,
    pub replication: usize,
    pub parallelism: usize,
    pub quorum: Q,
    pub clock: bool,
    pub max_reply: usize,
}

pub struct Sys {
    engine: QueryEngine,
    started: bool,
    /// virtual seconds
    now: u64,
    learned: BTreeSet<u8>,
    contacted: Vec<u8>,
    in_flight: BTreeMap<u8, u64>,
    answered: BTreeSet<u8>,
    failed: BTreeSet<u8>,
    /// valid records handed to the engine, not yet reported back
    records_due: Vec<u8>,
    records_reported: Vec<u8>,
    valid_records: usize,
    providers_returned: BTreeSet<u8>,
    terminal: Option<String>,
}

fn peer_id(i: u8) -> PeerId {
    util::peer(300 + i as u64)
}

fn kad_peer(i: u8) -> KademliaPeer {
    let addr = format!("/ip4/10.9.0.{}/tcp/30333", i + 1).parse().unwrap();
    KademliaPeer::new(peer_id(i), vec![addr], ConnectionType::NotConnected)
}

fn record_key() -> RecordKey {
    RecordKey::from(vec![b'c', b'1', b'5'])
}

impl LookupModel {
    fn index(&self, p: &PeerId) -> Option<u8> {
        (0..=self.n).find(|i| peer_id(*i) == *p)
    }

    fn target_raw(&self) -> [u8; 32] {
        match self.kind {
            Kind::FindNode => util::sha256(&peer_id(200).to_bytes()),
            _ => util::sha256(&record_key().to_vec()),
        }
    }

    fn dist(&self, i: u8) -> [u8; 32] {
        util::xor32(&util::sha256(&peer_id(i).to_bytes()), &self.target_raw())
    }

    fn needed(&self) -> usize {
        match self.quorum {
            Q::One => 1,
            Q::Two => 2,
            Q::All => self.replication,
        }
    }

    /// all reply peer lists: subsets of size <= max_reply of {local, 1..=n}
    fn reply_lists(&self) -> Vec<Vec<u8>> {
        let universe: Vec<u8> = (0..=self.n).collect();
        let mut out = vec![vec![]];
        for (i, a) in universe.iter().enumerate() {
            out.push(vec![*a]);
            if self.max_reply >= 2 {
                for b in &universe[i + 1..] {
                    out.push(vec![*a, *b]);
                }
            }
        }
        out.sort_by_key(|l| l.len());
        out
    }

    /// drain `next_action()` until `None`, running the per-action monitors
    fn drain(&self, sys: &mut Sys) -> Result<(), Viol> {
        for _ in 0..64 {
            let Some(action) = sys.engine.next_action() else {
                return self.after_drain(sys);
            };
            if let Some(t) = &sys.terminal {
                return Err(Viol::new(
                    "lookup/action-after-terminal",
                    format!("engine produced {action:?} after the terminal result {t}"),
                ));
            }
            match action {
                QueryAction::SendMessage { query, peer, .. } => {
                    if query != QID {
                        return Err(Viol::new("lookup/wrong-query-id", format!("SendMessage for {query:?}")));
                    }
                    let Some(i) = self.index(&peer) else {
                        return Err(Viol::new("lookup/unknown-peer-contacted", format!("SendMessage to unknown {peer}")));
                    };
                    if i == LOCAL {
                        return Err(Viol::new("lookup/contacted-local-node", "SendMessage addressed to the local node"));
                    }
                    if sys.contacted.contains(&i) {
                        return Err(Viol::new(
                            "lookup/peer-contacted-twice",
                            format!("peer {i} contacted again (contacted so far: {:?})", sys.contacted),
                        ));
                    }
                    if !sys.learned.contains(&i) {
                        return Err(Viol::new("lookup/contacted-unlearned-peer", format!("peer {i} was never a seed nor in a reply")));
                    }
                    if self.kind == Kind::GetRecord && sys.valid_records >= self.needed() {
                        return Err(Viol::new(
                            "get-record/request-after-quorum",
                            format!("SendMessage to peer {i} although {} valid records were already received (quorum {})", sys.valid_records, self.needed()),
                        ));
                    }
                    sys.contacted.push(i);
                    sys.in_flight.insert(i, sys.now);
                    let fresh = sys.in_flight.values().filter(|t| sys.now - **t <= 10).count();
                    if fresh > self.parallelism {
                        return Err(Viol::new(
                            "lookup/parallelism-exceeded",
                            format!(
                                "{fresh} fresh unanswered requests in flight (parallelism {}): in flight {:?} at t={}s",
                                self.parallelism, sys.in_flight, sys.now
                            ),
                        ));
                    }
                }
                QueryAction::GetRecordPartialResult { query_id, record } => {
                    if query_id != QID || self.kind != Kind::GetRecord {
                        return Err(Viol::new("get-record/unexpected-partial-result", "partial result for another query/kind"));
                    }
                    let from = self.index(&record.peer).unwrap_or(255);
                    match sys.records_due.iter().position(|p| *p == from) {
                        Some(pos) => {
                            sys.records_due.remove(pos);
                            sys.records_reported.push(from);
                        }
                        None => {
                            return Err(Viol::new(
                                "get-record/record-reported-twice-or-invented",
                                format!("record attributed to peer {from} reported but not due (reported so far {:?})", sys.records_reported),
                            ))
                        }
                    }
                    if record.record.value != vec![from] {
                        return Err(Viol::new("get-record/record-altered", "reported record differs from what the peer returned"));
                    }
                }
                other => self.on_terminal(sys, other)?,
            }
        }
        Err(Viol::new("lookup/no-quiescence", "next_action() kept producing actions (64 in a row)"))
    }

    fn after_drain(&self, sys: &mut Sys) -> Result<(), Viol> {
        if sys.started && sys.terminal.is_none() && sys.in_flight.is_empty() {
            return Err(Viol::new(
                "lookup/deadlock",
                format!(
                    "nothing in flight, next_action() == None and no terminal result (contacted {:?}, answered {:?}, failed {:?})",
                    sys.contacted, sys.answered, sys.failed
                ),
            ));
        }
        Ok(())
    }

    fn check_reported_peers(&self, sys: &Sys, peers: &[KademliaPeer], what: &str) -> Result<(), Viol> {
        let mut idx = Vec::new();
        for p in peers {
            let Some(i) = self.index(&kad::peer_id(p)) else {
                return Err(Viol::new("lookup/reported-unknown-peer", format!("{what}: unknown peer reported")));
            };
            idx.push(i);
        }
        if idx.len() > self.replication {
            return Err(Viol::new(
                "lookup/more-than-replication-reported",
                format!("{what}: {} peers reported, replication factor {}", idx.len(), self.replication),
            ));
        }
        for i in &idx {
            if !sys.answered.contains(i) {
                return Err(Viol::new(
                    "lookup/reported-peer-did-not-answer",
                    format!("{what}: peer {i} reported but it never answered (answered {:?})", sys.answered),
                ));
            }
        }
        for w in idx.windows(2) {
            if self.dist(w[0]) >= self.dist(w[1]) {
                return Err(Viol::new("lookup/reported-not-sorted", format!("{what}: reported {idx:?} not in increasing distance")));
            }
        }
        if let Some(last) = idx.last() {
            let worst = self.dist(*last);
            for l in &sys.learned {
                if *l != LOCAL && self.dist(*l) < worst && !sys.contacted.contains(l) {
                    return Err(Viol::new(
                        "lookup/closer-learned-peer-not-contacted",
                        format!("{what}: peer {l} was learned and is closer than the furthest reported peer {last} but was never contacted"),
                    ));
                }
            }
        }
        Ok(())
    }

    fn on_terminal(&self, sys: &mut Sys, action: QueryAction) -> Result<(), Viol> {
        let name;
        match (&self.kind, &action) {
            (Kind::FindNode, QueryAction::FindNodeQuerySucceeded { query, peers, .. }) if *query == QID => {
                self.check_reported_peers(sys, peers, "FindNodeQuerySucceeded")?;
                name = "success";
            }
            (Kind::PutRecordLookup, QueryAction::PutRecordToFoundNodes { query, peers, .. }) if *query == QID => {
                self.check_reported_peers(sys, peers, "PutRecordToFoundNodes")?;
                name = "success";
            }
            (Kind::AddProviderLookup, QueryAction::AddProviderToFoundNodes { query, peers, .. }) if *query == QID => {
                self.check_reported_peers(sys, peers, "AddProviderToFoundNodes")?;
                name = "success";
            }
            (Kind::GetRecord, QueryAction::GetRecordQueryDone { query_id }) if *query_id == QID => {
                if !sys.records_due.is_empty() {
                    return Err(Viol::new(
                        "get-record/record-never-reported",
                        format!("query done but records from peers {:?} were never reported", sys.records_due),
                    ));
                }
                name = "success";
            }
            (Kind::GetProviders, QueryAction::GetProvidersQueryDone { query_id, providers, .. }) if *query_id == QID => {
                let got: Vec<u8> = providers.iter().map(|p| self.index(&p.peer).unwrap_or(255)).collect();
                let set: BTreeSet<u8> = got.iter().copied().collect();
                if set.len() != got.len() {
                    return Err(Viol::new("get-providers/provider-reported-twice", format!("providers {got:?}")));
                }
                if set != sys.providers_returned {
                    return Err(Viol::new(
                        "get-providers/providers-differ",
                        format!("reported providers {got:?}, peers returned {:?}", sys.providers_returned),
                    ));
                }
                name = "success";
            }
            (_, QueryAction::QueryFailed { query }) if *query == QID => {
                name = "failed";
            }
            (_, other) => {
                return Err(Viol::new("lookup/unexpected-action", format!("unexpected action {other:?} for {:?}", self.kind)));
            }
        }
        sys.terminal = Some(name.to_string());
        Ok(())
    }
}

impl Model for LookupModel {
    type Sys = Sys;
    type Action = Ev;

    fn name(&self) -> String {
        "c15-lookup".into()
    }

    fn config(&self) -> Value {
        json!({"kind": self.kind, "n": self.n, "replication": self.replication, "parallelism": self.parallelism,
               "quorum": self.quorum, "clock": self.clock, "max_reply": self.max_reply})
    }

    fn init(&self) -> Sys {
        clock::reset();
        Sys {
            engine: QueryEngine::new(peer_id(LOCAL), self.replication, self.parallelism),
            started: false,
            now: 0,
            learned: BTreeSet::new(),
            contacted: Vec::new(),
            in_flight: BTreeMap::new(),
            answered: BTreeSet::new(),
            failed: BTreeSet::new(),
            records_due: Vec::new(),
            records_reported: Vec::new(),
            valid_records: 0,
            providers_returned: BTreeSet::new(),
            terminal: None,
        }
    }

    fn enabled(&self, sys: &Sys) -> Vec<Ev> {
        let mut v = Vec::new();
        if !sys.started {
            // all seed sets of size <= 2
            v.push(Ev::Start { seeds: vec![] });
            for a in 1..=self.n {
                v.push(Ev::Start { seeds: vec![a] });
            }
            for a in 1..=self.n {
                for b in a + 1..=self.n {
                    v.push(Ev::Start { seeds: vec![a, b] });
                }
            }
            return v;
        }
        if sys.terminal.is_some() {
            return v;
        }
        let items: &[Item] = match self.kind {
            Kind::GetRecord | Kind::GetProviders => &[Item::None, Item::A, Item::B],
            _ => &[Item::None],
        };
        for from in sys.in_flight.keys() {
            v.push(Ev::Fail { from: *from });
        }
        for from in sys.in_flight.keys() {
            for peers in self.reply_lists() {
                for item in items {
                    v.push(Ev::Respond { from: *from, peers: peers.clone(), item: *item });
                }
            }
        }
        for from in sys.in_flight.keys() {
            v.push(Ev::WrongKind { from: *from });
        }
        if self.clock && !sys.in_flight.is_empty() && sys.now < 33 {
            v.push(Ev::Clock);
        }
        if self.clock && sys.now > 0 {
            for from in sys.in_flight.keys() {
                v.push(Ev::SubstreamOpened { from: *from });
            }
        }
        v
    }

    fn apply(&self, sys: &mut Sys, a: &Ev) -> Result<Step, Viol> {
        match a {
            Ev::Start { seeds } => {
                let candidates: VecDeque<KademliaPeer> = seeds.iter().map(|i| kad_peer(*i)).collect();
                sys.learned.extend(seeds.iter().copied());
                match self.kind {
                    Kind::FindNode => {
                        sys.engine.start_find_node(QID, peer_id(200), candidates);
                    }
                    Kind::PutRecordLookup => {
                        sys.engine.start_put_record(QID, Record::new(record_key(), vec![1]), candidates, self.quorum.to());
                    }
                    Kind::AddProviderLookup => {
                        sys.engine.start_add_provider(
                            QID,
                            record_key(),
                            ContentProvider { peer: peer_id(LOCAL), addresses: vec![] },
                            candidates,
                            self.quorum.to(),
                        );
                    }
                    Kind::GetRecord => {
                        sys.engine.start_get_record(QID, record_key(), candidates, self.quorum.to(), false);
                    }
                    Kind::GetProviders => {
                        sys.engine.start_get_providers(QID, record_key(), candidates, vec![]);
                    }
                }
                sys.started = true;
            }
            Ev::Respond { from, peers, item } => {
                sys.in_flight.remove(from);
                sys.answered.insert(*from);
                let kpeers: Vec<KademliaPeer> = peers.iter().map(|i| kad_peer(*i)).collect();
                for p in peers {
                    if *p != LOCAL {
                        sys.learned.insert(*p);
                    }
                }
                let msg = match self.kind {
                    Kind::FindNode | Kind::PutRecordLookup | Kind::AddProviderLookup => {
                        KademliaMessage::FindNode { target: vec![], peers: kpeers }
                    }
                    Kind::GetRecord => {
                        let record = match item {
                            Item::None => None,
                            Item::A => {
                                sys.records_due.push(*from);
                                sys.valid_records += 1;
                                Some(Record {
                                    key: record_key(),
                                    value: vec![*from],
                                    publisher: None,
                                    expires: Some(clock::now() + Duration::from_secs(3600)),
                                })
                            }
                            Item::B => Some(Record {
                                key: record_key(),
                                value: vec![*from],
                                publisher: None,
                                expires: Some(clock::now()),
                            }),
                        };
                        KademliaMessage::GetRecord { key: None, record, peers: kpeers }
                    }
                    Kind::GetProviders => {
                        // providers are drawn from the universe: the responder itself (A) or the responder and peer 1 (B)
                        let provs: Vec<u8> = match item {
                            Item::None => vec![],
                            Item::A => vec![*from],
                            Item::B => vec![*from, 1],
                        };
                        sys.providers_returned.extend(provs.iter().copied());
                        KademliaMessage::GetProviders {
                            key: None,
                            peers: kpeers,
                            providers: provs.iter().map(|i| kad_peer(*i)).collect(),
                        }
                    }
                };
                sys.engine.register_response(QID, peer_id(*from), msg);
            }
            Ev::WrongKind { from } => {
                sys.in_flight.remove(from);
                sys.failed.insert(*from);
                let msg = match self.kind {
                    Kind::GetRecord | Kind::GetProviders => KademliaMessage::FindNode { target: vec![], peers: vec![kad_peer(1)] },
                    _ => KademliaMessage::GetRecord { key: None, record: None, peers: vec![kad_peer(1)] },
                };
                sys.engine.register_response(QID, peer_id(*from), msg);
            }
            Ev::Fail { from } => {
                sys.in_flight.remove(from);
                sys.failed.insert(*from);
                // what `Kademlia::disconnect_peer` does
                sys.engine.register_peer_failure(QID, peer_id(*from));
            }
            Ev::Clock => {
                clock::advance(Duration::from_secs(11));
                sys.now += 11;
            }
            Ev::SubstreamOpened { from } => {
                let _ = sys.engine.next_peer_action(&QID, &peer_id(*from));
            }
        }
        self.drain(sys)?;
        // no second terminal / no action after the terminal one
        if sys.terminal.is_some() {
            for _ in 0..3 {
                if let Some(extra) = sys.engine.next_action() {
                    return Err(Viol::new(
                        "lookup/action-after-terminal",
                        format!("engine produced {extra:?} after the terminal result"),
                    ));
                }
            }
        }
        Ok(Step::Ok)
    }

    fn canon(&self, sys: &Sys) -> Vec<u8> {
        let snap: Vec<_> = sys
            .engine
            .verif_snapshot()
            .into_iter()
            .map(|(id, kind, lists, counters)| {
                let lists: Vec<Vec<u8>> =
                    lists.iter().map(|l| l.iter().map(|p| self.index(p).unwrap_or(255)).collect()).collect();
                (id, kind, lists, counters)
            })
            .collect();
        let ages: Vec<(u8, u64)> = sys.in_flight.iter().map(|(p, t)| (*p, (sys.now - *t).min(11))).collect();
        format!(
            "{:?}|{}|{:?}|{:?}|{:?}|{:?}|{:?}|{:?}|{:?}|{:?}|{:?}",
            snap,
            sys.started,
            sys.learned,
            {
                let mut c = sys.contacted.clone();
                c.sort();
                c
            },
            ages,
            sys.answered,
            sys.failed,
            sys.records_due,
            sys.valid_records,
            sys.providers_returned,
            sys.terminal
        )
        .into_bytes()
    }
}

// ------------------------------------------------------------------------------------------------
// put / announce tracking phase (PutToTargetPeersContext): success only with quorum many sends
// ------------------------------------------------------------------------------------------------

#[derive(Clone, Debug, Serialize, Deserialize)]
pub enum PutEv {
    SendOk { peer: u8 },
    SendFail { peer: u8 },
    PeerFail { peer: u8 },
    Response { peer: u8 },
    ResponseFail { peer: u8 },
}

pub struct PutModel {
    pub peers: u8,
    pub quorum: Q,
    pub add_provider: bool,
}

pub struct PutSys {
    engine: QueryEngine,
    settled: BTreeMap<u8, bool>,
    terminal: Option<bool>,
}

impl PutModel {
    fn needed(&self) -> usize {
        match self.quorum {
            Q::One => 1,
            Q::Two => 2usize.min((self.peers as usize).max(1)),
            Q::All => (self.peers as usize).max(1),
        }
    }
}

impl Model for PutModel {
    type Sys = PutSys;
    type Action = PutEv;

    fn name(&self) -> String {
        "c15-put-tracking".into()
    }

    fn config(&self) -> Value {
        json!({"peers": self.peers, "quorum": self.quorum, "add_provider": self.add_provider})
    }

    fn init(&self) -> PutSys {
        let mut engine = QueryEngine::new(peer_id(LOCAL), 20, 3);
        let peers: Vec<PeerId> = (1..=self.peers).map(peer_id).collect();
        if self.add_provider {
            engine.start_add_provider_to_found_nodes_requests_tracking(QID, record_key(), peers, self.quorum.to());
        } else {
            engine.start_put_record_to_found_nodes_requests_tracking(QID, record_key(), peers, self.quorum.to());
        }
        PutSys { engine, settled: BTreeMap::new(), terminal: None }
    }

    fn enabled(&self, sys: &PutSys) -> Vec<PutEv> {
        let mut v = Vec::new();
        if sys.terminal.is_some() {
            return v;
        }
        for peer in 1..=self.peers {
            v.push(PutEv::SendOk { peer });
            v.push(PutEv::SendFail { peer });
            v.push(PutEv::PeerFail { peer });
            v.push(PutEv::Response { peer });
            v.push(PutEv::ResponseFail { peer });
        }
        v
    }

    fn apply(&self, sys: &mut PutSys, a: &PutEv) -> Result<Step, Viol> {
        let p = |i: &u8| peer_id(*i);
        match a {
            PutEv::SendOk { peer } => {
                sys.engine.register_send_success(QID, p(peer));
                sys.settled.entry(*peer).or_insert(true);
            }
            PutEv::SendFail { peer } => {
                sys.engine.register_send_failure(QID, p(peer));
                sys.settled.entry(*peer).or_insert(false);
            }
            PutEv::PeerFail { peer } => {
                sys.engine.register_peer_failure(QID, p(peer));
                sys.settled.entry(*peer).or_insert(false);
            }
            PutEv::Response { peer } => {
                let msg = if self.add_provider {
                    KademliaMessage::AddProvider { key: record_key(), providers: vec![] }
                } else {
                    KademliaMessage::PutValue { record: Record::new(record_key(), vec![1]) }
                };
                sys.engine.register_response(QID, p(peer), msg);
            }
            PutEv::ResponseFail { peer } => {
                sys.engine.register_response_failure(QID, p(peer));
            }
        }
        let sent_ok = sys.settled.values().filter(|b| **b).count();
        let all_settled = sys.settled.len() == self.peers as usize;
        let mut n = 0;
        while let Some(action) = sys.engine.next_action() {
            n += 1;
            if n > 4 {
                return Err(Viol::new("put/no-quiescence", "next_action() keeps producing actions"));
            }
            if sys.terminal.is_some() {
                return Err(Viol::new("put/second-terminal", format!("{action:?} after the terminal action")));
            }
            match action {
                QueryAction::PutRecordQuerySucceeded { query, .. } | QueryAction::AddProviderQuerySucceeded { query, .. }
                    if query == QID =>
                {
                    if sent_ok < self.needed() {
                        return Err(Viol::new(
                            "put/success-without-quorum",
                            format!("success reported with {sent_ok} successful sends, quorum needs {}", self.needed()),
                        ));
                    }
                    sys.terminal = Some(true);
                }
                QueryAction::QueryFailed { query } if query == QID => {
                    if all_settled && sent_ok >= self.needed() {
                        return Err(Viol::new(
                            "put/failure-despite-quorum",
                            format!("failure reported although {sent_ok} sends succeeded (quorum {})", self.needed()),
                        ));
                    }
                    sys.terminal = Some(false);
                }
                other => return Err(Viol::new("put/unexpected-action", format!("{other:?}"))),
            }
        }
        if all_settled && sys.terminal.is_none() {
            return Err(Viol::new(
                "put/no-terminal-after-all-settled",
                format!("every target peer settled ({:?}) but no terminal action", sys.settled),
            ));
        }
        Ok(Step::Ok)
    }

    fn canon(&self, sys: &PutSys) -> Vec<u8> {
        format!("{:?}|{:?}|{:?}", sys.engine.verif_snapshot().iter().map(|s| s.3.clone()).collect::<Vec<_>>(), sys.settled, sys.terminal)
            .into_bytes()
    }
}

fn lookup_models(ctx: &Ctx) -> Vec<LookupModel> {
    let thorough = ctx.tier == crate::report::Tier::Thorough;
    let n = ctx.tier.pick(4u8, 5u8);
    let mut v = Vec::new();
    for replication in [1usize, 2, 3] {
        for parallelism in [1usize, 2, 3] {
            v.push(LookupModel { kind: Kind::FindNode, n, replication, parallelism, quorum: Q::One, clock: false, max_reply: 2 });
            // the slow-peer rule needs the clock; fewer reply shapes keep it small
            // (two-peer replies with the clock also in the quick tier where one request at a time is allowed: a slow peer plus two
            // fresh candidates is the smallest situation in which a recount can overshoot)
            v.push(LookupModel { kind: Kind::FindNode, n: 4, replication, parallelism, quorum: Q::One, clock: true, max_reply: if thorough || parallelism == 1 { 2 } else { 1 } });
            for quorum in [Q::One, Q::Two, Q::All] {
                v.push(LookupModel { kind: Kind::GetRecord, n: 4, replication, parallelism, quorum, clock: false, max_reply: if thorough { 2 } else { 1 } });
            }
            v.push(LookupModel { kind: Kind::GetProviders, n: 4, replication, parallelism, quorum: Q::One, clock: false, max_reply: if thorough { 2 } else { 1 } });
        }
    }
    for (replication, parallelism) in [(1usize, 1usize), (2, 3), (3, 2)] {
        v.push(LookupModel { kind: Kind::PutRecordLookup, n: 4, replication, parallelism, quorum: Q::All, clock: false, max_reply: 2 });
        v.push(LookupModel { kind: Kind::AddProviderLookup, n: 4, replication, parallelism, quorum: Q::Two, clock: false, max_reply: 2 });
    }
    v
}

pub fn run(ctx: &mut Ctx) {
    let ex = Explorer { max_depth: 12, max_states: 4_000_000, recheck_every: 7, ..Default::default() };
    for m in lookup_models(ctx) {
        let label = format!(
            "{:?}[n={},k={},alpha={},quorum={:?},clock={},reply<={}]",
            m.kind, m.n, m.replication, m.parallelism, m.quorum, m.clock, m.max_reply
        );
        let out = ex.run(&m);
        e1::absorb(ctx, &label, out);
    }
    for peers in [0u8, 1, 2, 3] {
        for quorum in [Q::One, Q::Two, Q::All] {
            for add_provider in [false, true] {
                let m = PutModel { peers, quorum, add_provider };
                let out = ex.run(&m);
                e1::absorb(ctx, &format!("put-tracking[peers={peers},quorum={quorum:?},add_provider={add_provider}]"), out);
            }
        }
    }
    ctx.cov(
        "rule",
        "E1 BFS over every event history of a lookup on the real QueryEngine: seeds = all subsets of size <=2; every in-flight peer may fail, \
         answer with the wrong message kind, or answer with any peer list of size <= reply bound over universe+local+itself (x record/provider item); \
         optional clock jumps of 11 s; explored to closure (depth bound 12 is never reached: every peer is contacted at most once)",
    );
    ctx.assume("one query per engine instance (queries are independent entries of a map; cross-query iteration order is HashMap order and not explored)");
    ctx.assume("peer ids are fixed ed25519-derived ids; distances are their real SHA-256 XOR distances to the target, recomputed independently in the oracle");
    ctx.assume("'fresh' request = sent at most 10 s (virtual, offset clock seam) ago — the engine's own slow-peer threshold");
    ctx.assume("failure is reported the way Kademlia::disconnect_peer does it (register_peer_failure)");
}

pub fn replay(case: &Value) -> Result<String, String> {
    let cfg = &case["config"];
    let probe = case["probe"].as_bool().unwrap_or(false);
    match case["model"].as_str() {
        Some("c15-lookup") => {
            let m = LookupModel {
                kind: serde_json::from_value(cfg["kind"].clone()).map_err(|e| e.to_string())?,
                n: cfg["n"].as_u64().unwrap() as u8,
                replication: cfg["replication"].as_u64().unwrap() as usize,
                parallelism: cfg["parallelism"].as_u64().unwrap() as usize,
                quorum: serde_json::from_value(cfg["quorum"].clone()).map_err(|e| e.to_string())?,
                clock: cfg["clock"].as_bool().unwrap(),
                max_reply: cfg["max_reply"].as_u64().unwrap() as usize,
            };
            let actions: Vec<Ev> = serde_json::from_value(case["actions"].clone()).map_err(|e| e.to_string())?;
            e1::replay_actions(&m, &actions, probe)
        }
        Some("c15-put-tracking") => {
            let m = PutModel {
                peers: cfg["peers"].as_u64().unwrap() as u8,
                quorum: serde_json::from_value(cfg["quorum"].clone()).map_err(|e| e.to_string())?,
                add_provider: cfg["add_provider"].as_bool().unwrap(),
            };
            let actions: Vec<PutEv> = serde_json::from_value(case["actions"].clone()).map_err(|e| e.to_string())?;
            e1::replay_actions(&m, &actions, probe)
        }
        other => Err(format!("unknown model {other:?}")),
    }
}
