//! C14 — Kademlia routing table places and returns peers by XOR distance.
//!
//! (a) exhaustive `closest()` sweep on the real `RoutingTable`: all subsets of 7 peers whose keys sit at chosen
//!     XOR distances from the local key × all targets of a 16-element distance neighbourhood × k, repeated for
//!     several bit shifts (so the zoom-in / zoom-out bucket order is decided for every low-bit pattern at byte
//!     boundaries and at the top of the key space), plus one target per bucket index against a 40-peer table
//!     of SHA-256 keyed peers;
//! (b) E1 exploration of insertion / connection-state / dial-failure histories on full and nearly full
//!     buckets (peers inserted through the real `add_known_peer`, i.e. SHA-256 keys).

use crate::{
    mc::e1::{self, Explorer, Model, Step, Viol},
    report::{Ctx, Violation},
    util,
};
use litep2p::{
    protocol::libp2p::kademlia::verif::{self as kad, ConnectionType, KBucketEntry, Key, RoutingTable},
    transport::Endpoint,
    types::ConnectionId,
    PeerId,
};
use multiaddr::Multiaddr;
use serde::{Deserialize, Serialize};
use serde_json::{json, Value};
use std::{
    collections::{BTreeMap, BTreeSet, HashSet},
    panic::{catch_unwind, AssertUnwindSafe},
};

fn addr_for(seed: u64, i: u8) -> Multiaddr {
    format!("/ip4/10.{}.{}.{}/tcp/{}", (seed >> 8) & 0xff, seed & 0xff, i + 1, 30000 + i as u32)
        .parse()
        .unwrap()
}

/// 256-bit big-endian value `v << shift`
fn shl(v: u64, shift: usize) -> [u8; 32] {
    let mut out = [0u8; 32];
    for bit in 0..64 {
        if v & (1 << bit) != 0 {
            let pos = bit + shift;
            if pos < 256 {
                out[31 - pos / 8] |= 1 << (pos % 8);
            }
        }
    }
    out
}

// ------------------------------------------------------------------------------------------------
// (a) closest() sweep with crafted keys
// ------------------------------------------------------------------------------------------------

#[derive(Clone, Debug, Serialize, Deserialize)]
pub struct ClosestCase {
    /// raw local key
    local: String,
    shift: usize,
    /// distances (before shift) of the stored peers from the local key
    members: Vec<u64>,
    /// distances (before shift) at which an address-less placeholder was created via `entry()`
    placeholders: Vec<u64>,
    /// distance (before shift) of the target from the local key
    target: u64,
    k: usize,
}

fn local_raw() -> [u8; 32] {
    util::sha256(b"litep2p-verif-c14-local")
}

fn run_closest_case(c: &ClosestCase) -> Vec<Viol> {
    let mut out: Vec<Viol> = Vec::new();
    let local = local_raw();
    let local_peer = util::peer(1);
    let mut table = RoutingTable::new(Key::verif_from_raw(local_peer, local));
    let mut stored: Vec<(PeerId, [u8; 32])> = Vec::new();
    for d in &c.members {
        let key = util::xor32(&local, &shl(*d, c.shift));
        let peer = util::peer(1000 + *d);
        let p = kad::peer_with_key(peer, key, vec![addr_for(*d, 0)], ConnectionType::NotConnected);
        if !kad::insert_with_key(&mut table, p) {
            return vec![Viol::new("closest/setup", format!("could not insert peer at distance {d}"))];
        }
        stored.push((peer, key));
    }
    for d in &c.placeholders {
        let key = util::xor32(&local, &shl(*d, c.shift));
        // a lookup that is not followed by an insert leaves an address-less placeholder in the bucket
        let _ = table.entry(Key::verif_from_raw(util::peer(2000 + *d), key));
    }
    let tkey = util::xor32(&local, &shl(c.target, c.shift));
    let target = Key::verif_from_raw(vec![0u8], tkey);
    let got = table.closest(&target, c.k);
    let mut got_ids: Vec<PeerId> = got.iter().map(kad::peer_id).collect();

    let mut expect = stored.clone();
    expect.sort_by_key(|(_, key)| util::xor32(key, &tkey));
    let expect_ids: Vec<PeerId> = expect.iter().take(c.k).map(|(p, _)| *p).collect();

    let uniq: HashSet<&PeerId> = got_ids.iter().collect();
    if uniq.len() != got_ids.len() {
        // discriminator: which bucket the duplicated peer lives in (bucket 0 = XOR distance exactly 1 from the
        // local key, the documented double visit of `ClosestBucketsIter`)
        let mut counts: std::collections::HashMap<&PeerId, usize> = Default::default();
        for p in &got_ids {
            *counts.entry(p).or_default() += 1;
        }
        let dup_buckets: BTreeSet<usize> = stored
            .iter()
            .filter(|(p, _)| counts.get(p).copied().unwrap_or(0) > 1)
            .filter_map(|(_, key)| util::ilog2_be(&util::xor32(&local, key)))
            .collect();
        let disc = if dup_buckets.iter().all(|b| *b == 0) { "bucket-0" } else { "other-bucket" };
        out.push(Viol::new(
            format!("closest/duplicate-peer/{disc}"),
            format!("closest() returned a peer twice: case {c:?}: got {} entries, {} distinct", got_ids.len(), uniq.len()),
        ));
        // keep checking the rest of the answer: drop repeated entries; the de-duplicated answer must be a prefix
        // of the brute-force order
        let mut seen: HashSet<PeerId> = HashSet::new();
        got_ids.retain(|p| seen.insert(*p));
        let n = got_ids.len();
        let all: Vec<PeerId> = expect.iter().map(|(p, _)| *p).collect();
        if got_ids[..] != all[..n.min(all.len())] {
            out.push(Viol::new(
                "closest/not-the-closest",
                format!("case {c:?}: even after removing repeated entries the answer is not a prefix of the brute-force order"),
            ));
        }
        return out;
    }
    if got_ids != expect_ids {
        let sig = if got_ids.len() != expect_ids.len() {
            "closest/wrong-count"
        } else if got_ids.iter().collect::<BTreeSet<_>>() == expect_ids.iter().collect::<BTreeSet<_>>() {
            "closest/wrong-order"
        } else {
            "closest/not-the-closest"
        };
        let dist = |ids: &[PeerId]| -> Vec<u64> {
            ids.iter()
                .map(|p| c.members.iter().copied().find(|d| util::peer(1000 + *d) == *p).unwrap_or(u64::MAX))
                .collect()
        };
        out.push(Viol::new(
            sig,
            format!(
                "case {c:?}: closest() returned peers at local-distances {:?}, brute force expects {:?}",
                dist(&got_ids),
                dist(&expect_ids)
            ),
        ));
    }
    out
}

fn guarded_closest(c: &ClosestCase) -> Vec<Viol> {
    match catch_unwind(AssertUnwindSafe(|| run_closest_case(c))) {
        Ok(r) => r,
        Err(_) => {
            let msg = e1::take_panic();
            vec![Viol::new(format!("panic/{}", e1::panic_site(&msg)), format!("panic in closest sweep {c:?}: {msg}"))]
        }
    }
}

fn closest_sweep(ctx: &mut Ctx) {
    let shifts: Vec<usize> = ctx.tier.pick(vec![0, 7, 8, 127, 252], vec![0, 1, 5, 7, 8, 15, 16, 63, 64, 125, 127, 128, 200, 248, 252]);
    let ks = [1usize, 2, 3, 20];
    let mut evals = 0u64;
    let mut distinct: HashSet<u128> = HashSet::new();
    let mut nontrivial = 0u64;
    let local = util::hex(&local_raw());
    for &shift in &shifts {
        for mask in 0u32..128 {
            let members: Vec<u64> = (1..=7u64).filter(|d| mask & (1 << (d - 1)) != 0).collect();
            // placeholder variants: none, or one placeholder at a distance not in the table
            let mut ph_variants: Vec<Vec<u64>> = vec![vec![]];
            if let Some(free) = (1..=7u64).find(|d| !members.contains(d)) {
                ph_variants.push(vec![free]);
            }
            for placeholders in ph_variants {
                for target in 0u64..16 {
                    for &k in &ks {
                        let c = ClosestCase {
                            local: local.clone(),
                            shift,
                            members: members.clone(),
                            placeholders: placeholders.clone(),
                            target,
                            k,
                        };
                        evals += 1;
                        if members.len() >= 2 {
                            nontrivial += 1;
                        }
                        distinct.insert(e1::hash128(format!("{c:?}").as_bytes()));
                        for v in guarded_closest(&c) {
                            ctx.violation(Violation {
                                signature: v.signature,
                                what: v.what,
                                replay: json!({"kind": "closest", "case": c}),
                            });
                        }
                        if evals % 40_001 == 1 {
                            ctx.sample(json!({"kind": "closest", "case": c}));
                        }
                    }
                }
            }
        }
    }
    ctx.cov_add("evaluations", evals);
    ctx.sub(
        "closest_sweep_crafted_keys",
        json!({"cases": evals, "distinct_cases": distinct.len(), "cases_with_2plus_peers": nontrivial, "shifts": shifts, "k": ks}),
    );
}

/// one target per bucket index against a table of SHA-256 keyed peers
fn closest_real_keys(ctx: &mut Ctx) {
    let local_peer = util::peer(1);
    let local_key = Key::from(local_peer);
    let local = local_key.verif_raw();
    let mut table = RoutingTable::new(local_key);
    let n = ctx.tier.pick(40u64, 200u64);
    let mut stored: Vec<(PeerId, [u8; 32], bool)> = Vec::new();
    for s in 0..n {
        let p = util::peer(5000 + s);
        table.add_known_peer(p, vec![addr_for(s, 0)], ConnectionType::NotConnected);
    }
    for (_, node) in table.verif_dump() {
        stored.push((kad::peer_id(&node), kad::peer_key(&node).verif_raw(), !node.addresses().is_empty()));
    }
    let mut evals = 0u64;
    let mut multi = 0u64;
    for bucket in 0..256usize {
        for low in [0u64, 1, 2, 3] {
            // target distance: bit `bucket` set plus a low pattern
            let mut d = shl(1, bucket);
            let l = shl(low, bucket.saturating_sub(2));
            for i in 0..32 {
                d[i] |= l[i];
            }
            let tkey = util::xor32(&local, &d);
            let target = Key::verif_from_raw(vec![1u8], tkey);
            for k in [1usize, 3, 20, 1000] {
                evals += 1;
                let r = catch_unwind(AssertUnwindSafe(|| table.closest(&target, k)));
                let got = match r {
                    Ok(g) => g,
                    Err(_) => {
                        let msg = e1::take_panic();
                        ctx.violation(Violation {
                            signature: format!("panic/{}", e1::panic_site(&msg)),
                            what: format!("closest() panicked: {msg}"),
                            replay: json!({"kind": "closest-real", "bucket": bucket, "low": low, "k": k, "n": n}),
                        });
                        continue;
                    }
                };
                let got_ids: Vec<PeerId> = got.iter().map(kad::peer_id).collect();
                let mut expect: Vec<_> = stored.iter().filter(|s| s.2).cloned().collect();
                expect.sort_by_key(|(_, key, _)| util::xor32(key, &tkey));
                let expect_ids: Vec<PeerId> = expect.iter().take(k).map(|e| e.0).collect();
                if got_ids.len() >= 2 {
                    multi += 1;
                }
                if got_ids != expect_ids {
                    ctx.violation(Violation {
                        signature: "closest/real-keys-mismatch".into(),
                        what: format!(
                            "table of {n} SHA-256 keyed peers, target at bucket {bucket} low {low}, k={k}: got {} peers, expected {} (first difference at index {:?})",
                            got_ids.len(),
                            expect_ids.len(),
                            got_ids.iter().zip(expect_ids.iter()).position(|(a, b)| a != b)
                        ),
                        replay: json!({"kind": "closest-real", "bucket": bucket, "low": low, "k": k, "n": n}),
                    });
                }
            }
        }
    }
    ctx.cov_add("evaluations", evals);
    ctx.sub("closest_real_keys", json!({"cases": evals, "peers_in_table": stored.len(), "answers_with_2plus_peers": multi}));
    ctx.sample(json!({"kind": "closest-real", "peers": n, "targets": "one per bucket index 0..255 x 4 low patterns x k in {1,3,20,1000}"}));
}

// ------------------------------------------------------------------------------------------------
// (b) histories on full buckets (real insertion path, SHA-256 keys)
// ------------------------------------------------------------------------------------------------

#[derive(Clone, Copy, Debug, Serialize, Deserialize, PartialEq, Eq, PartialOrd, Ord)]
pub enum Conn {
    NotConnected,
    Connected,
    CanConnect,
    CannotConnect,
}

impl Conn {
    fn to(self) -> ConnectionType {
        match self {
            Conn::NotConnected => ConnectionType::NotConnected,
            Conn::Connected => ConnectionType::Connected,
            Conn::CanConnect => ConnectionType::CanConnect,
            Conn::CannotConnect => ConnectionType::CannotConnect,
        }
    }
    fn from(c: ConnectionType) -> Conn {
        match c {
            ConnectionType::NotConnected => Conn::NotConnected,
            ConnectionType::Connected => Conn::Connected,
            ConnectionType::CanConnect => Conn::CanConnect,
            ConnectionType::CannotConnect => Conn::CannotConnect,
        }
    }
}

/// peers are named by index into the model's peer pool; index 0 is the local peer
#[derive(Clone, Debug, Serialize, Deserialize)]
pub enum TableOp {
    Add { peer: usize, conn: Conn, with_addr: bool },
    Lookup { peer: usize },
    Established { peer: usize, dialer: bool },
    DialFailure { peer: usize },
}

pub struct TableModel {
    /// how many pool peers are pre-inserted into the hot bucket
    prefill: usize,
    pattern: String,
    /// pool[0] = local; pool[1..=21] fall into the hot bucket; pool[22] falls into another bucket
    pool: Vec<PeerId>,
    hot_bucket: usize,
}

pub struct TableSys {
    table: RoutingTable,
    /// ledger: what the table was last told about each pool peer
    told: BTreeMap<usize, Conn>,
    snapshot: Vec<(usize, usize, Conn, usize)>,
}

fn bucket_of(local: &[u8; 32], key: &[u8; 32]) -> Option<usize> {
    util::ilog2_be(&util::xor32(local, key))
}

impl TableModel {
    /// How many entries one k-bucket of the real table takes (20 in the pinned tree; the property does not name the
    /// number): connected peers of one bucket are added until the bucket stops growing.
    pub fn bucket_capacity() -> usize {
        static CAP: std::sync::OnceLock<usize> = std::sync::OnceLock::new();
        *CAP.get_or_init(|| {
            let local = util::peer(1);
            let lraw = Key::from(local).verif_raw();
            let mut table = RoutingTable::new(Key::from(local));
            let (mut seed, mut stored, mut stalled) = (10_000u64, 0usize, 0);
            while stalled < 8 && stored < 4096 {
                let p = util::peer(seed);
                seed += 1;
                if bucket_of(&lraw, &Key::from(p).verif_raw()) != Some(255) {
                    continue;
                }
                table.add_known_peer(p, vec![addr_for(seed, 0)], Conn::Connected.to());
                let now = table.verif_dump().into_iter().filter(|(b, _)| *b == 255).count();
                if now > stored {
                    stored = now;
                    stalled = 0;
                } else {
                    stalled += 1;
                }
            }
            stored
        })
    }

    pub fn new(prefill: usize, pattern: &str) -> Self {
        let cap = Self::bucket_capacity();
        let local = util::peer(1);
        let lraw = Key::from(local).verif_raw();
        let mut hot = Vec::new();
        let mut other = None;
        let mut seed = 10_000u64;
        while hot.len() < cap + 2 || other.is_none() {
            let p = util::peer(seed);
            seed += 1;
            let raw = Key::from(p).verif_raw();
            match bucket_of(&lraw, &raw) {
                Some(255) if hot.len() < cap + 2 => hot.push(p),
                Some(254) if other.is_none() => other = Some(p),
                _ => {}
            }
        }
        let mut pool = vec![local];
        pool.extend(hot);
        pool.push(other.unwrap());
        TableModel { prefill, pattern: pattern.to_string(), pool, hot_bucket: 255 }
    }

    fn initial_conn(&self, i: usize) -> Conn {
        match self.pattern.as_str() {
            "all-connected" => Conn::Connected,
            "all-not-connected" => Conn::NotConnected,
            "all-can-connect" => Conn::CanConnect,
            "first-not-connected" => {
                if i == 1 {
                    Conn::NotConnected
                } else {
                    Conn::Connected
                }
            }
            "last-cannot-connect" => {
                if i == self.prefill {
                    Conn::CannotConnect
                } else {
                    Conn::Connected
                }
            }
            _ => Conn::NotConnected,
        }
    }

    fn pool_index(&self, p: &PeerId) -> Option<usize> {
        self.pool.iter().position(|q| q == p)
    }

    /// (bucket, pool index or usize::MAX for placeholder, conn, n addresses)
    fn snapshot(&self, t: &RoutingTable) -> Vec<(usize, usize, Conn, usize)> {
        let mut v: Vec<_> = t
            .verif_dump()
            .into_iter()
            .map(|(b, n)| {
                (
                    b,
                    self.pool_index(&kad::peer_id(&n)).unwrap_or(usize::MAX),
                    Conn::from(kad::peer_connection(&n)),
                    n.addresses().len(),
                )
            })
            .collect();
        v.sort();
        v
    }

    fn invariants(&self, sys: &TableSys) -> Result<(), Viol> {
        let lraw = Key::from(self.pool[0]).verif_raw();
        let dump = sys.table.verif_dump();
        let mut per_bucket: BTreeMap<usize, usize> = BTreeMap::new();
        let mut seen: BTreeSet<usize> = BTreeSet::new();
        for (b, n) in &dump {
            *per_bucket.entry(*b).or_default() += 1;
            let peer = kad::peer_id(n);
            let real = !n.addresses().is_empty();
            if peer == self.pool[0] {
                return Err(Viol::new("table/local-node-stored", "the local node is stored in the routing table"));
            }
            if real {
                let raw = kad::peer_key(n).verif_raw();
                let expect_raw = util::sha256(&peer.to_bytes());
                if raw != expect_raw {
                    return Err(Viol::new("table/key-not-hash-of-peer", format!("entry for {peer} has a key that is not SHA-256 of its id")));
                }
                let expect = bucket_of(&lraw, &raw);
                if expect != Some(*b) {
                    return Err(Viol::new(
                        "table/wrong-bucket",
                        format!("peer {peer} stored in bucket {b}, XOR distance puts it in {expect:?}"),
                    ));
                }
                if let Some(i) = self.pool_index(&peer) {
                    if !seen.insert(i) {
                        return Err(Viol::new("table/peer-stored-twice", format!("pool peer {i} appears twice")));
                    }
                }
            }
        }
        for (b, n) in per_bucket {
            if n > TableModel::bucket_capacity() {
                return Err(Viol::new("table/bucket-over-capacity", format!("bucket {b} holds {n} entries")));
            }
        }
        // a connected peer is never displaced
        for (i, c) in &sys.told {
            if *c == Conn::Connected && !seen.contains(i) {
                return Err(Viol::new(
                    "table/connected-peer-displaced",
                    format!("pool peer {i} was last reported Connected but is no longer in the table"),
                ));
            }
        }
        Ok(())
    }
}

impl Model for TableModel {
    type Sys = TableSys;
    type Action = TableOp;

    fn name(&self) -> String {
        "c14-table".into()
    }

    fn config(&self) -> Value {
        json!({"prefill": self.prefill, "pattern": self.pattern})
    }

    fn init(&self) -> TableSys {
        let mut table = RoutingTable::new(Key::from(self.pool[0]));
        let mut told = BTreeMap::new();
        for i in 1..=self.prefill {
            let c = self.initial_conn(i);
            table.add_known_peer(self.pool[i], vec![addr_for(i as u64, 0)], c.to());
            told.insert(i, c);
        }
        let snapshot = self.snapshot(&table);
        TableSys { table, told, snapshot }
    }

    fn enabled(&self, _sys: &TableSys) -> Vec<TableOp> {
        // subjects: local (0), first prefilled (1), last prefilled, two peers not prefilled (21, 22 in pool → same
        // bucket), one peer of another bucket (23)
        let last = self.prefill.max(1);
        let cap = TableModel::bucket_capacity();
        let mut subjects = vec![0usize, 1, last, cap + 1, cap + 2, cap + 3];
        subjects.dedup();
        let mut v = Vec::new();
        for &p in &subjects {
            v.push(TableOp::Lookup { peer: p });
        }
        for &p in &subjects {
            for conn in [Conn::NotConnected, Conn::Connected, Conn::CanConnect, Conn::CannotConnect] {
                v.push(TableOp::Add { peer: p, conn, with_addr: true });
            }
            v.push(TableOp::Add { peer: p, conn: Conn::Connected, with_addr: false });
        }
        for &p in &subjects {
            v.push(TableOp::Established { peer: p, dialer: true });
            v.push(TableOp::Established { peer: p, dialer: false });
            v.push(TableOp::DialFailure { peer: p });
        }
        v
    }

    fn apply(&self, sys: &mut TableSys, a: &TableOp) -> Result<Step, Viol> {
        let present_before: BTreeSet<usize> = sys.snapshot.iter().map(|s| s.1).filter(|i| *i != usize::MAX).collect();
        let hot_count_before = sys.snapshot.iter().filter(|s| s.0 == self.hot_bucket).count();
        match *a {
            TableOp::Add { peer, conn, with_addr } => {
                let addrs = if with_addr { vec![addr_for(peer as u64, 1)] } else { vec![] };
                sys.table.add_known_peer(self.pool[peer], addrs, conn.to());
                let snap = self.snapshot(&sys.table);
                let present: BTreeSet<usize> = snap.iter().map(|s| s.1).filter(|i| *i != usize::MAX).collect();
                if with_addr && present.contains(&peer) {
                    sys.told.insert(peer, conn);
                }
                // must be inserted when its bucket has room (basic function), local never
                let cap = TableModel::bucket_capacity();
                let in_hot = (1..=cap + 2).contains(&peer);
                if with_addr && peer != 0 && !present_before.contains(&peer) {
                    let room = if in_hot { hot_count_before < cap } else { true };
                    if room && !present.contains(&peer) {
                        return Err(Viol::new(
                            "table/add-with-room-dropped",
                            format!("add_known_peer(pool {peer}) with room in its bucket did not store the peer"),
                        ));
                    }
                }
                // at most one other entry displaced, and only to make room for the new one
                let gone: Vec<usize> = present_before.difference(&present).copied().collect();
                if gone.len() > 1 || (!gone.is_empty() && !present.contains(&peer)) {
                    return Err(Viol::new(
                        "table/add-removed-entries",
                        format!("add_known_peer(pool {peer}) removed entries {gone:?}"),
                    ));
                }
                for g in &gone {
                    if sys.told.get(g) == Some(&Conn::Connected) {
                        return Err(Viol::new(
                            "table/connected-peer-displaced",
                            format!("add_known_peer(pool {peer}) displaced pool peer {g}, which was last reported Connected"),
                        ));
                    }
                    sys.told.remove(g);
                }
                sys.snapshot = snap;
            }
            TableOp::Lookup { peer } => {
                let kind = match sys.table.entry(Key::from(self.pool[peer])) {
                    KBucketEntry::LocalNode => "local",
                    KBucketEntry::Occupied(_) => "occupied",
                    KBucketEntry::Vacant(_) => "vacant",
                    KBucketEntry::NoSlot => "noslot",
                };
                if (peer == 0) != (kind == "local") {
                    return Err(Viol::new("table/local-entry", format!("entry(pool {peer}) classified as {kind}")));
                }
                if peer != 0 && present_before.contains(&peer) != (kind == "occupied") {
                    return Err(Viol::new(
                        "table/entry-disagrees-with-contents",
                        format!("entry(pool {peer}) is {kind} but presence is {}", present_before.contains(&peer)),
                    ));
                }
                let snap = self.snapshot(&sys.table);
                let present: BTreeSet<usize> = snap.iter().map(|s| s.1).filter(|i| *i != usize::MAX).collect();
                if present != present_before {
                    return Err(Viol::new("table/lookup-changed-membership", "entry() without insert changed the stored peers"));
                }
                sys.snapshot = snap;
            }
            TableOp::Established { peer, dialer } => {
                let endpoint = if dialer {
                    Endpoint::Dialer { address: addr_for(peer as u64, 2), connection_id: ConnectionId::from(1usize) }
                } else {
                    Endpoint::Listener { address: addr_for(peer as u64, 3), connection_id: ConnectionId::from(2usize) }
                };
                sys.table.on_connection_established(Key::from(self.pool[peer]), endpoint);
                let snap = self.snapshot(&sys.table);
                let present: BTreeSet<usize> = snap.iter().map(|s| s.1).filter(|i| *i != usize::MAX).collect();
                if present != present_before {
                    return Err(Viol::new("table/established-changed-membership", "on_connection_established changed the stored peers"));
                }
                if present.contains(&peer) {
                    sys.told.insert(peer, Conn::Connected);
                }
                sys.snapshot = snap;
            }
            TableOp::DialFailure { peer } => {
                sys.table.on_dial_failure(Key::from(self.pool[peer]), &[addr_for(peer as u64, 0)]);
                let snap = self.snapshot(&sys.table);
                let present: BTreeSet<usize> = snap.iter().map(|s| s.1).filter(|i| *i != usize::MAX).collect();
                if present != present_before {
                    return Err(Viol::new("table/dial-failure-changed-membership", "on_dial_failure changed the stored peers"));
                }
                sys.snapshot = snap;
            }
        }
        self.invariants(sys)?;
        // closest() agrees with brute force in this state, for a target equal to the first hot peer
        let tkey = Key::from(self.pool[1]);
        let traw = tkey.verif_raw();
        let got: Vec<PeerId> = sys.table.closest(&tkey, 20).iter().map(kad::peer_id).collect();
        let mut expect: Vec<(PeerId, [u8; 32])> = sys
            .table
            .verif_dump()
            .iter()
            .filter(|(_, n)| !n.addresses().is_empty())
            .map(|(_, n)| (kad::peer_id(n), kad::peer_key(n).verif_raw()))
            .collect();
        expect.sort_by_key(|(_, k)| util::xor32(k, &traw));
        let expect: Vec<PeerId> = expect.into_iter().take(20).map(|e| e.0).collect();
        if got != expect {
            return Err(Viol::new(
                "closest/history-state-mismatch",
                format!("closest() in a reached state returned {} peers, brute force {}", got.len(), expect.len()),
            ));
        }
        Ok(Step::Ok)
    }

    fn canon(&self, sys: &TableSys) -> Vec<u8> {
        format!("{:?}|{:?}", sys.snapshot, sys.told).into_bytes()
    }
}

pub fn run(ctx: &mut Ctx) {
    closest_sweep(ctx);
    closest_real_keys(ctx);
    let ex = Explorer { max_depth: ctx.tier.pick(3, 4), max_states: 3_000_000, ..Default::default() };
    let cap = TableModel::bucket_capacity();
    ctx.cov("bucket_capacity_probed", cap as u64);
    let roots: Vec<(usize, &str)> = vec![
        (cap, "all-connected"),
        (cap, "all-not-connected"),
        (cap, "all-can-connect"),
        (cap, "first-not-connected"),
        (cap, "last-cannot-connect"),
        (cap.saturating_sub(1), "all-connected"),
        (0, "empty"),
    ];
    for (prefill, pattern) in roots {
        let m = TableModel::new(prefill, pattern);
        let out = ex.run(&m);
        e1::absorb(ctx, &format!("table-histories[prefill={prefill},{pattern}]"), out);
    }
    let states = ctx.coverage.get("states").and_then(|v| v.as_u64()).unwrap_or(0);
    ctx.cov("distinct_nontrivial", states);
    ctx.cov("depth_bound", ex.max_depth as u64);
    ctx.cov(
        "rule",
        "closest(): every (table subset of 7 crafted-distance peers, placeholder variant, target in a 16-distance neighbourhood, k, bit shift) \
         compared with a brute-force sort by XOR distance; histories: E1 BFS over all op sequences up to depth_bound from full / nearly \
         full / empty bucket roots on the real add_known_peer path; distinct_nontrivial = distinct canonical table states reached",
    );
    ctx.assume("'connected' means: as last reported to the table (add_known_peer(..Connected) or on_connection_established) — harness ledger");
    ctx.assume("keys with chosen raw bytes are injected through a cfg seam that writes the entry exactly as KBucketEntry::insert does but keeps the chosen key; closest() and the bucket iterator are the real code");
    ctx.assume("which non-connected entry is displaced from a full bucket, and whether a new peer is admitted into a full bucket, is left open by the statement and not checked");
}

pub fn replay(case: &Value) -> Result<String, String> {
    if case["kind"] == "closest" {
        let c: ClosestCase = serde_json::from_value(case["case"].clone()).map_err(|e| e.to_string())?;
        let vs = guarded_closest(&c);
        return if vs.is_empty() {
            Ok(format!("closest case {c:?} agrees with brute force"))
        } else {
            Err(vs.iter().map(|v| format!("[{}] {}", v.signature, v.what)).collect::<Vec<_>>().join("\n"))
        };
    }
    if case["kind"] == "closest-real" {
        return Err("closest-real cases are re-run by the full check (deterministic)".into());
    }
    let cfg = &case["config"];
    let m = TableModel::new(cfg["prefill"].as_u64().unwrap() as usize, cfg["pattern"].as_str().unwrap());
    let actions: Vec<TableOp> = serde_json::from_value(case["actions"].clone()).map_err(|e| e.to_string())?;
    e1::replay_actions(&m, &actions, case["probe"].as_bool().unwrap_or(false))
}
