//! C11 — notification streams follow a strict open/close protocol towards the user.
//!
//! E2 (deviation-bounded schedule exploration) of three real `Litep2p` nodes A, B, C on SimNet, each with ONE real
//! notification protocol `/verif/notif/1`. A–B is the pair under test, A–C is the bystander connection used for the
//! "keeps serving other peers" probe. A user task per node owns the `NotificationHandle`, executes the commands of
//! the scenario program (open / close / send / late validation answer), answers `ValidateSubstream` according to the
//! node's scripted policy and appends everything it does and sees to ONE global, totally ordered log. The oracle is
//! an event grammar per (node, remote peer) evaluated on that log.

use crate::{
    env::simnet::{NodeCmd, World},
    mc::{
        e1::Viol,
        e2::{self, Scenario, E2},
    },
    report::Ctx,
};
use futures::StreamExt;
use litep2p::{
    config::ConfigBuilder,
    protocol::notification::{
        ConfigBuilder as NotifConfigBuilder, Direction, NotificationEvent, NotificationHandle, ValidationResult,
    },
    types::protocol::ProtocolName,
    verif::TransportEvent,
    PeerId,
};
use multiaddr::Multiaddr;
use parking_lot::Mutex;
use serde::{Deserialize, Serialize};
use serde_json::{json, Value};
use std::{
    collections::{BTreeMap, BTreeSet},
    sync::Arc,
    time::Duration,
};

const MAX_NOTIFICATION: usize = 16;
const N: usize = 3;
const A: u8 = 0;
const B: u8 = 1;
const C: u8 = 2;
const QUIESCENCE_CAP: u64 = 20_000;

/// How a node's user answers `ValidateSubstream` from the other node of the A–B pair.
#[derive(Clone, Copy, Debug, Serialize, Deserialize, PartialEq, Eq, Hash)]
pub enum Ans {
    Accept,
    Reject,
    /// do not answer now (an `Op::Answer` of the program may answer later; otherwise never)
    Defer,
}

#[derive(Clone, Copy, Debug, Serialize, Deserialize, PartialEq, Eq, Hash)]
pub enum Op {
    Open { from: u8, to: u8 },
    Close { from: u8, to: u8 },
    Send { from: u8, to: u8 },
    /// `try_open_substream_batch` with one peer
    TryOpen { from: u8, to: u8 },
    /// `open_substream_batch` with four peers nobody knows an address of plus `to`
    OpenBatch { from: u8, to: u8 },
    /// `send_async_notification`
    SendAsync { from: u8, to: u8 },
    /// late answer to a deferred validation
    Answer { node: u8, peer: u8, accept: bool },
    /// every carrier between A and B sees EOF in both directions
    Cut,
    /// A dials B's address again
    Reconnect,
    /// A dials an address of B that leads nowhere: the dial fails, and the failure is reported to every protocol whether
    /// or not B is connected some other way
    DialDead,
    /// as `DialDead`, but nobody answers the SYN: the dial stays pending until `DeadDialTimesOut`
    DialDeadSlow,
    DeadDialTimesOut,
    /// B dials A's address
    ReconnectFromB,
    /// environment: outbound substream opens of `node`'s connections are held back (slow round trip for the new
    /// stream) / released
    HoldOpens { node: u8, hold: bool },
}

impl Op {
    fn code(&self) -> String {
        let n = |i: &u8| ["A", "B", "C"][*i as usize];
        match self {
            Op::Open { from, to } => format!("{}.open({})", n(from), n(to)),
            Op::Close { from, to } => format!("{}.close({})", n(from), n(to)),
            Op::Send { from, to } => format!("{}.send({})", n(from), n(to)),
            Op::TryOpen { from, to } => format!("{}.try_open_batch({})", n(from), n(to)),
            Op::OpenBatch { from, to } => format!("{}.open_batch(4 unknown peers + {})", n(from), n(to)),
            Op::SendAsync { from, to } => format!("{}.send_async({})", n(from), n(to)),
            Op::Answer { node, peer, accept } => format!("{}.answer({},{})", n(node), n(peer), if *accept { "accept" } else { "reject" }),
            Op::Cut => "cut(A-B)".into(),
            Op::Reconnect => "A.dial(B)".into(),
            Op::DialDead => "A.dial(dead address of B)".into(),
            Op::DialDeadSlow => "A.dial(dead address of B, unanswered)".into(),
            Op::DeadDialTimesOut => "dead-dial-times-out".into(),
            Op::ReconnectFromB => "B.dial(A)".into(),
            Op::HoldOpens { node, hold } => format!("{}({})", if *hold { "hold-opens" } else { "release-opens" }, n(node)),
        }
    }
}

#[derive(Clone, Debug, Serialize, Deserialize, PartialEq, Eq, Hash)]
pub struct NotifScenario {
    pub program: Vec<Op>,
    /// validation policy of A (towards B) and of B (towards A): the n-th validation request gets `policy[min(n, len-1)]`
    pub policy: [Vec<Ans>; 2],
    /// `with_auto_accept_inbound` of A and of B
    pub auto: [bool; 2],
}

#[derive(Debug, Clone)]
enum Entry {
    /// `ended` = how many of x's connection tasks had ended when the command returned (SimNet ground truth)
    OpenCmd { x: u8, y: u8, ok: bool, err: String, ended: usize },
    CloseCmd { x: u8, y: u8 },
    SendCmd { x: u8, y: u8, ok: bool, err: String, api: &'static str },
    /// `hs` = the remote handshake carried by the inbound substream (every open command uses a fresh one)
    Validate { x: u8, y: u8, hs: Vec<u8> },
    /// answer given at once by the policy (`Defer` = none yet)
    Answer { x: u8, y: u8, ans: Ans },
    /// late answer; `pending` = the user task did hold an unanswered validation request for `y`
    LateAnswer { x: u8, y: u8, accept: bool, pending: bool },
    Opened { x: u8, y: u8, inbound: bool, hs: Vec<u8> },
    Closed { x: u8, y: u8 },
    OpenFailure { x: u8, y: u8, error: String },
    Received { x: u8, y: u8, data: Vec<u8> },
    /// harness ground truth about the A–B link
    Cut,
    Up,
}

impl Entry {
    fn code(&self) -> String {
        let n = |i: &u8| ["A", "B", "C", "?"][(*i as usize).min(3)];
        match self {
            Entry::OpenCmd { x, y, ok, .. } => format!("{}o{}{}", n(x), n(y), if *ok { "" } else { "!" }),
            Entry::CloseCmd { x, y } => format!("{}c{}", n(x), n(y)),
            Entry::SendCmd { x, y, ok, .. } => format!("{}s{}{}", n(x), n(y), if *ok { "" } else { "!" }),
            Entry::Validate { x, y, .. } => format!("{}V{}", n(x), n(y)),
            Entry::Answer { x, y, ans } => format!("{}{}{}", n(x), match ans { Ans::Accept => "+", Ans::Reject => "-", Ans::Defer => "~" }, n(y)),
            Entry::LateAnswer { x, y, accept, pending } => format!("{}L{}{}{}", n(x), if *accept { "+" } else { "-" }, n(y), if *pending { "" } else { "0" }),
            Entry::Opened { x, y, inbound, .. } => format!("{}O{}{}", n(x), n(y), if *inbound { "i" } else { "o" }),
            Entry::Closed { x, y } => format!("{}X{}", n(x), n(y)),
            Entry::OpenFailure { x, y, error } => format!("{}F{}:{}", n(x), n(y), error),
            Entry::Received { x, y, data } => format!("{}R{}:{}", n(x), n(y), data.len()),
            Entry::Cut => "CUT".into(),
            Entry::Up => "UP".into(),
        }
    }
}

enum UCmd {
    Open(u8),
    TryOpen(u8),
    OpenBatch(u8),
    Close(u8),
    Send(u8, Vec<u8>),
    SendAsync(u8, Vec<u8>),
    Answer(u8, bool),
}

type Log = Arc<Mutex<Vec<Entry>>>;

pub struct St {
    cmd: Vec<tokio::sync::mpsc::UnboundedSender<UCmd>>,
    log: Log,
    pc: usize,
    peers: [PeerId; N],
    addr_b: Multiaddr,
    cut_links: BTreeSet<usize>,
    ab_up: bool,
    est_at_cut: (usize, usize),
    sends: u8,
}

fn proto() -> ProtocolName {
    ProtocolName::from("/verif/notif/1")
}

fn spawn_user(w: &mut World, node: u8, mut handle: NotificationHandle, peers: [PeerId; N], policy: Vec<Ans>, log: Log) -> tokio::sync::mpsc::UnboundedSender<UCmd> {
    let script = w.nodes[node as usize].script.clone();
    let (tx, mut rx) = tokio::sync::mpsc::unbounded_channel::<UCmd>();
    let x = node;
    w.spawn_for(node as usize, "notif-user", async move {
        let idx = |p: &PeerId| peers.iter().position(|q| q == p).map(|i| i as u8).unwrap_or(255);
        // the A–B pair follows the scripted policy; everything else (the bystander C) is accepted
        let in_pair = |y: u8| (x == A && y == B) || (x == B && y == A);
        let mut validations = 0usize;
        let mut deferred: BTreeSet<u8> = BTreeSet::new();
        // every open command announces a fresh handshake, so that a validation request and the stream that is finally
        // opened can be matched to each other
        let mut opens = 0u8;
        loop {
            tokio::select! {
                biased;
                cmd = rx.recv() => match cmd {
                    None => return,
                    Some(UCmd::Open(y)) => {
                        opens += 1;
                        handle.set_handshake(vec![x, opens]);
                        let r = handle.open_substream(peers[y as usize]).await;
                        log.lock().push(Entry::OpenCmd { x, y, ok: r.is_ok(), err: r.err().map(|e| format!("{e:?}")).unwrap_or_default(), ended: script.0.lock().ended.len() });
                    }
                    Some(UCmd::TryOpen(y)) => {
                        opens += 1;
                        handle.set_handshake(vec![x, opens]);
                        let r = handle.try_open_substream_batch(std::iter::once(peers[y as usize]));
                        log.lock().push(Entry::OpenCmd { x, y, ok: r.is_ok(), err: r.err().map(|e| format!("refused for {} peer(s)", e.len())).unwrap_or_default(), ended: script.0.lock().ended.len() });
                    }
                    Some(UCmd::OpenBatch(y)) => {
                        opens += 1;
                        handle.set_handshake(vec![x, opens]);
                        let unknown: Vec<PeerId> = (0..4u64).map(|k| crate::util::peer(7000 + 10 * x as u64 + k)).collect();
                        let r = handle.open_substream_batch(unknown.iter().copied().chain(std::iter::once(peers[y as usize]))).await;
                        let ended = script.0.lock().ended.len();
                        let err = r.as_ref().err().map(|e| format!("refused for {} peer(s)", e.len())).unwrap_or_default();
                        // one accepted request per peer of the batch (unknown peers share the harness's "other" slot)
                        for _ in &unknown {
                            log.lock().push(Entry::OpenCmd { x, y: 255, ok: r.is_ok(), err: err.clone(), ended });
                        }
                        log.lock().push(Entry::OpenCmd { x, y, ok: r.is_ok(), err, ended });
                    }
                    Some(UCmd::SendAsync(y, data)) => {
                        let r = handle.send_async_notification(peers[y as usize], data).await;
                        log.lock().push(Entry::SendCmd { x, y, ok: r.is_ok(), err: r.err().map(|e| format!("{e:?}")).unwrap_or_default(), api: "send_async_notification" });
                    }
                    Some(UCmd::Close(y)) => {
                        handle.close_substream(peers[y as usize]).await;
                        log.lock().push(Entry::CloseCmd { x, y });
                    }
                    Some(UCmd::Send(y, data)) => {
                        let r = handle.send_sync_notification(peers[y as usize], data);
                        log.lock().push(Entry::SendCmd { x, y, ok: r.is_ok(), err: r.err().map(|e| format!("{e:?}")).unwrap_or_default(), api: "send_sync_notification" });
                    }
                    Some(UCmd::Answer(y, accept)) => {
                        let pending = deferred.remove(&y);
                        handle.send_validation_result(peers[y as usize], if accept { ValidationResult::Accept } else { ValidationResult::Reject });
                        log.lock().push(Entry::LateAnswer { x, y, accept, pending });
                    }
                },
                ev = handle.next() => match ev {
                    None => return,
                    Some(NotificationEvent::ValidateSubstream { peer, handshake, .. }) => {
                        let y = idx(&peer);
                        log.lock().push(Entry::Validate { x, y, hs: handshake });
                        let ans = if in_pair(y) {
                            let a = policy[validations.min(policy.len() - 1)];
                            validations += 1;
                            a
                        } else {
                            Ans::Accept
                        };
                        match ans {
                            Ans::Accept => handle.send_validation_result(peer, ValidationResult::Accept),
                            Ans::Reject => handle.send_validation_result(peer, ValidationResult::Reject),
                            Ans::Defer => { deferred.insert(y); }
                        }
                        log.lock().push(Entry::Answer { x, y, ans });
                    }
                    Some(NotificationEvent::NotificationStreamOpened { peer, direction, handshake, .. }) =>
                        log.lock().push(Entry::Opened { x, y: idx(&peer), inbound: direction == Direction::Inbound, hs: handshake }),
                    Some(NotificationEvent::NotificationStreamClosed { peer }) =>
                        log.lock().push(Entry::Closed { x, y: idx(&peer) }),
                    Some(NotificationEvent::NotificationStreamOpenFailure { peer, error }) =>
                        log.lock().push(Entry::OpenFailure { x, y: idx(&peer), error: format!("{error:?}") }),
                    Some(NotificationEvent::NotificationReceived { peer, notification }) =>
                        log.lock().push(Entry::Received { x, y: idx(&peer), data: notification.to_vec() }),
                },
            }
        }
    });
    tx
}

/// number of `ConnectionEstablished` events node `i` reported for `peer` so far
fn established(w: &World, i: usize, peer: &PeerId) -> usize {
    w.nodes[i].events.lock().iter().filter(|e| matches!(e, TransportEvent::ConnectionEstablished { peer: p, .. } if p == peer)).count()
}

fn ab_links(w: &World) -> Vec<usize> {
    w.links.iter().enumerate().filter(|(_, l)| (l.a == A as usize && l.b == B as usize) || (l.a == B as usize && l.b == A as usize)).map(|(k, _)| k).collect()
}

// ------------------------------------------------------------------------------------------------
// oracle
// ------------------------------------------------------------------------------------------------

#[derive(Default, Clone)]
struct View {
    /// per this node's user log: Opened seen, Closed not yet
    open: bool,
    /// number of accepted open commands not yet consumed by a result. Every Opened / OpenFailure consumes ONE cause
    /// (the pending Accept if there is one, else one open command). Lenient on purpose: the log cannot tell whether a
    /// command issued while an open was in progress was merged into it or is still queued and will get its own
    /// result later, so a merged command leaves a stale cause behind, which can only hide an unsolicited result,
    /// never invent one.
    open_causes: usize,
    /// validation requests shown to this user for that peer: (remote handshake, answer if any)
    validations: Vec<(Vec<u8>, Option<bool>)>,
    /// an accepted open command is still waiting for its result (for the local idleness test)
    outstanding: bool,
    last_owed: Option<usize>,
    /// the user answered Accept and no Opened / OpenFailure came since
    accepted: bool,
    /// log index of a validation request that has not been answered
    unanswered_validation: Option<usize>,
    /// the A–B link was cut while this view was open (or it opened over a dead link): Closed is owed
    must_close: Option<usize>,
    /// a new stream was reported opened while the Closed of the previous connection's stream was still owed
    late_close_of_previous_stream: bool,
    /// this user (or the remote's) asked to close the stream that is open per this log and Closed has not come yet
    close_requested: bool,
}

impl View {
    fn consume_one_cause(&mut self) {
        if self.accepted {
            self.accepted = false;
        } else {
            self.open_causes = self.open_causes.saturating_sub(1);
        }
    }
}

struct Owed {
    idx: usize,
    x: u8,
    y: u8,
    answered: bool,
    rejected_locally: bool,
    remote_busy: bool,
    cut_after: bool,
}

fn in_ab(x: u8, y: u8) -> bool {
    (x == A && y == B) || (x == B && y == A)
}

fn oracle(log: &[Entry], scn: &NotifScenario, ab_live_at_end: bool, ended_final: [usize; N]) -> Vec<Viol> {
    let mut out = Vec::new();
    let mut v: Vec<Vec<View>> = vec![vec![View::default(); N + 1]; N + 1];
    let mut owed: Vec<Owed> = Vec::new();
    let mut ab_up = true;
    let auto = |x: u8| match x {
        A => scn.auto[0],
        B => scn.auto[1],
        _ => true,
    };
    let name = |i: u8| ["A", "B", "C", "?"][(i as usize).min(3)];
    let ctx = |i: usize| -> String {
        let from = i.saturating_sub(12);
        format!("log[{from}..={i}] = {}", log[from..=i].iter().map(|e| e.code()).collect::<Vec<_>>().join(" "))
    };
    let cl = |x: u8| (x as usize).min(N);
    for (i, e) in log.iter().enumerate() {
        match e {
            Entry::OpenCmd { x, y, ok, .. } => {
                if !*ok {
                    continue;
                }
                let connected = if in_ab(*x, *y) { ab_up } else { true };
                let remote = v[cl(*y)][cl(*x)].clone();
                let me = &mut v[cl(*x)][cl(*y)];
                let local_idle = !me.open && !me.outstanding && !me.accepted && me.unanswered_validation.is_none();
                if connected && local_idle {
                    owed.push(Owed {
                        idx: i,
                        x: *x,
                        y: *y,
                        answered: false,
                        rejected_locally: false,
                        remote_busy: remote.open || remote.outstanding || remote.accepted || remote.unanswered_validation.is_some(),
                        cut_after: false,
                    });
                    me.last_owed = Some(owed.len() - 1);
                }
                me.outstanding = true;
                me.open_causes += 1;
            }
            Entry::CloseCmd { x, y } => {
                // both ends of the stream will be reported closed: x's by its own request, y's because x's side goes away
                for (p, q) in [(*x, *y), (*y, *x)] {
                    let view = &mut v[cl(p)][cl(q)];
                    if view.open {
                        view.close_requested = true;
                    }
                }
            }
            Entry::SendCmd { x, y, ok, api, .. } => {
                if *ok && !v[cl(*x)][cl(*y)].open {
                    // `send_sync_notification` answers Ok(()) for a peer without a stream and drops the notification
                    // (the repository's own test send_sync_notification_to_non_existent_peer_tcp expects that). Nothing
                    // is sent, so "can send only between opened and closed" is not violated; a notification that is
                    // DELIVERED outside an open period is caught on the receiving side. Counted as an observation.
                    let _ = (api, i);
                    SEND_OK_WHILE_CLOSED.fetch_add(1, std::sync::atomic::Ordering::Relaxed);
                }
            }
            Entry::Validate { x, y, hs } => {
                let me = &mut v[cl(*x)][cl(*y)];
                me.unanswered_validation = Some(i);
                me.accepted = false;
                me.validations.push((hs.clone(), None));
            }
            Entry::Answer { x, y, ans } => {
                let me = &mut v[cl(*x)][cl(*y)];
                if *ans != Ans::Defer {
                    if let Some(last) = me.validations.last_mut() {
                        last.1 = Some(*ans == Ans::Accept);
                    }
                }
                answer(me, &mut owed, *ans)
            }
            Entry::LateAnswer { x, y, accept, pending } => {
                if *pending {
                    // `send_validation_result(peer, ..)` answers the request the handle polled last for that peer
                    let me = &mut v[cl(*x)][cl(*y)];
                    if let Some(last) = me.validations.last_mut() {
                        if last.1.is_none() {
                            last.1 = Some(*accept);
                        }
                    }
                    answer(me, &mut owed, if *accept { Ans::Accept } else { Ans::Reject });
                }
            }
            Entry::Opened { x, y, inbound, hs } => {
                if *inbound && !auto(*x) {
                    // "an inbound stream is opened only after the user accepted IT": the stream carries the handshake
                    // of one particular open attempt of the remote
                    let me = &v[cl(*x)][cl(*y)];
                    if let Some((_, answer)) = me.validations.iter().rev().find(|(h, _)| h == hs) {
                        if *answer != Some(true) {
                            out.push(Viol::new(
                                "notif/inbound-opened-although-that-substream-was-not-accepted",
                                format!(
                                    "{}: NotificationStreamOpened (inbound) from {} with handshake {hs:?}: the validation request for that very substream was answered {:?} by {}'s user (an Accept meant for an older request of the same peer was applied to it?); {}",
                                    name(*x), name(*y), answer.map(|a| if a { "Accept" } else { "Reject" }), name(*x), ctx(i)
                                ),
                            ));
                        }
                    }
                }
                let link_down = in_ab(*x, *y) && !ab_up;
                let me = &mut v[cl(*x)][cl(*y)];
                if me.open {
                    // cause class: the stream still open per the user's log belongs to a connection that has been lost
                    // (its Closed is merely late) / it is a stream of the live connection
                    let cause = if me.must_close.is_some() {
                        "previous-stream-of-lost-connection-not-yet-closed"
                    } else if me.close_requested {
                        "previous-stream-closed-by-user-not-yet-reported-closed"
                    } else {
                        "stream-of-live-connection"
                    };
                    if me.must_close.is_some() || me.close_requested {
                        me.late_close_of_previous_stream = true;
                    }
                    out.push(Viol::new(
                        format!("notif/grammar/opened-while-open/{cause}"),
                        format!("{}: NotificationStreamOpened for {} while the stream to that peer is already open (no Closed in between); {}", name(*x), name(*y), ctx(i)),
                    ));
                }
                if (*inbound || me.open_causes == 0) && !(me.accepted || (auto(*x) && me.open_causes > 0)) {
                    out.push(Viol::new(
                        "notif/inbound-opened-without-accept",
                        format!(
                            "{}: NotificationStreamOpened for {} (direction {}) but {}'s user has not accepted a validation request of that peer since the previous open result (auto-accept {}, own open request pending: {}); {}",
                            name(*x), name(*y), if *inbound { "inbound" } else { "outbound" }, name(*x), auto(*x), me.open_causes > 0, ctx(i)
                        ),
                    ));
                }
                me.open = true;
                me.consume_one_cause();
                me.outstanding = false;
                if let Some(o) = me.last_owed {
                    owed[o].answered = true;
                }
                if link_down {
                    me.must_close = Some(i);
                }
            }
            Entry::Closed { x, y } => {
                let me = &mut v[cl(*x)][cl(*y)];
                if !me.open {
                    let cause = if me.late_close_of_previous_stream { "second-close-after-late-close-of-previous-stream" } else { "no-stream" };
                    me.late_close_of_previous_stream = false;
                    out.push(Viol::new(
                        format!("notif/grammar/closed-while-not-open/{cause}"),
                        format!("{}: NotificationStreamClosed for {} without a preceding NotificationStreamOpened; {}", name(*x), name(*y), ctx(i)),
                    ));
                }
                me.open = false;
                me.must_close = None;
                me.close_requested = false;
            }
            Entry::OpenFailure { x, y, error } => {
                let me = &mut v[cl(*x)][cl(*y)];
                if me.open {
                    out.push(Viol::new(
                        "notif/open-failure-while-open",
                        format!("{}: NotificationStreamOpenFailure({error}) for {} while the stream to that peer is open per {}'s log; {}", name(*x), name(*y), name(*x), ctx(i)),
                    ));
                } else if me.open_causes == 0 && !me.accepted {
                    out.push(Viol::new(
                        "notif/grammar/open-failure-without-request",
                        format!(
                            "{}: NotificationStreamOpenFailure({error}) for {} although every open request and every accepted validation of {} for that peer already got its one result; {}",
                            name(*x), name(*y), name(*x), ctx(i)
                        ),
                    ));
                }
                me.consume_one_cause();
                me.outstanding = false;
                if let Some(o) = me.last_owed {
                    owed[o].answered = true;
                }
            }
            Entry::Received { x, y, .. } => {
                if !v[cl(*x)][cl(*y)].open {
                    out.push(Viol::new(
                        "notif/grammar/received-while-closed",
                        format!("{}: NotificationReceived from {} while no stream to that peer is open per {}'s log; {}", name(*x), name(*y), name(*x), ctx(i)),
                    ));
                }
            }
            Entry::Cut => {
                ab_up = false;
                for (x, y) in [(A, B), (B, A)] {
                    let me = &mut v[cl(x)][cl(y)];
                    if me.open && me.must_close.is_none() {
                        me.must_close = Some(i);
                    }
                }
                for o in owed.iter_mut().filter(|o| in_ab(o.x, o.y)) {
                    o.cut_after = true;
                }
            }
            Entry::Up => ab_up = true,
        }
    }
    let last = log.len().saturating_sub(1);
    for o in &owed {
        if o.answered || o.cut_after {
            continue;
        }
        // an open request that waits for a validation the REMOTE's user never answers is ended by the opener's 10 s
        // negotiation timeout (virtual clock): no exemption. A validation request of the counter-stream that the
        // opener's OWN user never answers keeps the request legitimately pending (the protocol re-checks every 5 s)
        if v[cl(o.x)][cl(o.y)].unanswered_validation.is_some_and(|j| j > o.idx) {
            continue;
        }
        // SimNet ground truth: one of x's connection tasks ended after the request was accepted although the peer stayed
        // connected (no cut since) — the request may have gone to a primary connection that then closed while a
        // secondary connection kept the peer connected; TransportService drops such pending opens silently
        let ended_at_request = if let Entry::OpenCmd { ended, .. } = &log[o.idx] { *ended } else { 0 };
        let situation = if o.rejected_locally {
            "local-user-rejected-inbound"
        } else if ended_final[o.x as usize] > ended_at_request {
            "own-connection-ended-while-peer-stayed-connected"
        } else if o.remote_busy {
            "remote-busy"
        } else {
            "idle-pair"
        };
        out.push(Viol::new(
            format!("notif/open-unanswered/{situation}"),
            format!(
                "{}: open_substream({}) returned Ok at log[{}] while the peer was connected and nothing was in progress for it on that handle, but neither NotificationStreamOpened nor NotificationStreamOpenFailure followed by quiescence; full log = {}",
                name(o.x), name(o.y), o.idx, log.iter().map(|e| e.code()).collect::<Vec<_>>().join(" ")
            ),
        ));
    }
    for (x, y) in [(A, B), (B, A)] {
        let me = &v[cl(x)][cl(y)];
        if let Some(j) = me.must_close {
            out.push(Viol::new(
                "notif/not-closed-after-disconnect",
                format!(
                    "{}: the stream to {} was open when the A-B link was cut (log[{j}]) but NotificationStreamClosed was never reported; full log = {}",
                    name(x), name(y), log.iter().map(|e| e.code()).collect::<Vec<_>>().join(" ")
                ),
            ));
        } else if me.open && !ab_live_at_end {
            out.push(Viol::new(
                "notif/not-closed-after-disconnect",
                format!("{}: the stream to {} is open at quiescence although no carrier between A and B is alive; {}", name(x), name(y), if log.is_empty() { String::new() } else { ctx(last) }),
            ));
        }
    }
    out
}

fn answer(me: &mut View, owed: &mut [Owed], ans: Ans) {
    match ans {
        Ans::Accept => {
            me.accepted = true;
            me.unanswered_validation = None;
        }
        Ans::Reject => {
            me.unanswered_validation = None;
            // the local user turned the peer's half of the stream down: nothing is in progress locally any more
            if me.outstanding {
                me.outstanding = false;
                if let Some(o) = me.last_owed {
                    if !owed[o].answered {
                        owed[o].rejected_locally = true;
                    }
                }
            }
        }
        Ans::Defer => {}
    }
}

// ------------------------------------------------------------------------------------------------
// scenario
// ------------------------------------------------------------------------------------------------

impl NotifScenario {
    fn probe(&self, st: &mut St, w: &mut World) -> Vec<Viol> {
        // does A's log say the stream to C is open?
        let open_ac = {
            let log = st.log.lock();
            let mut open = false;
            for e in log.iter() {
                match e {
                    Entry::Opened { x: A, y: C, .. } => open = true,
                    Entry::Closed { x: A, y: C } => open = false,
                    _ => {}
                }
            }
            open
        };
        let mark = st.log.lock().len();
        if !open_ac {
            let _ = st.cmd[A as usize].send(UCmd::Open(C));
            if !w.run_to_quiescence(QUIESCENCE_CAP) {
                return vec![Viol::new("notif/no-quiescence", "step cap hit during the liveness probe (A opens a stream to C)")];
            }
        }
        let payload = vec![0xEE, 0x0C, 0x11];
        let _ = st.cmd[A as usize].send(UCmd::Send(C, payload.clone()));
        if !w.run_to_quiescence(QUIESCENCE_CAP) {
            return vec![Viol::new("notif/no-quiescence", "step cap hit during the liveness probe (A sends to C)")];
        }
        let log = st.log.lock();
        let got = log[mark..].iter().any(|e| matches!(e, Entry::Received { x: C, y: A, data } if *data == payload));
        if got {
            Vec::new()
        } else {
            vec![Viol::new(
                "notif/stopped-serving-other-peer",
                format!(
                    "after the scenario, A {} the stream to the untouched, connected peer C and sent one notification, but C's user never received it; probe log = {}; full log = {}",
                    if open_ac { "used" } else { "opened" },
                    log[mark..].iter().map(|e| e.code()).collect::<Vec<_>>().join(" "),
                    log.iter().map(|e| e.code()).collect::<Vec<_>>().join(" ")
                ),
            )]
        }
    }
}

impl Scenario for NotifScenario {
    type State = St;

    fn name(&self) -> String {
        let pol = |p: &Vec<Ans>| p.iter().map(|a| match a { Ans::Accept => "+", Ans::Reject => "-", Ans::Defer => "~" }).collect::<String>();
        format!(
            "notif[{} | A:{}{} B:{}{}]",
            self.program.iter().map(|o| o.code()).collect::<Vec<_>>().join("; "),
            pol(&self.policy[0]),
            if self.auto[0] { "auto" } else { "" },
            pol(&self.policy[1]),
            if self.auto[1] { "auto" } else { "" }
        )
    }

    fn config(&self) -> Value {
        serde_json::to_value(self).unwrap()
    }

    fn setup(&self, w: &mut World) -> St {
        let mut handles = Vec::new();
        for i in 0..N {
            let auto = if i < 2 { self.auto[i] } else { true };
            let (cfg, handle) = NotifConfigBuilder::new(proto())
                .with_max_size(MAX_NOTIFICATION)
                .with_handshake(vec![0xA0 + i as u8, i as u8])
                .with_auto_accept_inbound(auto)
                .with_sync_channel_size(4)
                .with_async_channel_size(4)
                .build();
            let n = w
                .add_node(31 + i as u64, ConfigBuilder::new().with_notification_protocol(cfg).with_keep_alive_timeout(Duration::from_secs(3600)))
                .expect("node");
            assert_eq!(n, i);
            handles.push(handle);
        }
        let peers = [w.nodes[0].peer, w.nodes[1].peer, w.nodes[2].peer];
        let log: Log = Arc::new(Mutex::new(Vec::new()));
        let mut cmd = Vec::new();
        for (i, handle) in handles.into_iter().enumerate() {
            let policy = if i < 2 { self.policy[i].clone() } else { vec![Ans::Accept] };
            cmd.push(spawn_user(w, i as u8, handle, peers, policy, log.clone()));
        }
        let addr_b = w.nodes[B as usize].address.clone();
        let addr_c = w.nodes[C as usize].address.clone();
        w.nodes[A as usize].cmd.send(NodeCmd::DialAddress(addr_b.clone())).unwrap();
        w.run_to_quiescence(50_000);
        w.nodes[A as usize].cmd.send(NodeCmd::DialAddress(addr_c)).unwrap();
        w.run_to_quiescence(50_000);
        St { cmd, log, pc: 0, peers, addr_b, cut_links: BTreeSet::new(), ab_up: true, est_at_cut: (0, 0), sends: 0 }
    }

    fn lazy_count(&self, st: &St, _w: &World) -> usize {
        usize::from(st.pc < self.program.len())
    }

    /// once everything is quiescent, 4 x 30 s of virtual time: the protocol's negotiation timeout (10 s) and its
    /// validation re-check timer (5 s) run on the runtime clock (cfg hook) and get their chance to fire — with a wide
    /// margin, so that a retuning of those timers does not turn into "request never answered"
    fn time(&self) -> (u32, Duration) {
        (4, Duration::from_secs(30))
    }

    fn lazy_apply(&self, st: &mut St, w: &mut World, _k: usize) {
        match self.program[st.pc] {
            Op::Open { from, to } => {
                let _ = st.cmd[from as usize].send(UCmd::Open(to));
            }
            Op::Close { from, to } => {
                let _ = st.cmd[from as usize].send(UCmd::Close(to));
            }
            Op::Send { from, to } => {
                st.sends += 1;
                let _ = st.cmd[from as usize].send(UCmd::Send(to, vec![0x50 + from, st.sends]));
            }
            Op::TryOpen { from, to } => {
                let _ = st.cmd[from as usize].send(UCmd::TryOpen(to));
            }
            Op::OpenBatch { from, to } => {
                let _ = st.cmd[from as usize].send(UCmd::OpenBatch(to));
            }
            Op::SendAsync { from, to } => {
                st.sends += 1;
                let _ = st.cmd[from as usize].send(UCmd::SendAsync(to, vec![0x60 + from, st.sends]));
            }
            Op::Answer { node, peer, accept } => {
                let _ = st.cmd[node as usize].send(UCmd::Answer(peer, accept));
            }
            Op::Cut => {
                for k in ab_links(w) {
                    if st.cut_links.insert(k) {
                        w.cut_link(k);
                    }
                }
                st.ab_up = false;
                st.est_at_cut = (established(w, A as usize, &st.peers[B as usize]), established(w, B as usize, &st.peers[A as usize]));
                st.log.lock().push(Entry::Cut);
            }
            Op::Reconnect => {
                let _ = w.nodes[A as usize].cmd.send(NodeCmd::DialAddress(st.addr_b.clone()));
            }
            Op::HoldOpens { node, hold } => w.nodes[node as usize].script.set_hold_opens(hold),
            Op::DeadDialTimesOut => w.release_dead_dials(),
            Op::ReconnectFromB => {
                let addr_a = w.nodes[A as usize].address.clone();
                let _ = w.nodes[B as usize].cmd.send(NodeCmd::DialAddress(addr_a));
            }
            Op::DialDead | Op::DialDeadSlow => {
                if matches!(self.program[st.pc], Op::DialDeadSlow) {
                    w.faults.hold_dead_dials = true;
                }
                let dead: multiaddr::Multiaddr = "/ip4/10.99.99.99/tcp/9".parse().unwrap();
                let dead = dead.with(multiaddr::Protocol::P2p(w.nodes[B as usize].peer.into()));
                let _ = w.nodes[A as usize].cmd.send(NodeCmd::DialAddress(dead));
            }
        }
        st.pc += 1;
    }

    fn monitor(&self, st: &mut St, w: &World) -> Vec<Viol> {
        // ground truth "A and B are connected again": an uncut carrier exists and both nodes reported a connection
        // to the other one after the cut
        if !st.ab_up
            && ab_links(w).iter().any(|k| !st.cut_links.contains(k))
            && established(w, A as usize, &st.peers[B as usize]) > st.est_at_cut.0
            && established(w, B as usize, &st.peers[A as usize]) > st.est_at_cut.1
        {
            st.ab_up = true;
            st.log.lock().push(Entry::Up);
        }
        Vec::new()
    }

    fn finish(&self, st: &mut St, w: &mut World, quiescent: bool) -> Vec<Viol> {
        if !quiescent {
            return vec![Viol::new("notif/no-quiescence", "step cap hit: the system never became quiescent")];
        }
        let mut v = self.probe(st, w);
        let live = ab_links(w).iter().any(|k| !st.cut_links.contains(k));
        let log = st.log.lock().clone();
        let ended_final: [usize; N] = std::array::from_fn(|i| w.nodes[i].script.0.lock().ended.len());
        v.extend(oracle(&log, self, live, ended_final));
        v
    }

    fn trace_class(&self, st: &St, _w: &World) -> String {
        st.log.lock().iter().map(|e| e.code()).collect::<Vec<_>>().join(" ")
    }
}

// ------------------------------------------------------------------------------------------------
// scenario programs
// ------------------------------------------------------------------------------------------------

const AO: Op = Op::Open { from: A, to: B };
const AC: Op = Op::Close { from: A, to: B };
const BO: Op = Op::Open { from: B, to: A };
const BC: Op = Op::Close { from: B, to: A };
const AS: Op = Op::Send { from: A, to: B };
const BS: Op = Op::Send { from: B, to: A };
const AT: Op = Op::TryOpen { from: A, to: B };
const AY: Op = Op::SendAsync { from: A, to: B };
const AOC: Op = Op::Open { from: A, to: C };
const AB4: Op = Op::OpenBatch { from: A, to: B };
const CUT: Op = Op::Cut;
const REC: Op = Op::Reconnect;
const DEAD: Op = Op::DialDead;
const DEAD_SLOW: Op = Op::DialDeadSlow;
const DEAD_OUT: Op = Op::DeadDialTimesOut;
const REC_B: Op = Op::ReconnectFromB;
const HOLD_A: Op = Op::HoldOpens { node: A, hold: true };
const FREE_A: Op = Op::HoldOpens { node: A, hold: false };
const B_ACC: Op = Op::Answer { node: B, peer: A, accept: true };
const B_REJ: Op = Op::Answer { node: B, peer: A, accept: false };
const A_ACC: Op = Op::Answer { node: A, peer: B, accept: true };

fn scn(program: &[Op], pa: &[Ans], pb: &[Ans], auto_a: bool, auto_b: bool) -> NotifScenario {
    NotifScenario { program: program.to_vec(), policy: [pa.to_vec(), pb.to_vec()], auto: [auto_a, auto_b] }
}

/// (scenario, deviation bound), simplest first
pub fn scenarios(thorough: bool) -> Vec<(NotifScenario, usize)> {
    use Ans::*;
    let acc: &[Ans] = &[Accept];
    let rej: &[Ans] = &[Reject];
    let def: &[Ans] = &[Defer];
    let hand = vec![
        // single open: accept / reject / never answered, on either side, with and without auto-accept
        scn(&[AO], acc, acc, false, false),
        scn(&[AO], acc, acc, true, false),
        scn(&[AO], acc, rej, false, false),
        scn(&[AO], acc, def, false, false),
        scn(&[AO], rej, acc, false, false),
        scn(&[AO], def, acc, false, false),
        scn(&[AO], rej, acc, true, false),
        // send without a stream
        scn(&[AS], acc, acc, false, false),
        scn(&[AY], acc, acc, false, false),
        // the batch variant of open
        scn(&[AT], acc, acc, false, false),
        // both sides open (simultaneously under a deviation)
        scn(&[AO, BO], acc, acc, false, false),
        scn(&[AO, BO], acc, acc, true, true),
        scn(&[AO, BO], acc, rej, false, false),
        scn(&[AO, BO], acc, rej, true, true),
        scn(&[BO, AO], acc, acc, false, true),
        // close while opening (deviation) / open then close
        scn(&[AO, AC], acc, acc, false, false),
        scn(&[AO, BC], acc, acc, true, false),
        // link cut (during negotiation under a deviation)
        scn(&[AO, CUT], acc, acc, false, false),
        scn(&[AO, CUT], acc, acc, true, false),
        scn(&[AO, CUT], acc, def, false, false),
        scn(&[AO, CUT], def, acc, false, false),
        // late validation answers
        scn(&[AO, B_ACC], acc, def, false, false),
        scn(&[AO, B_REJ], acc, def, true, false),
        scn(&[AO, A_ACC], def, acc, false, false),
        // open when the peer is not connected (dial on demand)
        scn(&[CUT, AO], acc, acc, false, false),
        // a dial of the connected peer's other (dead) address fails while the stream is being negotiated / awaits
        // validation / is open: the failure concerns nobody's stream
        scn(&[AO, DEAD, B_ACC, AS], acc, def, false, false),
        scn(&[AO, DEAD, AS], acc, acc, false, false),
        scn(&[BO, DEAD, A_ACC, AS], def, acc, false, false),
        scn(&[HOLD_A, AO, DEAD, FREE_A, AS], acc, acc, false, false),
        // A's dial of a dead address of B is still unanswered when B connects on its own; a stream is then opened and the
        // stale dial times out while that stream awaits validation / is open
        scn(&[CUT, DEAD_SLOW, REC_B, AO, DEAD_OUT, B_ACC, AS], acc, def, false, false),
        scn(&[CUT, DEAD_SLOW, REC_B, AO, DEAD_OUT, AS], acc, acc, false, false),
        scn(&[CUT, DEAD_SLOW, REC_B, BO, DEAD_OUT, A_ACC, AS], def, acc, false, false),
        // the bystander
        scn(&[AO, AOC], acc, acc, false, false),
        // open, close, reopen
        scn(&[AO, AC, AO], acc, acc, false, false),
        scn(&[AO, AC, AO], acc, acc, true, true),
        scn(&[AO, AC, BO], acc, acc, false, false),
        scn(&[AO, BC, AO], acc, acc, true, false),
        scn(&[AO, BC, BO], acc, acc, false, false),
        // reopen after a rejection
        scn(&[AO, AO], acc, &[Reject, Accept], false, false),
        scn(&[AO, BO], acc, &[Reject, Accept], true, false),
        // A rejects B's stream while its own open towards B is still in flight, then asks again (the window in which
        // the first outbound substream is still pending)
        scn(&[BO, AO, AO], &[Reject, Accept], acc, false, false),
        scn(&[AO, BO, AO], &[Reject, Accept], acc, false, false),
        // ... with A's new outbound substream slow to open, so that the window stays open across whole commands
        scn(&[HOLD_A, AO, BO, AO, FREE_A], &[Reject, Accept], acc, false, false),
        scn(&[HOLD_A, AO, BO, FREE_A], &[Reject, Accept], acc, false, false),
        scn(&[HOLD_A, AO, BO, FREE_A], acc, acc, false, false),
        scn(&[HOLD_A, AO, AC, AO, FREE_A], acc, acc, false, false),
        scn(&[HOLD_A, AO, CUT, FREE_A], acc, acc, false, false),
        // a validation request left unanswered across two disconnects, a fresh open attempt, then the late answer: it
        // must not be applied to the new substream, which B's user turns down
        scn(&[AO, CUT, REC, CUT, REC, AO, B_ACC], acc, &[Defer, Reject], false, false),
        scn(&[AO, CUT, REC, AO, B_ACC], acc, &[Defer, Reject], false, false),
        // a batch of open requests in which some peers cannot even be dialed: every peer gets its own answer
        scn(&[AB4], acc, acc, false, false),
        scn(&[AB4, AS, AC], acc, acc, true, true),
        scn(&[CUT, AB4], acc, acc, false, false),
        // notifications
        scn(&[AO, AS, AC], acc, acc, false, false),
        scn(&[AO, BS, BC], acc, acc, true, false),
        scn(&[AT, AY, AC], acc, acc, true, false),
        scn(&[AT, AC, AT], acc, acc, false, false),
        scn(&[AO, AS, CUT], acc, acc, false, false),
        // a second open request while the first is in progress, then the connection drops
        scn(&[AO, AO, CUT], acc, acc, false, false),
        // validation answered after the connection is gone
        scn(&[AO, CUT, B_ACC], acc, def, false, false),
        scn(&[AO, CUT, B_REJ], acc, def, false, false),
        scn(&[AOC, AO, CUT], acc, acc, false, false),
        // reconnect and reopen
        scn(&[CUT, REC, AO], acc, acc, false, false),
        scn(&[AO, CUT, REC, AO], acc, acc, false, false),
        scn(&[AO, CUT, REC, BO], acc, acc, true, true),
        scn(&[AO, CUT, REC, AO], acc, def, false, false),
        scn(&[AO, CUT, REC, B_ACC], acc, def, false, false),
        // close on both sides, then reopen (the stale-shutdown-message hypothesis)
        scn(&[AO, AC, BC, AO], acc, acc, false, false),
        scn(&[AO, AC, BC, BO], acc, acc, true, true),
    ];
    // programs that get two deviations in the quick tier although they are longer than two commands
    let hypothesis = |s: &NotifScenario| (s.program.len() == 4 && s.program[..3] == [AO, AC, BC]) || s.program == [AO, AO, CUT] || s.policy[0].len() == 2;
    let mut v: Vec<(NotifScenario, usize)> = Vec::new();
    for s in hand {
        let n = s.program.len();
        let bound = if thorough {
            // bound 3 for the single-command programs and for close -> reopen (the stale shutdown message hypothesis
            // needs three deviations to show up when the select priority is inverted, see the mutation demo)
            if n == 1 || (n == 3 && s.program[..2] == [AO, AC] && !s.auto[0]) { 3 } else { 2 }
        } else if n <= 2 || hypothesis(&s) {
            2
        } else {
            1
        };
        v.push((s, bound));
    }
    if thorough {
        // ALL sequences of length <= 3 over the core alphabet, for three configurations
        let alphabet = [AO, AC, BO, BC, AS, CUT, REC];
        let mut seqs: Vec<Vec<Op>> = Vec::new();
        for a in alphabet {
            seqs.push(vec![a]);
            for b in alphabet {
                seqs.push(vec![a, b]);
                for c in alphabet {
                    seqs.push(vec![a, b, c]);
                }
            }
        }
        for (k, (pa, pb, aa, ab)) in [(acc, acc, false, false), (acc, acc, true, true), (acc, &[Reject, Accept][..], true, false)].into_iter().enumerate() {
            for s in &seqs {
                let bound = if s.len() <= 2 || k == 0 { 2 } else { 1 };
                v.push((scn(s, pa, pb, aa, ab), bound));
            }
        }
        // deferred validation at B with every late answer position
        let alphabet2 = [AO, BO, CUT, REC, B_ACC, B_REJ];
        for a in alphabet2 {
            for b in alphabet2 {
                v.push((scn(&[AO, a, b], acc, def, false, false), 2));
                v.push((scn(&[AO, a, b], acc, def, true, true), 1));
            }
        }
    }
    // dedup (keep the larger bound), simplest first (stable)
    let mut best: std::collections::HashMap<NotifScenario, usize> = std::collections::HashMap::new();
    for (s, b) in &v {
        let e = best.entry(s.clone()).or_insert(0);
        *e = (*e).max(*b);
    }
    let mut seen = std::collections::HashSet::new();
    v.retain(|(s, _)| seen.insert(s.clone()));
    for (s, b) in v.iter_mut() {
        *b = best[s];
    }
    v.sort_by_key(|(s, _)| s.program.len());
    v
}

/// sends that returned Ok(()) although no stream was open (silently dropped by the API; observation only)
static SEND_OK_WHILE_CLOSED: std::sync::atomic::AtomicU64 = std::sync::atomic::AtomicU64::new(0);

pub fn run(ctx: &mut Ctx) {
    let thorough = ctx.tier == crate::report::Tier::Thorough;
    let mut scns = scenarios(thorough);
    // debugging knobs (not used by the tiers): restrict to scenarios whose name contains a substring / force a bound
    if let Ok(only) = std::env::var("VERIF_C11_ONLY") {
        scns.retain(|(s, _)| s.name().contains(&only));
    }
    if let Some(b) = std::env::var("VERIF_C11_BOUND").ok().and_then(|b| b.parse::<usize>().ok()) {
        scns.iter_mut().for_each(|(_, x)| *x = b);
    }
    ctx.cov("programs", scns.len() as u64);
    let mut per_bound: BTreeMap<usize, u64> = BTreeMap::new();
    let mut min_completed = usize::MAX;
    for (s, b) in &scns {
        let e2 = E2 { bound: *b, max_executions: 3_000_000, demotions: usize::from(thorough), bound_with_demotion: 2, ..Default::default() };
        let out = e2.explore(s);
        *per_bound.entry(out.stats.bound_completed).or_default() += 1;
        min_completed = min_completed.min(out.stats.bound_completed);
        if std::env::var("VERIF_C11_PROGRESS").is_ok() {
            eprintln!("{:>7.1}s  b{} {:>7} exec  {}", ctx.started.elapsed().as_secs_f64(), b, out.stats.executions, s.name());
        }
        e2::absorb(ctx, &s.name(), out);
    }
    ctx.cov("deviation_bound", min_completed as u64);
    ctx.cov("programs_per_completed_deviation_bound", json!(per_bound.iter().map(|(k, v)| (k.to_string(), *v)).collect::<BTreeMap<_, _>>()));
    ctx.cov(
        "rule",
        "for every scenario (program of <= 4 user commands / link faults over A.open(B), A.close(B), B.open(A), B.close(A), send, late validation answer, \
         cut(A-B), A.dial(B), A.open(C) x validation policy of A and B x auto-accept of A and B): E2 runs the default (FIFO) schedule of all tasks of three real \
         Litep2p nodes on SimNet and every schedule with up to deviation_bound deviations (another enabled task first, or the next command / fault issued before \
         quiescence), each to quiescence, then the liveness probe A->C; the oracle is the per-(node, peer) event grammar on the globally ordered user log; \
         states = distinct observable traces",
    );
    ctx.cov("observed_send_ok_while_closed", SEND_OK_WHILE_CLOSED.load(std::sync::atomic::Ordering::Relaxed));
    ctx.assume("send_sync_notification returns Ok(()) for a peer without an open stream and drops the notification (by design, asserted by the repository's own tests): nothing is sent, so this is counted as an observation, not reported");
    ctx.assume("SimNet's connection task mirrors transport/tcp/connection.rs over real yamux + multistream-select + ProtocolSet; Noise/TCP below yamux is replaced by an in-memory pipe (DESIGN §2.3)");
    ctx.assume("interleaving granularity is one poll of one task; tokio::select! branch order inside a poll is fixed by the runtime seed");
    ctx.assume(
        "the notification protocol's negotiation timeout (10 s) and 'peer did not answer' timer (5 s) run on the runtime's virtual clock (cfg hook replacing futures_timer::Delay): \
         after quiescence every execution lets 4 x 30 s pass, so every pending negotiation is ended by its timeout and every accepted open request is owed a result",
    );
    ctx.assume("keep-alive timeout 3600 s > the 120 s of idle clock ticks: connections are only lost through the scripted cut(A-B)");
    ctx.assume("'connected' is the harness's ground truth: the A-B carrier was not cut, or after a cut an uncut carrier exists and both nodes reported ConnectionEstablished for the other one");
}

pub fn replay(case: &Value) -> Result<String, String> {
    let s: NotifScenario = serde_json::from_value(case["config"].clone()).map_err(|e| e.to_string())?;
    e2::replay(&s, case)
}
