//! C19 — bytes from the network can never panic or over-allocate a decoder.
//!
//! Engine E3: bounded exhaustive enumeration of a structured neighbourhood of valid encodings through the real
//! litep2p decoders, with three oracles on every call: no panic (`catch_unwind`), termination (sync decoders
//! return; stream negotiations reach "all tasks done" under the deterministic driver once the canned input is
//! exhausted and closed; a wall-clock watchdog only exists to turn an in-poll infinite loop into a report instead
//! of a stuck harness) and a per-call allocation bound measured with the counting global allocator
//! (`peak <= limit(decoder) + 16*|input| + 64 KiB`). Round trips of the library's own encoders are checked first.
//!
//! Neighbourhood per decoder (all enumerated completely, simplest first):
//!  * `corpus`   one valid encoding per message kind / shape, produced by litep2p's own encoders
//!  * `short`    every byte string of length 0, 1, 2 (thorough: also length 3 for the synchronous decoders)
//!  * `trunc`    every proper prefix of every corpus item
//!  * `subst`    every offset x {00,01,7f,80,ff,b^1}
//!  * `extreme`  every length-prefix / varint position x 10 extreme varints (inside nested protobuf messages both
//!               raw and with the enclosing length prefixes re-encoded consistently)
//!  * `splice`   prefix(A)[..i] + B[j..] for corpus pairs of items <= 64 bytes, all (i, j)
//!  * `pending`  (stream negotiations) one spurious `Pending` at every read-operation index of every corpus item

use crate::{
    env::{alloc, driver, pipe},
    mc::e1,
    report::{Ctx, Tier, Violation},
    util,
};
use bytes::{Bytes, BytesMut};
use cid::Cid;
use futures::{
    io::{AsyncRead, AsyncWrite},
    AsyncReadExt,
};
use litep2p::{
    crypto::{PublicKey, RemotePublicKey},
    protocol::libp2p::{
        bitswap::{verif as bs, BlockPresenceType, ResponseType},
        identify::verif as idf,
        kademlia::{
            verif::{self as kad, ConnectionType, KademliaMessage, KademliaPeer},
            ContentProvider, Record, RecordKey,
        },
    },
    verif::{
        dialer_select_proto, listener_select_proto, noise_payload, webrtc_listener_negotiate, HandshakeResult,
        HeaderLine, ListenerSelectResult, Message, NegotiationError, Protocol, Version, WebRtcDialerState,
        VERIF_MAX_FRAME_SIZE,
    },
    PeerId, ProtocolName,
};
use multiaddr::Multiaddr;
use parking_lot::Mutex;
use prost::Message as _;
use serde_json::{json, Value};
use std::{
    collections::{BTreeMap, HashSet},
    io,
    panic::{catch_unwind, AssertUnwindSafe},
    pin::Pin,
    sync::{
        atomic::{AtomicU64, AtomicUsize, Ordering},
        mpsc, Arc,
    },
    task::{Context, Poll},
    time::{Duration, Instant},
};

const SLACK: usize = 64 * 1024;
const PER_BYTE: usize = 16;
const STEP_CAP: u64 = 100_000;
const WATCHDOG_SECS: u64 = 30;
/// fixed "remote DH static key" the Noise payload signatures are made over
const DH_PUB: [u8; 32] = [0x42; 32];
const PROTO_A: &str = "/proto/a";
const PROTO_B: &str = "/proto/b";

// stream-negotiation parameter bits
const P_LAZY: u32 = 1;
const P_TWO: u32 = 2;
const P_CHUNK1: u32 = 4;

// ------------------------------------------------------------------------------------------------
// decoders
// ------------------------------------------------------------------------------------------------

#[derive(Clone, Copy, PartialEq, Eq, Debug, Hash, PartialOrd, Ord)]
enum Dec {
    MsMessage,
    WebrtcListener,
    WebrtcDialer,
    ListenerSelect,
    DialerSelect,
    Kademlia,
    PublicKey,
    PeerIdBytes,
    NoisePayload,
    Bitswap,
    BitswapPrefix,
    Identify,
}

const ALL_DECS: [Dec; 12] = [
    Dec::MsMessage,
    Dec::WebrtcListener,
    Dec::WebrtcDialer,
    Dec::ListenerSelect,
    Dec::DialerSelect,
    Dec::Kademlia,
    Dec::PublicKey,
    Dec::PeerIdBytes,
    Dec::NoisePayload,
    Dec::Bitswap,
    Dec::BitswapPrefix,
    Dec::Identify,
];

impl Dec {
    fn name(self) -> &'static str {
        match self {
            Dec::MsMessage => "multistream_message",
            Dec::WebrtcListener => "webrtc_listener_negotiate",
            Dec::WebrtcDialer => "webrtc_dialer_register_response",
            Dec::ListenerSelect => "listener_select_proto",
            Dec::DialerSelect => "dialer_select_proto",
            Dec::Kademlia => "kademlia_from_bytes",
            Dec::PublicKey => "remote_public_key",
            Dec::PeerIdBytes => "peer_id_from_bytes",
            Dec::NoisePayload => "noise_handshake_payload",
            Dec::Bitswap => "bitswap_message",
            Dec::BitswapPrefix => "bitswap_prefix",
            Dec::Identify => "identify_schema",
        }
    }
    fn from_name(s: &str) -> Option<Dec> {
        ALL_DECS.iter().copied().find(|d| d.name() == s)
    }
    fn is_stream(self) -> bool {
        matches!(self, Dec::ListenerSelect | Dec::DialerSelect)
    }
    /// the explicit size limit configured for the decoder (0 = none)
    fn limit(self) -> usize {
        match self {
            Dec::ListenerSelect | Dec::DialerSelect => VERIF_MAX_FRAME_SIZE as usize,
            Dec::Kademlia => kad::VERIF_DEFAULT_MAX_MESSAGE_SIZE,
            Dec::Bitswap => bs::MAX_MESSAGE_SIZE,
            Dec::Identify => idf::IDENTIFY_PAYLOAD_SIZE,
            _ => 0,
        }
    }
    fn bound(self, input_len: usize) -> usize {
        self.limit() + PER_BYTE * input_len + SLACK
    }
}

// ------------------------------------------------------------------------------------------------
// small encoders / walkers
// ------------------------------------------------------------------------------------------------

fn varint(mut n: u64) -> Vec<u8> {
    let mut out = Vec::new();
    loop {
        let b = (n & 0x7f) as u8;
        n >>= 7;
        if n == 0 {
            out.push(b);
            return out;
        }
        out.push(b | 0x80);
    }
}

fn read_varint(b: &[u8]) -> Option<(u64, usize)> {
    let mut v: u64 = 0;
    for (i, &x) in b.iter().enumerate().take(10) {
        v |= ((x & 0x7f) as u64) << (7 * i);
        if x & 0x80 == 0 {
            return Some((v, i + 1));
        }
    }
    None
}

fn pb_bytes(field: u32, data: &[u8]) -> Vec<u8> {
    let mut out = varint(((field as u64) << 3) | 2);
    out.extend(varint(data.len() as u64));
    out.extend_from_slice(data);
    out
}

fn pb_varint(field: u32, v: u64) -> Vec<u8> {
    let mut out = varint((field as u64) << 3);
    out.extend(varint(v));
    out
}

/// The ten extreme varints substituted at every length-prefix position.
fn extremes() -> Vec<Vec<u8>> {
    let mut eleven = vec![0xffu8; 10];
    eleven.push(0x01);
    vec![
        varint(1 << 7),
        varint(1 << 14),
        varint(1 << 21),
        varint(1 << 28),
        varint((1u64 << 32) - 1),
        varint(1 << 35),
        varint(1 << 63),
        varint(u64::MAX),
        vec![0x81, 0x80, 0x80, 0x80, 0x80, 0x80, 0x80, 0x80, 0x80, 0x00], // 10-byte overlong encoding of 1
        eleven,                                                            // 11-byte invalid varint
    ]
}

/// positions `(offset, byte length)` of the unsigned-varint prefixes of a sequence of length-prefixed frames
fn walk_frames(b: &[u8]) -> Vec<(usize, usize)> {
    let mut out = Vec::new();
    let mut i = 0;
    while i < b.len() {
        let Some((len, n)) = read_varint(&b[i..]) else { break };
        out.push((i, n));
        i = i.saturating_add(n).saturating_add(len as usize);
    }
    out
}

/// positions of an encoded value: length prefixes, other varints, and for positions inside nested messages the
/// chain of enclosing length prefixes (outermost first)
#[derive(Default, Clone, Debug)]
struct Positions {
    lenpos: Vec<(usize, usize)>,
    varpos: Vec<(usize, usize)>,
    anc: BTreeMap<usize, Vec<(usize, usize)>>,
}

/// generic protobuf walker: records the position of every length varint (wire type 2) and every varint value
fn pb_walk(
    b: &[u8],
    base: usize,
    path: &mut Vec<u32>,
    stack: &mut Vec<(usize, usize)>,
    nested: &dyn Fn(&[u32]) -> bool,
    out: &mut Positions,
) {
    let mut i = 0;
    while i < b.len() {
        let Some((tag, n)) = read_varint(&b[i..]) else { return };
        let field = (tag >> 3) as u32;
        i += n;
        match tag & 7 {
            0 => {
                let Some((_, m)) = read_varint(&b[i..]) else { return };
                out.varpos.push((base + i, m));
                if !stack.is_empty() {
                    out.anc.insert(base + i, stack.clone());
                }
                i += m;
            }
            2 => {
                let Some((l, m)) = read_varint(&b[i..]) else { return };
                out.lenpos.push((base + i, m));
                if !stack.is_empty() {
                    out.anc.insert(base + i, stack.clone());
                }
                let me = (base + i, m);
                i += m;
                let l = l as usize;
                if i + l > b.len() {
                    return;
                }
                path.push(field);
                if nested(path) {
                    stack.push(me);
                    pb_walk(&b[i..i + l], base + i, path, stack, nested, out);
                    stack.pop();
                }
                path.pop();
                i += l;
            }
            1 => i += 8,
            5 => i += 4,
            _ => return,
        }
    }
}

/// Replace the varint at `(off, n)` by `new` and re-encode every enclosing length prefix so that the nesting stays
/// consistent. Returns None if an ancestor length cannot be read.
fn replace_consistent(b: &[u8], off: usize, n: usize, new: &[u8], anc: &[(usize, usize)]) -> Option<Vec<u8>> {
    let mut out = b[..off].to_vec();
    out.extend_from_slice(new);
    out.extend_from_slice(&b[off + n..]);
    let mut delta = new.len() as i64 - n as i64;
    for &(aoff, an) in anc.iter().rev() {
        let (l, m) = read_varint(&out[aoff..])?;
        if m != an {
            return None;
        }
        let nl = varint((l as i64 + delta).max(0) as u64);
        delta += nl.len() as i64 - an as i64;
        out.splice(aoff..aoff + an, nl);
    }
    Some(out)
}

fn unhex(s: &str) -> Result<Vec<u8>, String> {
    if s.len() % 2 != 0 {
        return Err("odd hex length".into());
    }
    (0..s.len() / 2)
        .map(|i| u8::from_str_radix(&s[2 * i..2 * i + 2], 16).map_err(|e| e.to_string()))
        .collect()
}

fn short_hex(b: &[u8]) -> String {
    if b.len() <= 96 {
        util::hex(b)
    } else {
        format!("{}..({} bytes)", util::hex(&b[..96]), b.len())
    }
}

/// strip machine-specific prefixes from a panic location: the litep2p checkout and the cargo registry directory
fn norm_panic(msg: &str) -> String {
    if let Some(i) = msg.find("/registry/src/") {
        let rest = &msg[i + "/registry/src/".len()..];
        if let Some(j) = rest.find('/') {
            return rest[j + 1..].to_string();
        }
    }
    match msg.find("/repo/") {
        Some(i) => msg[i + 6..].to_string(),
        None => msg.to_string(),
    }
}

fn enc(m: &Message) -> Vec<u8> {
    let mut b = BytesMut::new();
    m.encode(&mut b).expect("multistream encode");
    b.to_vec()
}

fn frame(payload: &[u8]) -> Vec<u8> {
    let mut out = varint(payload.len() as u64);
    out.extend_from_slice(payload);
    out
}

fn proto(name: &[u8]) -> Protocol {
    Protocol::try_from(name).expect("protocol name starts with /")
}

// ------------------------------------------------------------------------------------------------
// evaluation of one input
// ------------------------------------------------------------------------------------------------

struct Out {
    accepted: bool,
    label: &'static str,
    peak: usize,
    panic: Option<String>,
    hang: Option<&'static str>,
    /// additional oracle failure `(signature, what)`; signatures starting with `machinery/` are harness errors
    extra: Option<(String, String)>,
    detail: String,
}

impl Out {
    fn new() -> Out {
        Out { accepted: false, label: "Err", peak: 0, panic: None, hang: None, extra: None, detail: String::new() }
    }
}

fn measure<T>(f: impl FnOnce() -> T) -> (Result<T, String>, usize) {
    alloc::reset();
    let r = catch_unwind(AssertUnwindSafe(f));
    let peak = alloc::peak();
    (r.map_err(|_| norm_panic(&e1::take_panic())), peak)
}

fn msg_label(m: &Message) -> &'static str {
    match m {
        Message::Header(_) => "Ok(Header)",
        Message::Protocol(_) => "Ok(Protocol)",
        Message::ListProtocols => "Ok(ListProtocols)",
        Message::Protocols(_) => "Ok(Protocols)",
        Message::NotAvailable => "Ok(NotAvailable)",
    }
}

fn neg_label(e: &NegotiationError) -> &'static str {
    match e {
        NegotiationError::Failed => "Err(Failed)",
        NegotiationError::ProtocolError(_) => "Err(ProtocolError)",
    }
}

/// Sink for everything the subject writes: counts, keeps nothing (so the allocation oracle sees only the subject).
struct SinkW(Arc<AtomicUsize>);

struct Io {
    r: pipe::PipeReader,
    w: SinkW,
}

impl AsyncRead for Io {
    fn poll_read(mut self: Pin<&mut Self>, cx: &mut Context<'_>, out: &mut [u8]) -> Poll<io::Result<usize>> {
        Pin::new(&mut self.r).poll_read(cx, out)
    }
}

impl AsyncWrite for Io {
    fn poll_write(self: Pin<&mut Self>, _cx: &mut Context<'_>, data: &[u8]) -> Poll<io::Result<usize>> {
        self.w.0.fetch_add(data.len(), Ordering::SeqCst);
        Poll::Ready(Ok(data.len()))
    }
    fn poll_flush(self: Pin<&mut Self>, _cx: &mut Context<'_>) -> Poll<io::Result<()>> {
        Poll::Ready(Ok(()))
    }
    fn poll_close(self: Pin<&mut Self>, _cx: &mut Context<'_>) -> Poll<io::Result<()>> {
        Poll::Ready(Ok(()))
    }
}

fn eval_stream(rt: &tokio::runtime::Runtime, dec: Dec, param: u32, input: &[u8], verbose: bool) -> Out {
    rt.block_on(async move {
        let mut out = Out::new();
        let mut policy = pipe::Policy::default();
        if param & P_CHUNK1 != 0 {
            policy.read_chunk = 1;
        }
        let pend = param >> 8;
        if pend > 0 {
            policy.pending_reads.insert((pend - 1) as u64);
        }
        let (w, r, h) = pipe::pipe(policy);
        h.inject(input);
        h.close();
        drop(w);
        let written = Arc::new(AtomicUsize::new(0));
        let res: Arc<Mutex<Option<(bool, &'static str, String)>>> = Arc::new(Mutex::new(None));
        let io = Io { r, w: SinkW(written.clone()) };
        let mut d = driver::Driver::new();
        let res2 = res.clone();
        alloc::reset();
        match dec {
            Dec::ListenerSelect => {
                d.spawn("listener", async move {
                    let r = listener_select_proto(io, vec![PROTO_A, PROTO_B]).await;
                    let o = match r {
                        Ok((p, _io)) => (true, "Ok", if verbose { format!("Ok({p})") } else { String::new() }),
                        Err(e) => (false, neg_label(&e), if verbose { format!("Err({e:?})") } else { String::new() }),
                    };
                    *res2.lock() = Some(o);
                });
            }
            _ => {
                let version = if param & P_LAZY != 0 { Version::V1Lazy } else { Version::V1 };
                let protos = if param & P_TWO != 0 { vec![PROTO_A, PROTO_B] } else { vec![PROTO_A] };
                d.spawn("dialer", async move {
                    let r = dialer_select_proto(io, protos, version).await;
                    let o = match r {
                        Ok((p, mut io)) => {
                            // a lazily settled stream completes its negotiation on the first read
                            let mut b = [0u8; 1];
                            match io.read(&mut b).await {
                                Ok(n) => (true, "Ok", if verbose { format!("Ok({p}) then read Ok({n})") } else { String::new() }),
                                Err(e) => (
                                    false,
                                    "Ok-then-read-Err",
                                    if verbose { format!("Ok({p}) then read Err({e:?})") } else { String::new() },
                                ),
                            }
                        }
                        Err(e) => (false, neg_label(&e), if verbose { format!("Err({e:?})") } else { String::new() }),
                    };
                    *res2.lock() = Some(o);
                });
            }
        }
        let ran = catch_unwind(AssertUnwindSafe(|| d.run_until_stalled(STEP_CAP)));
        out.peak = alloc::peak();
        match ran {
            Err(_) => out.panic = Some(norm_panic(&e1::take_panic())),
            Ok(false) => out.hang = Some("step-cap"),
            Ok(true) if !d.all_done() => out.hang = Some("stall"),
            Ok(true) => {}
        }
        let wrote = written.load(Ordering::SeqCst);
        if let Some((ok, label, detail)) = res.lock().take() {
            out.label = label;
            out.accepted = ok || (dec == Dec::ListenerSelect && wrote > 0);
            out.detail = detail;
        } else {
            out.label = "no-result";
        }
        if verbose {
            out.detail = format!("{} wrote={} steps={} buffered_unread={}", out.detail, wrote, d.steps, h.buffered());
        }
        // a panicked future must not be polled again; dropping it is fine
        let _ = catch_unwind(AssertUnwindSafe(move || drop(d)));
        out
    })
}

fn eval(rt: &tokio::runtime::Runtime, dec: Dec, param: u32, input: &[u8], verbose: bool) -> Out {
    let mut out = Out::new();
    macro_rules! done {
        ($r:expr, $peak:expr, |$v:ident| $body:block) => {{
            out.peak = $peak;
            match $r {
                Err(p) => out.panic = Some(p),
                Ok($v) => $body,
            }
        }};
    }
    match dec {
        Dec::ListenerSelect | Dec::DialerSelect => return eval_stream(rt, dec, param, input, verbose),
        Dec::MsMessage => {
            let b = Bytes::copy_from_slice(input);
            let (r, peak) = measure(|| Message::decode(b));
            done!(r, peak, |v| {
                match v {
                    Ok(m) => {
                        out.accepted = true;
                        out.label = msg_label(&m);
                        // the decoded value is a value of the library's own type: its encoding must decode to it
                        let re = catch_unwind(AssertUnwindSafe(|| {
                            let mut buf = BytesMut::new();
                            m.encode(&mut buf).ok()?;
                            Message::decode(buf.freeze()).ok()
                        }));
                        match re {
                            Ok(Some(m2)) if m2 == m => {}
                            Ok(other) => {
                                out.extra = Some((
                                    "reencode/multistream_message".into(),
                                    format!("decode({}) = {m:?} but decode(encode(that)) = {other:?}", short_hex(input)),
                                ))
                            }
                            Err(_) => out.panic = Some(norm_panic(&e1::take_panic())),
                        }
                        if verbose {
                            out.detail = format!("{m:?}");
                        }
                    }
                    Err(e) => {
                        if verbose {
                            out.detail = format!("Err({e:?})");
                        }
                    }
                }
            });
        }
        Dec::WebrtcListener => {
            let supported = vec![ProtocolName::from(PROTO_A), ProtocolName::from(PROTO_B)];
            let b = Bytes::copy_from_slice(input);
            let hr = param & 1 == 1;
            let (r, peak) = measure(|| webrtc_listener_negotiate(supported, b, hr));
            done!(r, peak, |v| {
                match &v {
                    Ok(ListenerSelectResult::Accepted { .. }) => {
                        out.accepted = true;
                        out.label = "Ok(Accepted)";
                    }
                    Ok(ListenerSelectResult::Rejected { .. }) => {
                        out.accepted = true;
                        out.label = "Ok(Rejected)";
                    }
                    Ok(ListenerSelectResult::PendingProtocol { .. }) => {
                        out.accepted = true;
                        out.label = "Ok(PendingProtocol)";
                    }
                    Err(_) => {}
                }
                if verbose {
                    out.detail = format!("{v:?}");
                }
            });
        }
        Dec::WebrtcDialer => {
            let st = WebRtcDialerState::propose(ProtocolName::from(PROTO_A), vec![ProtocolName::from(PROTO_B)]);
            let Ok((mut st, _)) = st else {
                out.extra = Some(("machinery/propose".into(), "WebRtcDialerState::propose failed".into()));
                return out;
            };
            if param & 1 == 1 {
                let hdr = frame(&enc(&Message::Header(HeaderLine::V1)));
                match st.register_response(hdr) {
                    Ok(HandshakeResult::NotReady) => {}
                    other => {
                        out.extra =
                            Some(("machinery/header".into(), format!("header-only response gave {other:?}, expected NotReady")));
                        return out;
                    }
                }
            }
            let v = input.to_vec();
            let (r, peak) = measure(|| st.register_response(v));
            done!(r, peak, |v| {
                match &v {
                    Ok(HandshakeResult::NotReady) => {
                        out.accepted = true;
                        out.label = "Ok(NotReady)";
                    }
                    Ok(HandshakeResult::Succeeded(_)) => {
                        out.accepted = true;
                        out.label = "Ok(Succeeded)";
                    }
                    Ok(HandshakeResult::Rejected) => {
                        out.accepted = true;
                        out.label = "Ok(Rejected)";
                    }
                    Err(_) => {}
                }
                if verbose {
                    out.detail = format!("{v:?}");
                }
            });
        }
        Dec::Kademlia => {
            let k = param as usize;
            let b = BytesMut::from(input);
            // the decoded peers are used the way every Kademlia handler uses them before anything else happens
            // (`TransportService::add_known_address`: append `/p2p/<peer>` to addresses that lack it): a decoder that
            // hands out a peer id on which the library's own infallible conversion panics has not "returned a value"
            let (r, peak) = measure(|| {
                let m = KademliaMessage::from_bytes(b, k);
                let use_peer = |id: PeerId, addrs: &[Multiaddr]| {
                    for a in addrs {
                        if !matches!(a.iter().last(), Some(multiaddr::Protocol::P2p(_))) {
                            let _ = a.clone().with(multiaddr::Protocol::P2p(id.into()));
                        }
                    }
                    let _ = multiaddr::PeerId::from(id);
                };
                match &m {
                    Some(KademliaMessage::FindNode { peers, .. }) | Some(KademliaMessage::GetRecord { peers, .. }) =>
                        peers.iter().for_each(|p| use_peer(kad::peer_id(p), &p.addresses())),
                    Some(KademliaMessage::AddProvider { providers, .. }) =>
                        providers.iter().for_each(|p| use_peer(kad::peer_id(p), &p.addresses())),
                    Some(KademliaMessage::GetProviders { peers, providers, .. }) =>
                        peers.iter().chain(providers.iter()).for_each(|p| use_peer(kad::peer_id(p), &p.addresses())),
                    _ => {}
                }
                m
            });
            done!(r, peak, |v| {
                match &v {
                    Some(m) => {
                        out.accepted = true;
                        let lists: Vec<usize> = match m {
                            KademliaMessage::FindNode { peers, .. } => {
                                out.label = "Some(FindNode)";
                                vec![peers.len()]
                            }
                            KademliaMessage::PutValue { .. } => {
                                out.label = "Some(PutValue)";
                                vec![]
                            }
                            KademliaMessage::GetRecord { peers, .. } => {
                                out.label = "Some(GetRecord)";
                                vec![peers.len()]
                            }
                            KademliaMessage::AddProvider { providers, .. } => {
                                out.label = "Some(AddProvider)";
                                vec![providers.len()]
                            }
                            KademliaMessage::GetProviders { peers, providers, .. } => {
                                out.label = "Some(GetProviders)";
                                vec![peers.len(), providers.len()]
                            }
                        };
                        if lists.iter().any(|&n| n > k) {
                            out.extra = Some((
                                "limit/kademlia_from_bytes/peers-exceed-replication-factor".into(),
                                format!("from_bytes({}, k={k}) returned peer lists of sizes {lists:?}", short_hex(input)),
                            ));
                        }
                    }
                    None => out.label = "None",
                }
                if verbose {
                    out.detail = format!("{v:?}");
                    out.detail.truncate(600);
                }
            });
        }
        Dec::PublicKey => {
            let (r, peak) = measure(|| RemotePublicKey::from_protobuf_encoding(input));
            done!(r, peak, |v| {
                if v.is_ok() {
                    out.accepted = true;
                    out.label = "Ok";
                }
                if verbose {
                    out.detail = format!("{v:?}");
                }
            });
        }
        Dec::PeerIdBytes => {
            let (r, peak) = measure(|| {
                let r = PeerId::from_bytes(input);
                if let Ok(id) = &r {
                    // the library's own infallible conversion of an accepted id (used whenever an address is completed)
                    let _ = multiaddr::PeerId::from(*id);
                }
                r
            });
            done!(r, peak, |v| {
                if v.is_ok() {
                    out.accepted = true;
                    out.label = "Ok";
                }
                if verbose {
                    out.detail = format!("{v:?}");
                }
            });
        }
        Dec::NoisePayload => {
            let (r, peak) = measure(|| noise_payload::decode_and_verify_payload(input, &DH_PUB));
            done!(r, peak, |v| {
                use litep2p::error::NegotiationError as NE;
                match &v {
                    Ok(_) => {
                        out.accepted = true;
                        out.label = "Ok";
                    }
                    Err(NE::BadSignature) => out.label = "Err(BadSignature)",
                    Err(NE::PeerIdMissing) => out.label = "Err(PeerIdMissing)",
                    Err(NE::ParseError(_)) => out.label = "Err(ParseError)",
                    Err(_) => out.label = "Err(other)",
                }
                if verbose {
                    out.detail = format!("{v:?}");
                }
            });
        }
        Dec::Bitswap => {
            let peer = util::peer(1);
            let (r, peak) = measure(|| {
                let (blocks, nwant, npres) = bs::decode_message(input)?;
                let nblocks = blocks.len();
                let mut responses = 0usize;
                for (prefix, data) in blocks {
                    if bs::block_to_response(&peer, prefix, data).is_some() {
                        responses += 1;
                    }
                }
                // what `on_message_received` does with wantlist entries and block presences
                let (wants, pres) = bs::decode_message_cids(input)?;
                let mut cids = 0usize;
                for (block, _) in &wants {
                    if Cid::read_bytes(block.as_slice()).is_ok() {
                        cids += 1;
                    }
                }
                for (cid, _) in &pres {
                    if Cid::read_bytes(&cid[..]).is_ok() {
                        cids += 1;
                    }
                }
                Some((nblocks, responses, nwant, npres, cids))
            });
            done!(r, peak, |v| {
                if v.is_some() {
                    out.accepted = true;
                    out.label = "Some";
                } else {
                    out.label = "None";
                }
                if verbose {
                    out.detail = format!("(blocks, block responses, wantlist entries, presences, parsable cids) = {v:?}");
                }
            });
        }
        Dec::BitswapPrefix => {
            let (r, peak) = measure(|| bs::prefix_from_bytes(input));
            done!(r, peak, |v| {
                if v.is_some() {
                    out.accepted = true;
                    out.label = "Some";
                } else {
                    out.label = "None";
                }
                if verbose {
                    out.detail = format!("{v:?}");
                }
            });
        }
        Dec::Identify => {
            let (r, peak) = measure(|| {
                let info = idf::Identify::decode(input).ok()?;
                let mut addrs = 0usize;
                for a in info.listen_addrs.iter() {
                    if let Ok(a) = Multiaddr::try_from(a.clone()) {
                        let _ = a.is_empty();
                        let _ = a.iter().last();
                        addrs += 1;
                    }
                }
                if let Some(a) = info.observed_addr.clone() {
                    if let Ok(a) = Multiaddr::try_from(a) {
                        let _ = a.iter().last();
                        addrs += 1;
                    }
                }
                let protocols: HashSet<String> = HashSet::from_iter(info.protocols.iter().cloned());
                Some((addrs, protocols.len()))
            });
            done!(r, peak, |v| {
                if v.is_some() {
                    out.accepted = true;
                    out.label = "Some";
                } else {
                    out.label = "None";
                }
                if verbose {
                    out.detail = format!("(parsable addresses, protocols) = {v:?}");
                }
            });
        }
    }
    out
}

// ------------------------------------------------------------------------------------------------
// corpora
// ------------------------------------------------------------------------------------------------

#[derive(Clone, Debug)]
struct Item {
    /// `<message kind>/<shape>`
    kind: String,
    bytes: Vec<u8>,
    /// positions of length prefixes `(offset, byte length)`
    lenpos: Vec<(usize, usize)>,
    /// positions of other varints (enum values, ttl, multihash codes ...)
    varpos: Vec<(usize, usize)>,
    /// enclosing length prefixes (outermost first) of positions inside nested protobuf messages
    anc: BTreeMap<usize, Vec<(usize, usize)>>,
    /// true when the bytes come from the harness' hand encoder because litep2p has no separable encoder
    handmade: bool,
}

impl Item {
    fn group(&self) -> &str {
        self.kind.split('/').next().unwrap_or("")
    }
}

struct Target {
    dec: Dec,
    params: Vec<u32>,
    corpus: Vec<Item>,
}

fn item_frames(kind: &str, bytes: Vec<u8>, handmade: bool) -> Item {
    let lenpos = walk_frames(&bytes);
    Item { kind: kind.to_string(), bytes, lenpos, varpos: Vec::new(), anc: BTreeMap::new(), handmade }
}

fn item_pb(kind: &str, bytes: Vec<u8>, nested: &dyn Fn(&[u32]) -> bool, handmade: bool) -> Item {
    let mut pos = Positions::default();
    pb_walk(&bytes, 0, &mut Vec::new(), &mut Vec::new(), nested, &mut pos);
    Item { kind: kind.to_string(), bytes, lenpos: pos.lenpos, varpos: pos.varpos, anc: pos.anc, handmade }
}

/// values of the multistream `Message` type in the corpus
fn ms_values() -> Vec<(&'static str, Message)> {
    let long: Vec<u8> = std::iter::once(b'/').chain(std::iter::repeat(b'x').take(199)).collect();
    vec![
        ("header", Message::Header(HeaderLine::V1)),
        ("protocol/a", Message::Protocol(proto(PROTO_A.as_bytes()))),
        ("protocol/slash", Message::Protocol(proto(b"/"))),
        ("protocol/kad", Message::Protocol(proto(b"/ipfs/kad/1.0.0"))),
        ("ls", Message::ListProtocols),
        ("na", Message::NotAvailable),
        ("protocols/0", Message::Protocols(vec![])),
        ("protocols/1", Message::Protocols(vec![proto(PROTO_A.as_bytes())])),
        (
            "protocols/3",
            Message::Protocols(vec![proto(PROTO_A.as_bytes()), proto(PROTO_B.as_bytes()), proto(b"/ipfs/kad/1.0.0")]),
        ),
        ("protocols/long-name", Message::Protocols(vec![proto(&long), proto(b"/")])),
        ("protocols/fanout-1000", Message::Protocols((0..1000).map(|_| proto(b"/")).collect())),
    ]
}

fn corpus_ms() -> Vec<Item> {
    ms_values()
        .into_iter()
        .map(|(kind, m)| {
            let bytes = enc(&m);
            let lenpos = if matches!(m, Message::Protocols(_)) { walk_frames(&bytes) } else { Vec::new() };
            // the final "\n" of a protocol list parses as a 1-byte varint of a frame that is not there: drop it
            let lenpos = lenpos.into_iter().filter(|(o, _)| *o + 1 < bytes.len()).collect();
            Item { kind: kind.to_string(), bytes, lenpos, varpos: Vec::new(), anc: BTreeMap::new(), handmade: false }
        })
        .collect()
}

fn header_frame() -> Vec<u8> {
    frame(&enc(&Message::Header(HeaderLine::V1)))
}

fn corpus_webrtc_listener() -> Vec<Item> {
    let mut out = Vec::new();
    let (mut st, msg) = WebRtcDialerState::propose(ProtocolName::from(PROTO_A), vec![ProtocolName::from(PROTO_B)]).expect("propose");
    out.push(item_frames("propose/header+a", msg, false));
    let next = st.propose_next_fallback().expect("fallback").expect("one fallback");
    out.push(item_frames("fallback/b", next, false));
    let (_, msg) = WebRtcDialerState::propose(ProtocolName::from("/nope"), vec![]).expect("propose");
    out.push(item_frames("propose-unsupported/header+nope", msg, false));
    out.push(item_frames("header-only/frame", header_frame(), false));
    let mut b = header_frame();
    b.extend(frame(&enc(&Message::ListProtocols)));
    out.push(item_frames("header+ls/frames", b, false));
    out.push(item_frames("ls/frame", frame(&enc(&Message::ListProtocols)), false));
    out.push(item_frames("na/frame", frame(&enc(&Message::NotAvailable)), false));
    out
}

fn corpus_webrtc_dialer() -> Vec<Item> {
    let sup = || vec![ProtocolName::from(PROTO_A), ProtocolName::from(PROTO_B)];
    let msg_of = |r: litep2p::Result<ListenerSelectResult>| -> Vec<u8> {
        match r.expect("listener negotiate") {
            ListenerSelectResult::Accepted { message, .. } => message.to_vec(),
            ListenerSelectResult::Rejected { message } => message.to_vec(),
            ListenerSelectResult::PendingProtocol { message } => message.to_vec(),
        }
    };
    let (_, p_a) = WebRtcDialerState::propose(ProtocolName::from(PROTO_A), vec![]).expect("propose");
    let (_, p_x) = WebRtcDialerState::propose(ProtocolName::from("/nope"), vec![]).expect("propose");
    let only_a = frame(&enc(&Message::Protocol(proto(PROTO_A.as_bytes()))));
    let only_x = frame(&enc(&Message::Protocol(proto(b"/nope"))));
    let mut out = Vec::new();
    out.push(item_frames("accepted/header+a", msg_of(webrtc_listener_negotiate(sup(), Bytes::from(p_a), false)), false));
    out.push(item_frames("rejected/header+na", msg_of(webrtc_listener_negotiate(sup(), Bytes::from(p_x), false)), false));
    out.push(item_frames("pending/header", msg_of(webrtc_listener_negotiate(sup(), Bytes::from(header_frame()), false)), false));
    out.push(item_frames("accepted-noheader/a", msg_of(webrtc_listener_negotiate(sup(), Bytes::from(only_a), true)), false));
    out.push(item_frames("rejected-noheader/na", msg_of(webrtc_listener_negotiate(sup(), Bytes::from(only_x), true)), false));
    let mut b = header_frame();
    b.extend(frame(&enc(&Message::Protocols(vec![proto(PROTO_A.as_bytes()), proto(PROTO_B.as_bytes())]))));
    out.push(item_frames("header+protocols/frames", b, false));
    out
}

/// One honest negotiation of the real dialer against the real listener over the scripted carrier.
/// Returns (dialer->listener bytes, listener->dialer bytes, dialer result, listener result).
fn honest(dialer_protos: Vec<&'static str>, version: Version, listener_protos: Vec<&'static str>) -> (Vec<u8>, Vec<u8>, String, String) {
    let rt = driver::runtime(19);
    rt.block_on(async move {
        let (a, b, h_ab, h_ba) = pipe::duplex(pipe::Policy::default(), pipe::Policy::default());
        let out: Arc<Mutex<(String, String)>> = Arc::new(Mutex::new((String::new(), String::new())));
        let mut d = driver::Driver::new();
        let o1 = out.clone();
        d.spawn("dialer", async move {
            let r = match dialer_select_proto(a, dialer_protos, version).await {
                Ok((p, mut io)) => {
                    let mut buf = [0u8; 1];
                    match io.read(&mut buf).await {
                        Ok(_) => format!("Ok({p})"),
                        Err(e) => format!("Err(read {:?})", e.kind()),
                    }
                }
                Err(e) => format!("Err({e:?})"),
            };
            o1.lock().0 = r;
        });
        let o2 = out.clone();
        d.spawn("listener", async move {
            let r = match listener_select_proto(b, listener_protos).await {
                Ok((p, _io)) => format!("Ok({p})"),
                Err(e) => format!("Err({e:?})"),
            };
            o2.lock().1 = r;
        });
        let fin = d.run_until_stalled(STEP_CAP);
        let (rd, rl) = out.lock().clone();
        let tag = if fin && d.all_done() { "" } else { " [STALLED]" };
        (h_ab.log(), h_ba.log(), format!("{rd}{tag}"), format!("{rl}{tag}"))
    })
}

struct HonestRun {
    name: &'static str,
    d2l: Vec<u8>,
    l2d: Vec<u8>,
    dialer: String,
    listener: String,
    expect_dialer: &'static str,
    expect_listener: &'static str,
}

fn honest_runs() -> Vec<HonestRun> {
    let lp = || vec![PROTO_A, PROTO_B];
    let mk = |name, dp: Vec<&'static str>, v, ed, el| {
        let (d2l, l2d, dialer, listener) = honest(dp, v, lp());
        HonestRun { name, d2l, l2d, dialer, listener, expect_dialer: ed, expect_listener: el }
    };
    vec![
        mk("v1-first", vec![PROTO_A], Version::V1, "Ok(/proto/a)", "Ok(/proto/a)"),
        mk("v1-second", vec!["/nope", PROTO_B], Version::V1, "Ok(/proto/b)", "Ok(/proto/b)"),
        mk("v1-none", vec!["/nope"], Version::V1, "Err(Failed)", "Err(Failed)"),
        mk("v1lazy-first", vec![PROTO_A], Version::V1Lazy, "Ok(/proto/a)", "Ok(/proto/a)"),
    ]
}

fn corpus_streams(runs: &[HonestRun]) -> (Vec<Item>, Vec<Item>) {
    let mut to_listener = Vec::new();
    let mut to_dialer = Vec::new();
    for r in runs {
        to_listener.push(item_frames(&format!("honest-{}/dialer-bytes", r.name), r.d2l.clone(), false));
        to_dialer.push(item_frames(&format!("honest-{}/listener-bytes", r.name), r.l2d.clone(), false));
    }
    let mut b = header_frame();
    b.extend(frame(&enc(&Message::ListProtocols)));
    b.extend(frame(&enc(&Message::Protocol(proto(PROTO_A.as_bytes())))));
    to_listener.push(item_frames("header+ls+a/frames", b, false));
    to_listener.push(item_frames("header-only/frame", header_frame(), false));
    let mut b = header_frame();
    b.extend(frame(&enc(&Message::NotAvailable)));
    b.extend(frame(&enc(&Message::NotAvailable)));
    to_dialer.push(item_frames("header+na+na/frames", b, false));
    let mut b = header_frame();
    b.extend(frame(&enc(&Message::Protocols(vec![proto(PROTO_A.as_bytes()), proto(PROTO_B.as_bytes())]))));
    to_dialer.push(item_frames("header+protocols/frames", b, false));
    let dedup = |v: Vec<Item>| {
        let mut seen = HashSet::new();
        v.into_iter().filter(|i| seen.insert(i.bytes.clone())).collect::<Vec<_>>()
    };
    (dedup(to_listener), dedup(to_dialer))
}

// ---- kademlia ----

#[derive(Clone, Debug)]
struct PeerSpec {
    id: PeerId,
    addrs: Vec<Multiaddr>,
    conn: ConnectionType,
}

#[derive(Clone, Debug)]
struct RecSpec {
    key: Vec<u8>,
    value: Vec<u8>,
    publisher: Option<PeerId>,
    ttl: bool,
}

#[derive(Clone, Debug)]
enum KExp {
    FindNode { target: Vec<u8>, peers: Vec<PeerSpec> },
    PutValue { rec: RecSpec },
    GetRecord { key: Option<Vec<u8>>, rec: Option<RecSpec>, peers: Vec<PeerSpec> },
    AddProvider { key: Vec<u8>, providers: Vec<PeerSpec> },
    GetProviders { key: Option<Vec<u8>>, peers: Vec<PeerSpec>, providers: Vec<PeerSpec> },
    /// the receiver deliberately refuses the message (documented exception, recorded in evidence)
    Refused(&'static str),
    /// hand-assembled bytes with no expected value: only "returns, does not panic, stays within the limit"
    Any,
}

fn key_of(len: usize) -> Vec<u8> {
    (0..len).map(|i| (i as u8).wrapping_mul(7).wrapping_add(len as u8)).collect()
}

fn value_of(len: usize) -> Vec<u8> {
    (0..len).map(|i| (i as u8) ^ 0x5a).collect()
}

fn conn_of(seed: u64) -> ConnectionType {
    match seed % 4 {
        0 => ConnectionType::NotConnected,
        1 => ConnectionType::Connected,
        2 => ConnectionType::CanConnect,
        _ => ConnectionType::CannotConnect,
    }
}

fn peer_spec(seed: u64, naddrs: usize) -> PeerSpec {
    let id = util::peer(seed);
    let all = [
        format!("/ip4/10.0.0.{}/tcp/30333", seed),
        format!("/ip6/::1/tcp/{}/p2p/{}", 30400 + seed, id),
    ];
    PeerSpec {
        id,
        addrs: all.iter().take(naddrs).map(|s| s.parse().expect("valid multiaddr")).collect(),
        conn: conn_of(seed),
    }
}

fn to_kad_peer(p: &PeerSpec) -> KademliaPeer {
    KademliaPeer::new(p.id, p.addrs.clone(), p.conn)
}

fn peer_shapes() -> Vec<(String, Vec<PeerSpec>)> {
    let mut out = vec![("p0".to_string(), vec![])];
    for n in [1u64, 3] {
        for a in [0usize, 1, 2] {
            out.push((format!("p{n}a{a}"), (1..=n).map(|s| peer_spec(s, a)).collect()));
        }
    }
    out
}

fn to_record(r: &RecSpec) -> Record {
    Record {
        key: RecordKey::from(r.key.clone()),
        value: r.value.clone(),
        publisher: r.publisher,
        expires: if r.ttl { Some(Instant::now() + Duration::from_secs(3600)) } else { None },
    }
}

fn kad_nested(path: &[u32]) -> bool {
    path.len() == 1 && matches!(path[0], 3 | 8 | 9)
}

fn corpus_kademlia() -> Vec<(Item, KExp)> {
    let mut out: Vec<(Item, KExp)> = Vec::new();
    let mut push = |kind: String, bytes: Vec<u8>, exp: KExp| out.push((item_pb(&kind, bytes, &kad_nested, false), exp));
    let opt_key = |k: &Vec<u8>| if k.is_empty() { None } else { Some(k.clone()) };
    let keys: Vec<Vec<u8>> = [0usize, 1, 32, 100].iter().map(|&n| key_of(n)).collect();
    for k in &keys {
        push(
            format!("find_node/key{}", k.len()),
            KademliaMessage::find_node(k.clone()).to_vec(),
            KExp::FindNode { target: k.clone(), peers: vec![] },
        );
        push(
            format!("get_record/key{}", k.len()),
            KademliaMessage::get_record(RecordKey::from(k.clone())).to_vec(),
            KExp::GetRecord { key: opt_key(k), rec: None, peers: vec![] },
        );
        push(
            format!("get_providers_request/key{}", k.len()),
            KademliaMessage::get_providers_request(RecordKey::from(k.clone())).to_vec(),
            KExp::GetProviders { key: opt_key(k), peers: vec![], providers: vec![] },
        );
        for vlen in [0usize, 1, 1000] {
            for publisher in [None, Some(util::peer(9))] {
                for ttl in [false, true] {
                    let rec = RecSpec { key: k.clone(), value: value_of(vlen), publisher, ttl };
                    push(
                        format!(
                            "put_value/key{}-val{}-{}-{}",
                            k.len(),
                            vlen,
                            if publisher.is_some() { "pub" } else { "nopub" },
                            if ttl { "ttl" } else { "nottl" }
                        ),
                        KademliaMessage::put_value(to_record(&rec)).to_vec(),
                        KExp::PutValue { rec },
                    );
                }
            }
            push(
                format!("put_value_response/key{}-val{}", k.len(), vlen),
                KademliaMessage::put_value_response(RecordKey::from(k.clone()), value_of(vlen)).to_vec(),
                KExp::PutValue { rec: RecSpec { key: k.clone(), value: value_of(vlen), publisher: None, ttl: false } },
            );
        }
    }
    let key32 = key_of(32);
    let key1 = key_of(1);
    for (shape, peers) in peer_shapes() {
        let kp: Vec<KademliaPeer> = peers.iter().map(to_kad_peer).collect();
        for k in [&key1, &key32] {
            push(
                format!("find_node_response/key{}-{shape}", k.len()),
                KademliaMessage::find_node_response(k, kp.clone()),
                KExp::FindNode { target: k.clone(), peers: peers.clone() },
            );
        }
        let recs = [
            ("norec", None),
            ("rec", Some(RecSpec { key: key32.clone(), value: value_of(10), publisher: None, ttl: false })),
            ("recfull", Some(RecSpec { key: key32.clone(), value: value_of(10), publisher: Some(util::peer(9)), ttl: true })),
        ];
        for (rname, rec) in recs {
            push(
                format!("get_value_response/{shape}-{rname}"),
                KademliaMessage::get_value_response(RecordKey::from(key32.clone()), kp.clone(), rec.as_ref().map(to_record)),
                KExp::GetRecord { key: Some(key32.clone()), rec, peers: peers.clone() },
            );
        }
    }
    for a in [0usize, 1, 2] {
        for k in [&key1, &key32] {
            let p = peer_spec(4, a);
            push(
                format!("add_provider/key{}-a{a}", k.len()),
                KademliaMessage::add_provider(
                    RecordKey::from(k.clone()),
                    ContentProvider { peer: p.id, addresses: p.addrs.clone() },
                )
                .to_vec(),
                KExp::AddProvider { key: k.clone(), providers: vec![PeerSpec { conn: ConnectionType::CanConnect, ..p }] },
            );
        }
    }
    {
        // documented exception: ADD_PROVIDER without a key is encodable but refused by the receiver
        let p = peer_spec(4, 1);
        push(
            "add_provider/key0-a1".into(),
            KademliaMessage::add_provider(RecordKey::from(Vec::new()), ContentProvider { peer: p.id, addresses: p.addrs })
                .to_vec(),
            KExp::Refused("ADD_PROVIDER with an empty key"),
        );
    }
    for np in [0u64, 1, 3] {
        for nc in [0u64, 1, 3] {
            for a in [0usize, 1, 2] {
                if a != 1 && !(np == 1 && nc == 1) {
                    continue;
                }
                let provs: Vec<PeerSpec> =
                    (1..=np).map(|s| PeerSpec { conn: ConnectionType::NotConnected, ..peer_spec(s + 10, a) }).collect();
                let closer: Vec<PeerSpec> = (1..=nc).map(|s| peer_spec(s, a)).collect();
                let kc: Vec<KademliaPeer> = closer.iter().map(to_kad_peer).collect();
                push(
                    format!("get_providers_response/prov{np}-closer{nc}-a{a}"),
                    KademliaMessage::get_providers_response(
                        provs.iter().map(|p| ContentProvider { peer: p.id, addresses: p.addrs.clone() }).collect(),
                        &kc,
                    ),
                    KExp::GetProviders { key: None, peers: closer, providers: provs },
                );
            }
        }
    }
    // maximum fan-out the decoder admits at the default replication factor: 20 + 20 peers, with ordinary
    // (sha256) ids and with the smallest ids the peer-id parser accepts (identity multihash, 1-byte digest)
    for (tag, mk) in [
        ("sha256-ids", (|s: u64| PeerId::from_public_key_protobuf(&[s as u8; 50])) as fn(u64) -> PeerId),
        ("tiny-ids", (|s: u64| PeerId::from_bytes(&[0, 1, s as u8]).expect("identity peer id")) as fn(u64) -> PeerId),
    ] {
        let provs: Vec<PeerSpec> =
            (0..20).map(|s| PeerSpec { id: mk(s), addrs: vec![], conn: ConnectionType::NotConnected }).collect();
        let closer: Vec<PeerSpec> =
            (20..40).map(|s| PeerSpec { id: mk(s), addrs: vec![], conn: ConnectionType::Connected }).collect();
        let kc: Vec<KademliaPeer> = closer.iter().map(to_kad_peer).collect();
        push(
            format!("get_providers_response/fanout20+20-{tag}"),
            KademliaMessage::get_providers_response(
                provs.iter().map(|p| ContentProvider { peer: p.id, addresses: vec![] }).collect(),
                &kc,
            ),
            KExp::GetProviders { key: None, peers: closer, providers: provs },
        );
    }
    // hand-assembled FIND_NODE responses whose single peer carries a raw multihash of every boundary shape (identity
    // and sha2-256 codes, digest lengths around 0, 32, 42 = largest inline key, and 64 = container size) together with
    // an address that lacks the /p2p suffix, so that whatever id the parser lets through is also *used*
    for code in [0x00u8, 0x12] {
        for dlen in peer_id_digest_lengths() {
            let mut id = vec![code, dlen as u8];
            id.extend(std::iter::repeat(0x5a).take(dlen));
            let mut peer = pb_bytes(1, &id);
            let addr: Multiaddr = "/ip4/10.0.0.7/tcp/30333".parse().expect("valid multiaddr");
            peer.extend(pb_bytes(2, &addr.to_vec()));
            peer.extend(pb_varint(3, 1));
            let mut msg = pb_varint(1, 4);
            msg.extend(pb_bytes(2, &key_of(32)));
            msg.extend(pb_bytes(8, &peer));
            out.push((item_pb(&format!("find_node_response-rawid/code{code:02x}-digest{dlen}"), msg, &kad_nested, true), KExp::Any));
        }
    }
    out
}

/// digest lengths around every boundary of the peer-id parser
fn peer_id_digest_lengths() -> Vec<usize> {
    vec![0, 1, 31, 32, 33, 41, 42, 43, 44, 63, 64, 65]
}

// ---- keys, peer ids, noise ----

fn corpus_public_key() -> Vec<Item> {
    let none = |_: &[u32]| false;
    let mut out = Vec::new();
    for seed in [1u64, 2] {
        let pk = PublicKey::Ed25519(util::keypair(seed).public());
        out.push(item_pb(&format!("ed25519/seed{seed}"), pk.to_protobuf_encoding(), &none, false));
    }
    let raw = util::keypair(1).public().to_bytes();
    let hand = |ty: u64, data: &[u8]| {
        let mut b = pb_varint(1, ty);
        b.extend(pb_bytes(2, data));
        b
    };
    out.push(item_pb("rsa-type/32-bytes", hand(0, &raw), &none, true));
    out.push(item_pb("secp256k1-type/33-bytes", hand(2, &[2u8; 33]), &none, true));
    out.push(item_pb("ecdsa-type/32-bytes", hand(3, &raw), &none, true));
    out.push(item_pb("ed25519-short/31-bytes", hand(1, &raw[..31]), &none, true));
    out.push(item_pb("ed25519-empty/0-bytes", hand(1, &[]), &none, true));
    out
}

fn corpus_peer_id() -> Vec<Item> {
    let mk = |kind: &str, id: PeerId| Item {
        kind: kind.to_string(),
        bytes: id.to_bytes(),
        lenpos: vec![(1, 1)],
        varpos: vec![(0, 1)],
        anc: BTreeMap::new(),
        handmade: false,
    };
    let v = vec![
        mk("identity/ed25519", util::peer(1)),
        mk("sha256/50-byte-key", PeerId::from_public_key_protobuf(&[7u8; 50])),
        mk("identity/empty", PeerId::from_public_key_protobuf(&[])),
        mk("identity/42-bytes", PeerId::from_public_key_protobuf(&[9u8; 42])),
    ];
    let mut v = v;
    for code in [0x00u8, 0x12] {
        for dlen in peer_id_digest_lengths() {
            let mut bytes = vec![code, dlen as u8];
            bytes.extend(std::iter::repeat(0x5a).take(dlen));
            v.push(Item {
                kind: format!("raw/code{code:02x}-digest{dlen}"),
                bytes,
                lenpos: vec![(1, 1)],
                varpos: vec![(0, 1)],
                anc: BTreeMap::new(),
                handmade: true,
            });
        }
    }
    v
}

fn noise_nested(path: &[u32]) -> bool {
    path == [4]
}

fn noise_payload_bytes(seed: u64, with_key: bool, with_sig: bool, with_ext: bool) -> Vec<u8> {
    let kp = util::keypair(seed);
    let key = PublicKey::Ed25519(kp.public()).to_protobuf_encoding();
    let sig = kp.sign(&[b"noise-libp2p-static-key:".as_slice(), DH_PUB.as_slice()].concat());
    let mut b = Vec::new();
    if with_key {
        b.extend(pb_bytes(1, &key));
    }
    if with_sig {
        b.extend(pb_bytes(2, &sig));
    }
    if with_ext {
        let mut ext = pb_bytes(1, &[0xab; 34]);
        ext.extend(pb_bytes(2, b"/yamux/1.0.0"));
        b.extend(pb_bytes(4, &ext));
    }
    b
}

fn corpus_noise() -> Vec<Item> {
    vec![
        item_pb("payload/key+sig", noise_payload_bytes(1, true, true, false), &noise_nested, true),
        item_pb("payload-ext/key+sig+extensions", noise_payload_bytes(2, true, true, true), &noise_nested, true),
        item_pb("payload-nosig/key", noise_payload_bytes(1, true, false, false), &noise_nested, true),
        item_pb("payload-nokey/sig", noise_payload_bytes(1, false, true, false), &noise_nested, true),
    ]
}

// ---- bitswap, identify ----

fn cid_v1(codec: u64, data: &[u8]) -> Cid {
    let mh = cid::multihash::Multihash::<64>::wrap(0x12, &util::sha256(data)).expect("sha256 multihash");
    Cid::new_v1(codec, mh)
}

fn cid_v0(data: &[u8]) -> Cid {
    let mh = cid::multihash::Multihash::<64>::wrap(0x12, &util::sha256(data)).expect("sha256 multihash");
    Cid::new_v0(mh).expect("v0 cid")
}

fn bitswap_nested(path: &[u32]) -> bool {
    matches!(path, [1] | [1, 1] | [3] | [4])
}

fn bitswap_blocks() -> Vec<(&'static str, Vec<(Cid, Vec<u8>)>)> {
    let d0: Vec<u8> = vec![];
    let d1 = vec![0x61u8];
    let d100 = value_of(100);
    vec![
        ("blocks/1x0", vec![(cid_v1(0x55, &d0), d0.clone())]),
        ("blocks/1x1", vec![(cid_v1(0x55, &d1), d1.clone())]),
        ("blocks/1x100", vec![(cid_v1(0x55, &d100), d100.clone())]),
        ("blocks/2", vec![(cid_v1(0x55, &d1), d1.clone()), (cid_v1(0x71, &d100), d100.clone())]),
        ("blocks-v0/1x1", vec![(cid_v0(&d1), d1.clone())]),
    ]
}

fn bitswap_presences() -> Vec<(&'static str, Vec<(Cid, BlockPresenceType)>)> {
    vec![
        ("presences/have", vec![(cid_v1(0x55, b"a"), BlockPresenceType::Have)]),
        (
            "presences/have+donthave",
            vec![(cid_v1(0x55, b"a"), BlockPresenceType::Have), (cid_v0(b"b"), BlockPresenceType::DontHave)],
        ),
    ]
}

fn corpus_bitswap() -> Vec<Item> {
    let mut out = Vec::new();
    for (kind, blocks) in bitswap_blocks() {
        let (bytes, _) = bs::blocks_message(blocks).expect("non-empty");
        out.push(item_pb(kind, bytes.to_vec(), &bitswap_nested, false));
    }
    for (kind, pres) in bitswap_presences() {
        let (bytes, _) = bs::presences_message(pres).expect("non-empty");
        out.push(item_pb(kind, bytes.to_vec(), &bitswap_nested, false));
    }
    // requests: the encoder is inlined in the async `send_request`; mirror its field layout by hand
    let entry = |cid: &Cid, want_type: u64| {
        let mut e = pb_bytes(1, &cid.to_bytes());
        e.extend(pb_varint(2, 1));
        if want_type != 0 {
            e.extend(pb_varint(4, want_type));
        }
        e
    };
    let mut wl = pb_bytes(1, &entry(&cid_v1(0x55, b"a"), 0));
    out.push(item_pb("wantlist/1-block", pb_bytes(1, &wl), &bitswap_nested, true));
    wl.extend(pb_bytes(1, &entry(&cid_v0(b"b"), 1)));
    out.push(item_pb("wantlist/2-block+have", pb_bytes(1, &wl), &bitswap_nested, true));
    out
}

fn prefix_values() -> Vec<(&'static str, cid::Version, u64, u64, u8)> {
    vec![
        ("prefix/v1-raw-sha256", cid::Version::V1, 0x55, 0x12, 32),
        ("prefix/v0-dagpb-sha256", cid::Version::V0, 0x70, 0x12, 32),
        ("prefix/v1-dagcbor-sha512", cid::Version::V1, 0x71, 0x13, 64),
        ("prefix/v1-wide-codes", cid::Version::V1, 0x0129, 0xb220, 32),
    ]
}

fn corpus_prefix() -> Vec<Item> {
    prefix_values()
        .into_iter()
        .map(|(kind, v, c, t, l)| {
            let bytes = bs::prefix_to_bytes(v, c, t, l);
            let mut varpos = Vec::new();
            let mut i = 0;
            while let Some((_, n)) = read_varint(&bytes[i..]) {
                varpos.push((i, n));
                i += n;
                if i >= bytes.len() {
                    break;
                }
            }
            Item { kind: kind.to_string(), bytes, lenpos: Vec::new(), varpos, anc: BTreeMap::new(), handmade: false }
        })
        .collect()
}

fn corpus_identify() -> Vec<Item> {
    let none = |_: &[u32]| false;
    let a1: Multiaddr = format!("/ip4/192.168.1.7/tcp/30333/p2p/{}", util::peer(1)).parse().expect("addr");
    let a2: Multiaddr = "/ip6/::1/tcp/30334".parse().expect("addr");
    let full = idf::Identify {
        protocol_version: Some("/substrate/1.0".into()),
        agent_version: Some("litep2p/1.0.0".into()),
        public_key: Some(PublicKey::Ed25519(util::keypair(1).public()).to_protobuf_encoding()),
        listen_addrs: vec![a1.to_vec(), a2.to_vec()],
        observed_addr: Some(a2.to_vec()),
        protocols: vec!["/ipfs/ping/1.0.0".into(), "/ipfs/id/1.0.0".into()],
    };
    let addrs_only = idf::Identify { listen_addrs: vec![a2.to_vec()], ..Default::default() };
    vec![
        item_pb("identify/full", full.encode_to_vec(), &none, false),
        item_pb("identify-addrs/listen-only", addrs_only.encode_to_vec(), &none, false),
        item_pb("identify-empty/default", idf::Identify::default().encode_to_vec(), &none, false),
    ]
}


/// Record lifetimes through the library's own encoder and decoder: the wire TTL is 32 bits of seconds, so a lifetime
/// survives as min(lifetime, u32::MAX) (within a few seconds of clock reading), for `PUT_VALUE` and `GET_VALUE` responses.
fn record_lifetime_roundtrips() -> (u64, Vec<(String, String, Value)>) {
    let mut bad = Vec::new();
    let mut n = 0u64;
    let lifetimes: [u64; 12] = [1, 2, 59, 3600, (u32::MAX as u64) - 1, u32::MAX as u64, 1 << 32, (1 << 32) + 1, (1 << 32) + 3600, (1 << 33) + 7, 1 << 36, 1 << 40];
    for secs in lifetimes {
        for kind in ["put_value", "get_value_response"] {
            n += 1;
            let before = Instant::now();
            let record = Record { key: RecordKey::from(key_of(32)), value: value_of(10), publisher: None, expires: Some(before + Duration::from_secs(secs)) };
            let bytes = match kind {
                "put_value" => KademliaMessage::put_value(record).to_vec(),
                _ => KademliaMessage::get_value_response(RecordKey::from(key_of(32)), vec![], Some(record)).to_vec(),
            };
            let decoded = guard(|| KademliaMessage::from_bytes(BytesMut::from(bytes.as_slice()), 20));
            let got = match decoded {
                Ok(Some(KademliaMessage::PutValue { record })) => record.expires,
                Ok(Some(KademliaMessage::GetRecord { record: Some(record), .. })) => record.expires,
                other => {
                    bad.push((format!("roundtrip/kademlia/record-lifetime/{kind}/not-decoded"), format!("{kind} with a record living {secs} s did not decode to a record: {:?}", other.map(|m| m.map(|_| "other message"))), json!({"kind": "record-lifetime", "message": kind, "secs": secs})));
                    continue;
                }
            };
            let want = secs.min(u32::MAX as u64);
            let left = got.map(|e| e.saturating_duration_since(before).as_secs());
            let ok = matches!(left, Some(l) if l + 5 >= want && l <= want + 5);
            if !ok {
                bad.push((
                    format!("roundtrip/kademlia/record-lifetime/{kind}"),
                    format!("{kind}: a record encoded with {secs} s to live decoded with {left:?} s to live, expected about {want} s"),
                    json!({"kind": "record-lifetime", "message": kind, "secs": secs}),
                ));
            }
        }
    }
    (n, bad)
}

// ------------------------------------------------------------------------------------------------
// round trips of the library's own encoders
// ------------------------------------------------------------------------------------------------

struct Rt {
    checked: u64,
    failures: Vec<(String, String, Value)>,
    exceptions: Vec<Value>,
}

impl Rt {
    fn fail(&mut self, dec: Dec, group: &str, what: String, kind: &str) {
        self.failures.push((
            format!("roundtrip/{}/{}", dec.name(), group),
            what,
            json!({"decoder": dec.name(), "roundtrip_kind": kind}),
        ));
    }
}

fn guard<T>(f: impl FnOnce() -> T) -> Result<T, String> {
    catch_unwind(AssertUnwindSafe(f)).map_err(|_| norm_panic(&e1::take_panic()))
}

fn same_peers(got: &[KademliaPeer], want: &[PeerSpec]) -> Result<(), String> {
    if got.len() != want.len() {
        return Err(format!("{} peers decoded, {} encoded", got.len(), want.len()));
    }
    for (g, w) in got.iter().zip(want) {
        if kad::peer_id(g) != w.id {
            return Err(format!("peer id {} decoded, {} encoded", kad::peer_id(g), w.id));
        }
        if kad::peer_connection(g) != w.conn {
            return Err(format!("connection {:?} decoded, {:?} encoded", kad::peer_connection(g), w.conn));
        }
        let mut ga: Vec<Vec<u8>> = g.addresses().iter().map(|a| a.to_vec()).collect();
        let mut wa: Vec<Vec<u8>> = w.addrs.iter().map(|a| a.to_vec()).collect();
        ga.sort();
        wa.sort();
        if ga != wa {
            return Err(format!("addresses {:?} decoded, {:?} encoded", g.addresses(), w.addrs));
        }
    }
    Ok(())
}

fn same_record(got: &Record, want: &RecSpec) -> Result<(), String> {
    if got.key.as_ref() != want.key.as_slice() {
        return Err("record key differs".into());
    }
    if got.value != want.value {
        return Err("record value differs".into());
    }
    if got.publisher != want.publisher {
        return Err(format!("publisher {:?} decoded, {:?} encoded", got.publisher, want.publisher));
    }
    if got.expires.is_some() != want.ttl {
        return Err(format!("expires {:?} decoded, ttl encoded: {}", got.expires, want.ttl));
    }
    Ok(())
}

fn kad_matches(got: &Option<KademliaMessage>, want: &KExp) -> Result<(), String> {
    let key_eq = |g: &Option<RecordKey>, w: &Option<Vec<u8>>| g.as_ref().map(|k| k.to_vec()) == *w;
    match (got, want) {
        (_, KExp::Any) => Ok(()),
        (None, KExp::Refused(_)) => Ok(()),
        (Some(m), KExp::Refused(why)) => Err(format!("expected refusal ({why}), decoded {m:?}")),
        (None, _) => Err("decoder returned None".into()),
        (Some(KademliaMessage::FindNode { target, peers }), KExp::FindNode { target: t, peers: p }) => {
            if target != t {
                return Err("target differs".into());
            }
            same_peers(peers, p)
        }
        (Some(KademliaMessage::PutValue { record }), KExp::PutValue { rec }) => same_record(record, rec),
        (Some(KademliaMessage::GetRecord { key, record, peers }), KExp::GetRecord { key: k, rec, peers: p }) => {
            if !key_eq(key, k) {
                return Err(format!("key {key:?} decoded, {k:?} encoded"));
            }
            match (record, rec) {
                (None, None) => {}
                (Some(g), Some(w)) => same_record(g, w)?,
                _ => return Err("record presence differs".into()),
            }
            same_peers(peers, p)
        }
        (Some(KademliaMessage::AddProvider { key, providers }), KExp::AddProvider { key: k, providers: p }) => {
            if key.to_vec() != *k {
                return Err("key differs".into());
            }
            same_peers(providers, p)
        }
        (Some(KademliaMessage::GetProviders { key, peers, providers }), KExp::GetProviders { key: k, peers: p, providers: pr }) => {
            if !key_eq(key, k) {
                return Err(format!("key {key:?} decoded, {k:?} encoded"));
            }
            same_peers(peers, p)?;
            same_peers(providers, pr)
        }
        (Some(m), w) => Err(format!("decoded a different message type: {} for {:?}", m, std::mem::discriminant(w))),
    }
}

fn roundtrips(runs: &[HonestRun], kadc: &[(Item, KExp)], only: Option<(&str, &str)>) -> Rt {
    let mut rt = Rt { checked: 0, failures: Vec::new(), exceptions: Vec::new() };
    let want = |dec: Dec, kind: &str| only.map_or(true, |(d, k)| d == dec.name() && k == kind);

    // multistream messages
    for (kind, m) in ms_values() {
        if !want(Dec::MsMessage, kind) {
            continue;
        }
        rt.checked += 1;
        let r = guard(|| Message::decode(Bytes::from(enc(&m))));
        match r {
            Ok(Ok(m2)) if m2 == m => {}
            other => rt.fail(Dec::MsMessage, kind.split('/').next().unwrap_or(kind), format!("{kind}: decode(encode(v)) = {other:?}"), kind),
        }
    }
    // every name length 1..=300 as a single proposal and as the first / only entry of an `ls` response (the length
    // prefix of the first entry takes every one-byte value, including the ones that look like the start of another
    // message kind)
    if want(Dec::MsMessage, "length-sweep") {
        for len in 1..=300usize {
            let name: Vec<u8> = std::iter::once(b'/').chain(std::iter::repeat(b'n').take(len - 1)).collect();
            let Ok(p) = Protocol::try_from(name.as_slice()) else { continue };
            for (kind, m) in [
                ("protocol", Message::Protocol(p.clone())),
                ("protocols", Message::Protocols(vec![p.clone()])),
                ("protocols", Message::Protocols(vec![p.clone(), proto(b"/")])),
            ] {
                rt.checked += 1;
                let r = guard(|| Message::decode(Bytes::from(enc(&m))));
                match r {
                    Ok(Ok(m2)) if m2 == m => {}
                    other => {
                        let mut o = format!("{other:?}");
                        o.truncate(200);
                        rt.fail(Dec::MsMessage, kind, format!("{kind} with a first name of {len} bytes: decode(encode(v)) = {o}"), "length-sweep");
                        break;
                    }
                }
            }
        }
    }
    if only.is_none() {
        // values the wire format cannot carry: recorded, not judged
        for (what, name) in [
            ("protocol name containing a line feed", b"/a\nb".to_vec()),
            ("protocol name equal to the multistream header", b"/multistream/1.0.0".to_vec()),
        ] {
            // (a tree in which the constructor itself refuses such a name has nothing to record here)
            let Ok(p) = Protocol::try_from(name.as_slice()) else { continue };
            let m = Message::Protocol(p);
            let r = guard(|| Message::decode(Bytes::from(enc(&m))));
            rt.exceptions.push(json!({
                "decoder": Dec::MsMessage.name(),
                "value": format!("{m:?}"),
                "why": what,
                "encode_accepts": true,
                "decode_of_encoding": format!("{r:?}"),
            }));
        }
    }

    // message based negotiation: propose -> listener -> dialer
    if want(Dec::WebrtcListener, "propose") {
        rt.checked += 1;
        let r = guard(|| {
            let (mut st, msg) = WebRtcDialerState::propose(ProtocolName::from(PROTO_B), vec![]).map_err(|e| format!("{e:?}"))?;
            let resp = webrtc_listener_negotiate(
                vec![ProtocolName::from(PROTO_A), ProtocolName::from(PROTO_B)],
                Bytes::from(msg),
                false,
            )
            .map_err(|e| format!("{e:?}"))?;
            let ListenerSelectResult::Accepted { protocol, message } = resp else {
                return Err(format!("listener answered {resp:?}"));
            };
            if protocol != ProtocolName::from(PROTO_B) {
                return Err(format!("listener accepted {protocol}"));
            }
            match st.register_response(message.to_vec()) {
                Ok(HandshakeResult::Succeeded(p)) if p == ProtocolName::from(PROTO_B) => Ok(()),
                other => Err(format!("dialer concluded {other:?}")),
            }
        });
        if !matches!(r, Ok(Ok(()))) {
            rt.fail(Dec::WebrtcListener, "propose", format!("propose -> listener -> dialer: {r:?}"), "propose");
        }
    }
    if want(Dec::WebrtcDialer, "fallback") {
        rt.checked += 1;
        let r = guard(|| {
            let sup = || vec![ProtocolName::from(PROTO_B)];
            let (mut st, msg) =
                WebRtcDialerState::propose(ProtocolName::from("/nope"), vec![ProtocolName::from(PROTO_B)]).map_err(|e| format!("{e:?}"))?;
            let ListenerSelectResult::Rejected { message } =
                webrtc_listener_negotiate(sup(), Bytes::from(msg), false).map_err(|e| format!("{e:?}"))?
            else {
                return Err("listener did not reject".to_string());
            };
            if !matches!(st.register_response(message.to_vec()), Ok(HandshakeResult::Rejected)) {
                return Err("dialer did not see the rejection".to_string());
            }
            let next = st.propose_next_fallback().map_err(|e| format!("{e:?}"))?.ok_or("no fallback")?;
            let ListenerSelectResult::Accepted { message, .. } =
                webrtc_listener_negotiate(sup(), Bytes::from(next), true).map_err(|e| format!("{e:?}"))?
            else {
                return Err("listener did not accept the fallback".to_string());
            };
            match st.register_response(message.to_vec()) {
                Ok(HandshakeResult::Succeeded(p)) if p == ProtocolName::from(PROTO_B) => Ok(()),
                other => Err(format!("dialer concluded {other:?}")),
            }
        });
        if !matches!(r, Ok(Ok(()))) {
            rt.fail(Dec::WebrtcDialer, "fallback", format!("reject -> fallback -> accept: {r:?}"), "fallback");
        }
    }

    // stream negotiations
    for run in runs {
        if !want(Dec::ListenerSelect, run.name) {
            continue;
        }
        rt.checked += 1;
        if run.dialer != run.expect_dialer || run.listener != run.expect_listener {
            rt.fail(
                Dec::ListenerSelect,
                "honest",
                format!(
                    "honest negotiation {}: dialer {} (expected {}), listener {} (expected {})",
                    run.name, run.dialer, run.expect_dialer, run.listener, run.expect_listener
                ),
                run.name,
            );
        }
    }

    // kademlia
    for (item, exp) in kadc {
        if !want(Dec::Kademlia, &item.kind) {
            continue;
        }
        rt.checked += 1;
        let r = guard(|| KademliaMessage::from_bytes(BytesMut::from(item.bytes.as_slice()), 20));
        let verdict = match &r {
            Ok(got) => kad_matches(got, exp),
            Err(p) => Err(format!("panic {p}")),
        };
        if let Err(why) = verdict {
            rt.fail(Dec::Kademlia, item.group(), format!("{}: {why}; bytes {}", item.kind, short_hex(&item.bytes)), &item.kind);
        }
        if let KExp::Refused(why) = exp {
            rt.exceptions.push(json!({"decoder": Dec::Kademlia.name(), "value": item.kind, "why": why, "decode_of_encoding": format!("{:?}", r.as_ref().map(|m| m.is_some()))}));
        }
    }

    // public keys and peer ids
    for seed in [1u64, 2, 3] {
        let kind = format!("ed25519/seed{seed}");
        if want(Dec::PublicKey, &kind) {
            rt.checked += 1;
            let pk = util::keypair(seed).public();
            let r = guard(|| RemotePublicKey::from_protobuf_encoding(&PublicKey::Ed25519(pk.clone()).to_protobuf_encoding()));
            if !matches!(&r, Ok(Ok(RemotePublicKey::Ed25519(k))) if *k == pk) {
                rt.fail(Dec::PublicKey, "ed25519", format!("{kind}: {r:?}"), &kind);
            }
        }
    }
    for item in corpus_peer_id() {
        if item.handmade || !want(Dec::PeerIdBytes, &item.kind) {
            continue;
        }
        rt.checked += 1;
        let r = guard(|| PeerId::from_bytes(&item.bytes).map(|p| p.to_bytes()));
        if !matches!(&r, Ok(Ok(b)) if *b == item.bytes) {
            rt.fail(Dec::PeerIdBytes, item.group(), format!("{}: {r:?}", item.kind), &item.kind);
        }
    }

    // noise handshake payload: the library's own assembled payload, and the deterministic hand encoding
    if want(Dec::NoisePayload, "fresh") {
        rt.checked += 1;
        let kp = util::keypair(5);
        let r = guard(|| {
            let (payload, dh) = noise_payload::fresh_payload(&kp, litep2p::config::Role::Dialer).map_err(|e| format!("{e:?}"))?;
            let hand = noise_payload_bytes(5, true, true, false);
            if payload.len() != hand.len() || payload[..40] != hand[..40] {
                return Err(format!("hand encoding differs in layout: lib {} hand {}", util::hex(&payload), util::hex(&hand)));
            }
            noise_payload::decode_and_verify_payload(&payload, &dh).map_err(|e| format!("{e:?}"))
        });
        if !matches!(&r, Ok(Ok(p)) if *p == util::peer(5)) {
            rt.fail(Dec::NoisePayload, "fresh", format!("payload of a fresh NoiseContext: {r:?}"), "fresh");
        }
    }
    for (kind, seed, ext) in [("hand", 1u64, false), ("hand-ext", 2, true)] {
        if !want(Dec::NoisePayload, kind) {
            continue;
        }
        rt.checked += 1;
        let r = guard(|| noise_payload::decode_and_verify_payload(&noise_payload_bytes(seed, true, true, ext), &DH_PUB));
        if !matches!(&r, Ok(Ok(p)) if *p == util::peer(seed)) {
            rt.fail(Dec::NoisePayload, "hand", format!("{kind}: {r:?}"), kind);
        }
    }

    // bitswap
    for (kind, blocks) in bitswap_blocks() {
        if !want(Dec::Bitswap, kind) {
            continue;
        }
        rt.checked += 1;
        let r = guard(|| {
            let (bytes, _) = bs::blocks_message(blocks.clone()).ok_or("no message")?;
            let (payload, _, _) = bs::decode_message(&bytes).ok_or("undecodable")?;
            if payload.len() != blocks.len() {
                return Err("block count differs".to_string());
            }
            for ((prefix, data), (cid, block)) in payload.into_iter().zip(blocks.iter()) {
                match bs::block_to_response(&util::peer(1), prefix, data) {
                    Some(ResponseType::Block { cid: c, block: b }) if c == *cid && b == *block => {}
                    other => return Err(format!("block {cid} came back as {other:?}")),
                }
            }
            Ok(())
        });
        if !matches!(r, Ok(Ok(()))) {
            rt.fail(Dec::Bitswap, "blocks", format!("{kind}: {r:?}"), kind);
        }
    }
    for (kind, pres) in bitswap_presences() {
        if !want(Dec::Bitswap, kind) {
            continue;
        }
        rt.checked += 1;
        let r = guard(|| {
            let (bytes, _) = bs::presences_message(pres.clone()).ok_or("no message")?;
            let (_, got) = bs::decode_message_cids(&bytes).ok_or("undecodable")?;
            if got.len() != pres.len() {
                return Err("presence count differs".to_string());
            }
            for ((c, t), (cid, ty)) in got.iter().zip(pres.iter()) {
                if Cid::read_bytes(&c[..]).ok() != Some(*cid) || *t != *ty as i32 {
                    return Err(format!("presence {cid} {ty:?} came back as {} type {t}", util::hex(c)));
                }
            }
            Ok(())
        });
        if !matches!(r, Ok(Ok(()))) {
            rt.fail(Dec::Bitswap, "presences", format!("{kind}: {r:?}"), kind);
        }
    }
    for (kind, v, c, t, l) in prefix_values() {
        if !want(Dec::BitswapPrefix, kind) {
            continue;
        }
        rt.checked += 1;
        let r = guard(|| bs::prefix_from_bytes(&bs::prefix_to_bytes(v, c, t, l)));
        if !matches!(r, Ok(Some((gv, gc, gt, gl))) if gv == u64::from(v) && gc == c && gt == t && gl == l) {
            rt.fail(Dec::BitswapPrefix, "prefix", format!("{kind}: {r:?}"), kind);
        }
    }
    rt
}

// ------------------------------------------------------------------------------------------------
// the enumerated neighbourhood
// ------------------------------------------------------------------------------------------------

const SUBST: [u8; 5] = [0x00, 0x01, 0x7f, 0x80, 0xff];

#[derive(Clone, Copy, Debug)]
enum Class {
    Corpus,
    /// -1: all strings of length 0 and 1; b: all strings of length 2 starting with byte b
    Short(i32),
    /// all strings of length 3 starting with the given byte (thorough tier, synchronous decoders)
    Short3(u8),
    Trunc(usize),
    Subst(usize),
    Extreme(usize),
    Splice(usize, usize),
    Pending(usize),
}

impl Class {
    fn name(self) -> &'static str {
        match self {
            Class::Corpus => "corpus",
            Class::Short(_) => "short",
            Class::Short3(_) => "short3",
            Class::Trunc(_) => "trunc",
            Class::Subst(_) => "subst",
            Class::Extreme(_) => "extreme",
            Class::Splice(_, _) => "splice",
            Class::Pending(_) => "pending",
        }
    }
}

#[derive(Clone, Copy, Debug)]
struct Job {
    target: usize,
    param: u32,
    class: Class,
}

/// Enumerate the cases of one job; `f` returns false to stop early.
fn gen_cases(job: &Job, targets: &[Target], f: &mut dyn FnMut(u32, &[u8]) -> bool) {
    let t = &targets[job.target];
    let p = job.param;
    match job.class {
        Class::Corpus => {
            for it in &t.corpus {
                if !f(p, &it.bytes) {
                    return;
                }
            }
        }
        Class::Short(-1) => {
            if !f(p, &[]) {
                return;
            }
            for b in 0..=255u8 {
                if !f(p, &[b]) {
                    return;
                }
            }
        }
        Class::Short(first) => {
            for b in 0..=255u8 {
                if !f(p, &[first as u8, b]) {
                    return;
                }
            }
        }
        Class::Short3(first) => {
            for b in 0..=255u8 {
                for c in 0..=255u8 {
                    if !f(p, &[first, b, c]) {
                        return;
                    }
                }
            }
        }
        Class::Trunc(i) => {
            let b = &t.corpus[i].bytes;
            for n in 0..b.len() {
                if !f(p, &b[..n]) {
                    return;
                }
            }
        }
        Class::Subst(i) => {
            let mut b = t.corpus[i].bytes.clone();
            for off in 0..b.len() {
                let orig = b[off];
                let mut vals: Vec<u8> = SUBST.to_vec();
                vals.push(orig ^ 1);
                vals.sort_unstable();
                vals.dedup();
                for v in vals {
                    if v == orig {
                        continue;
                    }
                    b[off] = v;
                    if !f(p, &b) {
                        return;
                    }
                }
                b[off] = orig;
            }
        }
        Class::Extreme(i) => {
            let it = &t.corpus[i];
            let ex = extremes();
            for &(off, n) in it.lenpos.iter().chain(it.varpos.iter()) {
                for e in &ex {
                    let mut b = it.bytes[..off].to_vec();
                    b.extend_from_slice(e);
                    b.extend_from_slice(&it.bytes[off + n..]);
                    if !f(p, &b) {
                        return;
                    }
                    // inside a nested message: also the variant whose enclosing length prefixes are re-encoded
                    if let Some(anc) = it.anc.get(&off) {
                        if let Some(c) = replace_consistent(&it.bytes, off, n, e, anc) {
                            if !f(p, &c) {
                                return;
                            }
                        }
                    }
                }
            }
        }
        Class::Splice(a, b) => {
            let (a, b) = (&t.corpus[a].bytes, &t.corpus[b].bytes);
            let mut buf = Vec::with_capacity(a.len() + b.len());
            for i in 0..=a.len() {
                for j in 0..=b.len() {
                    buf.clear();
                    buf.extend_from_slice(&a[..i]);
                    buf.extend_from_slice(&b[j..]);
                    if !f(p, &buf) {
                        return;
                    }
                }
            }
        }
        Class::Pending(i) => {
            let it = &t.corpus[i];
            let ops = it.lenpos.len() as u32 * 3 + 4;
            for k in 0..ops {
                if !f(p | ((k + 1) << 8), &it.bytes) {
                    return;
                }
            }
        }
    }
}

/// Corpus items taking part in splicing. Quick: per message kind the richest item of at most 64 bytes.
/// Thorough: every distinct item of at most 64 bytes, longest first, as many as keep the pair product near 1.5M.
fn splice_set(corpus: &[Item], tier: Tier) -> Vec<usize> {
    let mut v: Vec<usize> = match tier {
        Tier::Quick => {
            let mut best: BTreeMap<&str, usize> = BTreeMap::new();
            for (i, it) in corpus.iter().enumerate() {
                if it.bytes.len() > 64 || it.bytes.is_empty() {
                    continue;
                }
                match best.get(it.group()) {
                    Some(&j) if corpus[j].bytes.len() >= it.bytes.len() => {}
                    _ => {
                        best.insert(it.group(), i);
                    }
                }
            }
            best.into_values().collect()
        }
        Tier::Thorough => {
            let mut seen = HashSet::new();
            let mut all: Vec<usize> = (0..corpus.len())
                .filter(|&i| !corpus[i].bytes.is_empty() && corpus[i].bytes.len() <= 64 && seen.insert(corpus[i].bytes.clone()))
                .collect();
            all.sort_by_key(|&i| (std::cmp::Reverse(corpus[i].bytes.len()), i));
            let mut total = 0usize;
            let mut keep = Vec::new();
            for i in all {
                let sum: usize = keep.iter().map(|&j: &usize| corpus[j].bytes.len() + 1).sum::<usize>() + corpus[i].bytes.len() + 1;
                if sum * sum > 1_500_000 {
                    break;
                }
                total = sum;
                keep.push(i);
            }
            let _ = total;
            keep
        }
    };
    v.sort_unstable();
    v
}

fn build_jobs(targets: &[Target], tier: Tier) -> Vec<Job> {
    let mut jobs = Vec::new();
    for (ti, t) in targets.iter().enumerate() {
        let splice = splice_set(&t.corpus, tier);
        for &param in &t.params {
            let mut push = |class| jobs.push(Job { target: ti, param, class });
            push(Class::Corpus);
            for s in -1..=255 {
                push(Class::Short(s));
            }
            if tier == Tier::Thorough && !t.dec.is_stream() && param == t.params[0] {
                for b in 0..=255u8 {
                    push(Class::Short3(b));
                }
            }
            for i in 0..t.corpus.len() {
                push(Class::Trunc(i));
            }
            for i in 0..t.corpus.len() {
                push(Class::Subst(i));
            }
            for (i, it) in t.corpus.iter().enumerate() {
                if !it.lenpos.is_empty() || !it.varpos.is_empty() {
                    push(Class::Extreme(i));
                }
            }
            if t.dec.is_stream() {
                for i in 0..t.corpus.len() {
                    push(Class::Pending(i));
                }
            }
            let n = splice.len();
            for x in 0..n {
                for y in 0..n {
                    if tier == Tier::Thorough || x != y {
                        push(Class::Splice(splice[x], splice[y]));
                    }
                }
            }
        }
    }
    jobs
}

fn build_targets(tier: Tier, runs: &[HonestRun], kadc: &[(Item, KExp)]) -> Vec<Target> {
    let (to_listener, to_dialer) = corpus_streams(runs);
    let dialer_params: Vec<u32> = (0..8).collect();
    vec![
        Target { dec: Dec::MsMessage, params: vec![0], corpus: corpus_ms() },
        Target { dec: Dec::WebrtcListener, params: vec![0, 1], corpus: corpus_webrtc_listener() },
        Target { dec: Dec::WebrtcDialer, params: vec![0, 1], corpus: corpus_webrtc_dialer() },
        Target { dec: Dec::ListenerSelect, params: vec![0, P_CHUNK1], corpus: to_listener },
        Target { dec: Dec::DialerSelect, params: dialer_params, corpus: to_dialer },
        Target {
            dec: Dec::Kademlia,
            params: tier.pick(vec![20, 1], vec![20, 1, 3, 0]),
            corpus: kadc.iter().map(|(i, _)| i.clone()).collect(),
        },
        Target { dec: Dec::PublicKey, params: vec![0], corpus: corpus_public_key() },
        Target { dec: Dec::PeerIdBytes, params: vec![0], corpus: corpus_peer_id() },
        Target { dec: Dec::NoisePayload, params: vec![0], corpus: corpus_noise() },
        Target { dec: Dec::Bitswap, params: vec![0], corpus: corpus_bitswap() },
        Target { dec: Dec::BitswapPrefix, params: vec![0], corpus: corpus_prefix() },
        Target { dec: Dec::Identify, params: vec![0], corpus: corpus_identify() },
    ]
}

// ------------------------------------------------------------------------------------------------
// judging one case, running jobs
// ------------------------------------------------------------------------------------------------

fn case_json(dec: Dec, param: u32, input: &[u8], class: &str) -> Value {
    json!({"decoder": dec.name(), "param": param, "input": util::hex(input), "class": class})
}

fn param_text(dec: Dec, param: u32) -> String {
    match dec {
        Dec::WebrtcListener => format!("header_received={}", param & 1 == 1),
        Dec::WebrtcDialer => format!("state={}", if param & 1 == 1 { "WaitingProtocol" } else { "WaitingResponse" }),
        Dec::ListenerSelect | Dec::DialerSelect => format!(
            "version={} protocols={} read_chunk={} spurious_pending_read={}",
            if dec == Dec::ListenerSelect { "-" } else if param & P_LAZY != 0 { "V1Lazy" } else { "V1" },
            if dec == Dec::ListenerSelect || param & P_TWO != 0 { 2 } else { 1 },
            if param & P_CHUNK1 != 0 { "1" } else { "unlimited" },
            if param >> 8 == 0 { "none".to_string() } else { format!("#{}", (param >> 8) - 1) },
        ),
        Dec::Kademlia => format!("replication_factor={param}"),
        _ => "-".to_string(),
    }
}

/// oracle verdicts of one evaluated case: `(signature, what)`
fn judge(dec: Dec, param: u32, input: &[u8], out: &Out) -> Vec<(String, String)> {
    let mut v = Vec::new();
    let ctxt = || format!("{}({}) on input {} ({} bytes)", dec.name(), param_text(dec, param), short_hex(input), input.len());
    if let Some(p) = &out.panic {
        v.push((format!("panic/{}/{}", dec.name(), e1::panic_site(p)), format!("{} panicked: {p}", ctxt())));
    }
    if let Some(h) = out.hang {
        v.push((
            format!("hang/{}/{h}", dec.name()),
            format!("{} did not terminate although the input was exhausted and closed ({h})", ctxt()),
        ));
    }
    let bound = dec.bound(input.len());
    if out.peak > bound {
        // discriminator: how far over the bound (a fixed-overhead overshoot and an attacker-sized allocation are
        // different cause classes)
        let over = if out.peak < 2 * bound {
            "under-2x-bound"
        } else if out.peak < 16 * bound {
            "under-16x-bound"
        } else {
            "16x-bound-or-more"
        };
        v.push((
            format!("alloc/{}/{over}", dec.name()),
            format!(
                "{} allocated a peak of {} bytes; bound is limit {} + 16*{} + 65536 = {}",
                ctxt(),
                out.peak,
                dec.limit(),
                input.len(),
                bound
            ),
        ));
    }
    if let Some((sig, what)) = &out.extra {
        v.push((sig.clone(), what.clone()));
    }
    v
}

#[derive(Default)]
struct JobResult {
    evals: u64,
    accepted: u64,
    max_peak: usize,
    max_peak_input: usize,
    labels: BTreeMap<&'static str, u64>,
    acc_hashes: Vec<u128>,
    violations: BTreeMap<String, (Violation, u64)>,
    sample: Option<Value>,
}

fn run_job(rt: &tokio::runtime::Runtime, idx: usize, job: &Job, targets: &[Target], progress: &AtomicU64) -> JobResult {
    let dec = targets[job.target].dec;
    let mut res = JobResult::default();
    let mut n: u64 = 0;
    let mut hbuf: Vec<u8> = Vec::new();
    gen_cases(job, targets, &mut |param, input| {
        progress.store((((idx as u64) + 1) << 32) | (n & 0xffff_ffff), Ordering::Relaxed);
        n += 1;
        let out = eval(rt, dec, param, input, false);
        res.evals += 1;
        *res.labels.entry(out.label).or_insert(0) += 1;
        if out.peak > res.max_peak {
            res.max_peak = out.peak;
            res.max_peak_input = input.len();
        }
        if out.accepted {
            res.accepted += 1;
            hbuf.clear();
            hbuf.extend_from_slice(dec.name().as_bytes());
            hbuf.extend_from_slice(&param.to_le_bytes());
            hbuf.extend_from_slice(input);
            res.acc_hashes.push(e1::hash128(&hbuf));
        }
        for (sig, what) in judge(dec, param, input, &out) {
            match res.violations.get_mut(&sig) {
                Some((_, c)) => *c += 1,
                None => {
                    let v = Violation { signature: sig.clone(), what, replay: case_json(dec, param, input, job.class.name()) };
                    res.violations.insert(sig, (v, 1));
                }
            }
        }
        if res.sample.is_none() && n == 7 {
            let o = eval(rt, dec, param, input, true);
            res.sample = Some(json!({
                "decoder": dec.name(), "param": param_text(dec, param), "class": job.class.name(),
                "input": short_hex(input), "result": o.detail, "peak_alloc": o.peak,
            }));
        }
        true
    });
    progress.store(0, Ordering::Relaxed);
    res
}

#[derive(Default)]
struct DecStats {
    inputs: u64,
    accepted: u64,
    max_peak: usize,
    max_peak_input: usize,
    labels: BTreeMap<&'static str, u64>,
    classes: BTreeMap<&'static str, u64>,
}

fn nth_case(job: &Job, targets: &[Target], n: u64) -> Option<(u32, Vec<u8>)> {
    let mut i = 0u64;
    let mut found = None;
    gen_cases(job, targets, &mut |p, input| {
        if i == n {
            found = Some((p, input.to_vec()));
            return false;
        }
        i += 1;
        true
    });
    found
}

pub fn run(ctx: &mut Ctx) {
    let tier = ctx.tier;
    ctx.cov(
        "rule",
        "for every decoder D and every input x of the enumerated neighbourhood: D(x) returns Ok/Err without panic, \
         terminates (stream negotiations: all tasks done once the canned input is exhausted and closed), and the peak \
         number of bytes the call allocates is <= limit(D) + 16*|x| + 64 KiB; decode(encode(v)) == v for every corpus value",
    );
    ctx.assume("bounded structured neighbourhood of valid encodings (corpus, all strings of length <= 2, every truncation, single-byte substitutions from {00,01,7f,80,ff,b^1}, extreme varints at every length/varint position, two-point splices of corpus items <= 64 bytes), not all byte strings");
    ctx.assume("allocation is measured as peak live bytes allocated by the calling thread during the call (counting global allocator); a moving realloc counts old+new");
    ctx.assume("stream negotiations read a canned byte string from the scripted pipe (then EOF) and write into a counting sink; deviations: read chunk unlimited / 1 byte, and one spurious Pending at every read-operation index of every corpus stream");
    ctx.assume("identify: the inbound parsing is inlined in the async `on_outbound_substream` (needs a TransportService); only the generated `Identify::decode` plus the same Multiaddr::try_from / iter().last() calls re-stated in the harness are exercised");
    ctx.assume("bitswap: `Cid::read_bytes` on wantlist entries / block presences is inlined in the async `on_message_received`; the harness re-states those two calls on the raw fields exposed by the seam; wantlist requests and Noise payloads are hand-encoded because their encoders are inlined / randomised (layout cross-checked against a fresh NoiseContext payload)");
    ctx.assume("substream varint length prefixes: byte-stream behaviour is C04's; here only 'no panic' on C04's malformed-prefix grammar (default carrier); RSA keys are not compiled in (feature off)");
    ctx.assume("an infinite loop inside a single synchronous call is only detected by a 30 s wall-clock watchdog (never reached on a passing run)");

    // Noise transport frames: the only length-prefixed decoder with state (it needs a session); the one place where a
    // peer-chosen length meets a fixed buffer is the end of the read-ahead window — swept with C02's executor
    {
        let cases = super::c02::read_ahead_boundary_cases();
        let mut n = 0u64;
        for c in &cases {
            n += 1;
            for (sig, what) in super::c02::violations_of(c) {
                if sig.starts_with("panic/") {
                    ctx.violation(Violation {
                        signature: format!("panic/noise_socket_read/{}", sig.trim_start_matches("panic/")),
                        what,
                        replay: json!({"via": "C02", "case": serde_json::to_value(c).unwrap_or_default()}),
                    });
                }
            }
        }
        ctx.cov_add("evaluations", n);
        ctx.sub("noise_frame_at_read_ahead_window_end", json!({"cases": n}));
    }
    // substream varint length prefixes: C04's malformed-prefix grammar, judged here for "no panic" only
    {
        let (n, bad) = super::c04::raw_prefix_panics(3);
        let mut seen = std::collections::BTreeSet::new();
        for (sig, what, case) in bad {
            let sig = format!("panic/substream_length_prefix/{}", sig.rsplit('/').next().unwrap_or(""));
            if seen.insert(sig.clone()) {
                ctx.violation(Violation { signature: sig, what, replay: json!({"via": "C04", "case": case}) });
            }
        }
        ctx.cov_add("evaluations", n);
        ctx.sub("substream_length_prefixes_via_c04", json!({"cases": n}));
    }
    ctx.assume("Noise transport frames are decoded by the stateful NoiseSocket: byte-stream behaviour is C02's; here only 'no panic' on the sweep of a maximum-size frame over every offset near the end of the read-ahead window (read-ahead factors 1 and 5)");

    // corpora and round trips
    let runs = honest_runs();
    let kadc = corpus_kademlia();
    let rt = roundtrips(&runs, &kadc, None);
    for (sig, what, replay) in &rt.failures {
        ctx.violation(Violation { signature: sig.clone(), what: what.clone(), replay: replay.clone() });
    }
    ctx.sub(
        "roundtrip",
        json!({"values_checked": rt.checked, "failures": rt.failures.len(), "wire_format_exceptions_observed": rt.exceptions}),
    );
    {
        let (n, bad) = record_lifetime_roundtrips();
        let mut seen = std::collections::BTreeSet::new();
        for (sig, what, replay) in bad {
            if seen.insert(sig.clone()) {
                ctx.violation(Violation { signature: sig, what, replay });
            }
        }
        ctx.cov_add("evaluations", n);
        ctx.sub("record_lifetime_roundtrips", json!({"cases": n}));
    }

    let targets = Arc::new(build_targets(tier, &runs, &kadc));
    let jobs = Arc::new(build_jobs(&targets, tier));
    let handmade: Vec<String> = targets
        .iter()
        .flat_map(|t| t.corpus.iter().filter(|i| i.handmade).map(move |i| format!("{}:{}", t.dec.name(), i.kind)))
        .collect();

    // workers
    let nthreads = std::thread::available_parallelism().map(|n| n.get()).unwrap_or(4).min(jobs.len().max(1));
    let next = Arc::new(AtomicUsize::new(0));
    let progress: Arc<Vec<AtomicU64>> = Arc::new((0..nthreads).map(|_| AtomicU64::new(0)).collect());
    let (tx, rx) = mpsc::channel::<(usize, JobResult)>();
    for w in 0..nthreads {
        let (targets, jobs, next, progress, tx) = (targets.clone(), jobs.clone(), next.clone(), progress.clone(), tx.clone());
        std::thread::spawn(move || {
            let rt = driver::runtime(19);
            loop {
                let i = next.fetch_add(1, Ordering::SeqCst);
                if i >= jobs.len() {
                    break;
                }
                let r = catch_unwind(AssertUnwindSafe(|| run_job(&rt, i, &jobs[i], &targets, &progress[w])));
                let r = r.unwrap_or_else(|_| {
                    let mut jr = JobResult::default();
                    let msg = e1::take_panic();
                    jr.violations.insert(
                        "machinery/job-panic".into(),
                        (Violation { signature: "machinery/job-panic".into(), what: format!("job {i} panicked in the harness: {msg}"), replay: json!({}) }, 1),
                    );
                    jr
                });
                if tx.send((i, r)).is_err() {
                    break;
                }
            }
        });
    }
    drop(tx);

    let mut results: Vec<Option<JobResult>> = (0..jobs.len()).map(|_| None).collect();
    let mut got = 0usize;
    let mut last: Vec<(u64, Instant)> = (0..nthreads).map(|_| (0, Instant::now())).collect();
    let mut watchdog_hit = false;
    while got < jobs.len() {
        match rx.recv_timeout(Duration::from_millis(250)) {
            Ok((i, r)) => {
                results[i] = Some(r);
                got += 1;
            }
            Err(mpsc::RecvTimeoutError::Disconnected) => break,
            Err(mpsc::RecvTimeoutError::Timeout) => {}
        }
        for w in 0..nthreads {
            let p = progress[w].load(Ordering::Relaxed);
            if p != last[w].0 {
                last[w] = (p, Instant::now());
            } else if p != 0 && last[w].1.elapsed() > Duration::from_secs(WATCHDOG_SECS) {
                let (ji, ci) = ((p >> 32) as usize - 1, p & 0xffff_ffff);
                let job = jobs[ji];
                let dec = targets[job.target].dec;
                if let Some((param, input)) = nth_case(&job, &targets, ci) {
                    ctx.violation(Violation {
                        signature: format!("hang/{}/watchdog", dec.name()),
                        what: format!(
                            "{}({}) did not return within {WATCHDOG_SECS} s on input {}",
                            dec.name(),
                            param_text(dec, param),
                            short_hex(&input)
                        ),
                        replay: case_json(dec, param, &input, job.class.name()),
                    });
                }
                watchdog_hit = true;
            }
        }
        if watchdog_hit {
            break;
        }
    }

    // merge in job order
    let mut stats: BTreeMap<Dec, DecStats> = BTreeMap::new();
    let mut distinct: HashSet<u128> = HashSet::new();
    let mut evaluations = 0u64;
    let mut sampled: HashSet<&'static str> = HashSet::new();
    let mut complete = !watchdog_hit;
    for (i, r) in results.into_iter().enumerate() {
        let Some(r) = r else {
            complete = false;
            continue;
        };
        let job = jobs[i];
        let dec = targets[job.target].dec;
        let s = stats.entry(dec).or_default();
        s.inputs += r.evals;
        s.accepted += r.accepted;
        if r.max_peak > s.max_peak {
            s.max_peak = r.max_peak;
            s.max_peak_input = r.max_peak_input;
        }
        for (l, c) in r.labels {
            *s.labels.entry(l).or_insert(0) += c;
        }
        *s.classes.entry(job.class.name()).or_insert(0) += r.evals;
        evaluations += r.evals;
        distinct.extend(r.acc_hashes);
        for (sig, (v, c)) in r.violations {
            if sig.starts_with("machinery/") {
                ctx.machinery_error(format!("{sig}: {}", v.what));
                continue;
            }
            ctx.violation(v);
            if let Some(e) = ctx.violations.get_mut(&sig) {
                e.1 += c - 1;
            }
        }
        if let Some(sv) = r.sample {
            // one sample per decoder, rotating through the mutation classes
            let wanted = ["subst", "extreme", "splice", "trunc", "short"][sampled.len() % 5];
            if job.class.name() == wanted && !sampled.contains(dec.name()) {
                sampled.insert(dec.name());
                ctx.sample(sv);
            }
        }
    }
    if !complete && !watchdog_hit {
        ctx.machinery_error("not every job reported a result");
    }

    ctx.cov_add("evaluations", evaluations + rt.checked);
    ctx.cov("distinct_nontrivial", distinct.len() as u64);
    ctx.cov("exhaustive", complete);
    ctx.cov("jobs", jobs.len() as u64);
    ctx.cov("threads", nthreads as u64);
    ctx.cov("hand_encoded_corpus_items", json!(handmade));
    for t in targets.iter() {
        let s = stats.remove(&t.dec).unwrap_or_default();
        ctx.sub(
            t.dec.name(),
            json!({
                "corpus_items": t.corpus.len(),
                "corpus_bytes": t.corpus.iter().map(|i| i.bytes.len()).sum::<usize>(),
                "length_and_varint_positions": t.corpus.iter().map(|i| i.lenpos.len() + i.varpos.len()).sum::<usize>(),
                "params": t.params.iter().map(|&p| param_text(t.dec, p)).collect::<Vec<_>>(),
                "configured_limit": t.dec.limit(),
                "inputs": s.inputs,
                "accepted": s.accepted,
                "rejected": s.inputs - s.accepted,
                "max_peak_alloc": s.max_peak,
                "max_peak_alloc_input_len": s.max_peak_input,
                "results": s.labels,
                "inputs_by_class": s.classes,
            }),
        );
    }
}

// ------------------------------------------------------------------------------------------------
// replay
// ------------------------------------------------------------------------------------------------

pub fn replay(case: &Value) -> Result<String, String> {
    if case["via"] == "C02" {
        return super::c02::replay(&case["case"]);
    }
    if case["via"] == "C04" {
        return super::c04::replay(&case["case"]);
    }
    let dec = case["decoder"].as_str().and_then(Dec::from_name).ok_or("case has no known decoder")?;
    if let Some(kind) = case["roundtrip_kind"].as_str() {
        let runs = honest_runs();
        let kadc = corpus_kademlia();
        let rt = roundtrips(&runs, &kadc, Some((dec.name(), kind)));
        let log = format!("round trip {} / {kind}: {} value(s) checked", dec.name(), rt.checked);
        return if rt.failures.is_empty() {
            Ok(log)
        } else {
            Err(format!("{log}\n{}", rt.failures.iter().map(|f| format!("[{}] {}", f.0, f.1)).collect::<Vec<_>>().join("\n")))
        };
    }
    let param = case["param"].as_u64().unwrap_or(0) as u32;
    let input = unhex(case["input"].as_str().ok_or("case has no input")?)?;
    let (tx, rx) = mpsc::channel();
    let inp = input.clone();
    std::thread::spawn(move || {
        let rt = driver::runtime(19);
        let out = eval(&rt, dec, param, &inp, true);
        let verdicts = judge(dec, param, &inp, &out);
        let _ = tx.send((out.label, out.detail, out.peak, out.accepted, verdicts));
    });
    match rx.recv_timeout(Duration::from_secs(WATCHDOG_SECS)) {
        Err(_) => Err(format!(
            "{}({}) on {} did not return within {WATCHDOG_SECS} s",
            dec.name(),
            param_text(dec, param),
            short_hex(&input)
        )),
        Ok((label, detail, peak, accepted, verdicts)) => {
            let log = format!(
                "{}({}) input {} ({} bytes)\n  result: {label} {detail}\n  accepted: {accepted}\n  peak allocation: {peak} bytes (bound {})",
                dec.name(),
                param_text(dec, param),
                util::hex(&input),
                input.len(),
                dec.bound(input.len())
            );
            if verdicts.is_empty() {
                Ok(log)
            } else {
                Err(format!("{log}\n{}", verdicts.iter().map(|(s, w)| format!("  [{s}] {w}")).collect::<Vec<_>>().join("\n")))
            }
        }
    }
}
