//! `verif selftest` — sanity of the environment itself: one honest Noise handshake + transfer over the scripted
//! carrier, run twice under the deterministic driver, must give identical observations.

use crate::env::{driver, pipe};
use futures::{AsyncReadExt, AsyncWriteExt};
use litep2p::{
    config::Role,
    verif::{handshake, HandshakeTransport},
};
use parking_lot::Mutex;
use std::{sync::Arc, time::Duration};

fn one_run(chunk: usize) -> Result<(String, u64), String> {
    let rt = driver::runtime(1);
    rt.block_on(async move {
        let mut policy = pipe::Policy::default();
        policy.read_chunk = chunk;
        let (a, b, h_ab, h_ba) = pipe::duplex(policy.clone(), policy);
        let kd = crate::util::keypair(1);
        let kl = crate::util::keypair(2);
        let out: Arc<Mutex<Vec<String>>> = Arc::new(Mutex::new(Vec::new()));
        let mut d = driver::Driver::new();
        let o1 = out.clone();
        d.spawn("dialer", async move {
            match handshake(a, &kd, Role::Dialer, 5, 2, Duration::from_secs(10), HandshakeTransport::Tcp).await {
                Ok((mut sock, peer)) => {
                    sock.write_all(b"hello over noise").await.unwrap();
                    sock.flush().await.unwrap();
                    o1.lock().push(format!("dialer ok remote={peer}"));
                    // keep the socket alive until the listener has read
                    let mut buf = [0u8; 2];
                    let _ = sock.read(&mut buf).await;
                }
                Err(e) => o1.lock().push(format!("dialer err {e:?}")),
            }
        });
        let o2 = out.clone();
        d.spawn("listener", async move {
            match handshake(b, &kl, Role::Listener, 5, 2, Duration::from_secs(10), HandshakeTransport::Tcp).await {
                Ok((mut sock, peer)) => {
                    let mut buf = [0u8; 16];
                    sock.read_exact(&mut buf).await.unwrap();
                    o2.lock().push(format!("listener ok remote={peer} got={}", String::from_utf8_lossy(&buf)));
                    sock.write_all(b"ok").await.unwrap();
                    sock.flush().await.unwrap();
                }
                Err(e) => o2.lock().push(format!("listener err {e:?}")),
            }
        });
        let finished = d.run_until_stalled(1_000_000);
        if !finished || !d.all_done() {
            return Err(format!("stalled: finished={finished} done={} out={:?}", d.all_done(), out.lock()));
        }
        let mut o = out.lock().clone();
        o.sort();
        Ok((format!("{o:?} bytes_ab={} bytes_ba={}", h_ab.stats().bytes_written, h_ba.stats().bytes_written), d.steps))
    })
}

fn simnet_run() -> Result<String, String> {
    use crate::env::{node::{Monitor, MonitorCmd}, simnet::{NodeCmd, World}};
    use litep2p::config::ConfigBuilder;
    let rt = driver::runtime(3);
    let _g = rt.enter();
    let mut w = World::new();
    let (m0, h0) = Monitor::new("/verif/monitor/1");
    let (m1, h1) = Monitor::new("/verif/monitor/1");
    let a = w.add_node(1, ConfigBuilder::new().with_user_protocol(m0))?;
    let b = w.add_node(2, ConfigBuilder::new().with_user_protocol(m1))?;
    let (pb, addr_b) = (w.nodes[b].peer, w.nodes[b].address.clone());
    w.nodes[a].cmd.send(NodeCmd::DialAddress(addr_b)).unwrap();
    if !w.run_to_quiescence(100_000) {
        return Err("step cap".into());
    }
    h0.cmd.send(MonitorCmd::OpenSubstream(pb)).unwrap();
    if !w.run_to_quiescence(100_000) {
        return Err("step cap".into());
    }
    let steps_open = w.driver.steps;
    // cut the link: both sides must see the connection closed
    w.cut_link(0);
    if !w.run_to_quiescence(100_000) {
        return Err("step cap".into());
    }
    Ok(format!(
        "steps={} (after open {steps_open}) tasks={} A.events={:?} B.events={:?} A.mon={:?} B.mon={:?} breaches={:?}",
        w.driver.steps,
        w.driver.tasks.len(),
        w.nodes[a].log.lock().len(),
        w.nodes[b].log.lock().len(),
        h0.log.lock(),
        h1.log.lock(),
        w.contract_breaches
    ))
}

fn simnet_debug() {
    use crate::env::{node::Monitor, simnet::{NodeCmd, World}};
    use litep2p::config::ConfigBuilder;
    let rt = driver::runtime(3);
    let _g = rt.enter();
    let mut w = World::new();
    let mk = |w: &mut World, seed| {
        let (m0, h0) = Monitor::new("/verif/x/1");
        let (m1, h1) = Monitor::new("/verif/y/1");
        let n = w.add_node(seed, ConfigBuilder::new().with_user_protocol(m0).with_user_protocol(m1).with_keep_alive_timeout(Duration::from_secs(4))).unwrap();
        (n, h0, h1)
    };
    let (a, ax, _ay) = mk(&mut w, 31);
    let (b, bx, _by) = mk(&mut w, 32);
    let (pb, addr_b) = (w.nodes[b].peer, w.nodes[b].address.clone());
    w.nodes[a].cmd.send(NodeCmd::AddKnown(pb, addr_b)).unwrap();
    w.run_to_quiescence(1000);
    w.nodes[a].cmd.send(NodeCmd::Dial(pb)).unwrap();
    for i in 0..200 {
        w.pump_net();
        let en = w.driver.enabled_fifo();
        if en.is_empty() { break; }
        let name = w.driver.name(en[0]).to_string();
        w.driver.step(en[0]);
        println!("step {i}: {name} done={} | A.app={} B.app={} A.x={:?} B.x={:?} calls A={:?} B={:?}", w.driver.is_done(en[0]), w.nodes[a].log.lock().len(), w.nodes[b].log.lock().len(), ax.log.lock().len(), bx.log.lock().len(), w.nodes[a].script.0.lock().calls.last(), w.nodes[b].script.0.lock().calls.last());
    }
}

pub fn run() -> i32 {
    if std::env::var_os("VERIF_DEBUG_SIMNET").is_some() {
        simnet_debug();
        return 0;
    }
    let a = simnet_run();
    let b = simnet_run();
    match (&a, &b) {
        (Ok(x), Ok(y)) if x == y => println!("selftest simnet: ok {x}"),
        _ => {
            println!("selftest simnet: FAILED\n  first:  {a:?}\n  second: {b:?}");
            return 2;
        }
    }
    for chunk in [usize::MAX, 1, 7] {
        let a = one_run(chunk);
        let b = one_run(chunk);
        match (&a, &b) {
            (Ok(x), Ok(y)) if x == y && x.0.contains("got=hello over noise") => println!("selftest chunk={chunk}: ok steps={} {}", x.1, x.0),
            _ => {
                println!("selftest chunk={chunk}: FAILED\n  first:  {a:?}\n  second: {b:?}");
                return 2;
            }
        }
    }
    0
}
