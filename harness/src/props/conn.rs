//! Connection-lifecycle scenarios shared by C07 (a terminated connection is reported closed to everyone exactly
//! once), C08 (well-formed per-peer event stream for protocols) and C09 (idle connections close after the keep-alive
//! timeout, busy ones are kept). E2 on SimNet: node L (under test) and node R, both real `Litep2p` nodes with two
//! monitor user protocols X and Y (keep-alive protocols: user protocols are registered with
//! `SubstreamKeepAlive::Yes`) and optionally ping (a non-keep-alive protocol that keeps opening substreams).

use crate::{
    env::{
        node::{Monitor, MonitorCmd, MonitorHandle, Seen},
        simnet::{NodeCmd, NodeLog, World},
    },
    mc::{
        e1::Viol,
        e2::{self, Scenario, E2},
    },
    report::Ctx,
};
use futures::StreamExt;
use litep2p::{config::ConfigBuilder, protocol::libp2p::ping, PeerId};
use serde::{Deserialize, Serialize};
use serde_json::Value;
use std::{collections::BTreeMap, time::Duration};

#[derive(Clone, Debug, Serialize, Deserialize, PartialEq, Eq)]
pub enum COp {
    /// L dials R
    Connect,
    /// R dials L (a second, overlapping connection if one exists)
    ConnectBack,
    OpenX,
    OpenY,
    /// remote side opens a substream of protocol X towards L
    RemoteOpenX,
    /// drop the k-th substream held by L's monitor X (releases its lifetime permit)
    DropSubX(usize),
    DropSubY(usize),
    /// half-close: shut down the write half of the k-th substream held by X (public `AsyncWrite::shutdown`) and keep
    /// holding it — the substream still exists, so the connection must stay
    HalfCloseX(usize),
    CutLink(usize),
    KillRemote,
    ForceCloseX,
    /// protocol Y on L returns from `run()`
    ExitY,
    /// protocol X on L returns from `run()` (which of the two exits matters: protocols are notified in hash-map
    /// order)
    ExitX,
    /// the application dials R again (probe: must be attempted once R counts as disconnected)
    DialAgain,
    /// let `n` ticks of virtual time pass
    Wait(u32),
    /// environment fault: L's new outbound substreams are slow to open (held back) / released again
    HoldOpens(bool),
    /// environment fault: the remote node stops making progress while its end of the link stays up (none of its tasks is
    /// scheduled) / runs again
    FreezeRemote(bool),
}

#[derive(Clone, Debug, Serialize, Deserialize)]
pub struct ConnScenario {
    pub program: Vec<COp>,
    /// keep-alive timeout in ticks (1 tick = 1 s)
    pub keep_alive: u32,
    pub with_ping: bool,
    /// idle ticks granted at the end
    pub tail_ticks: u32,
    pub filter: String,
    /// E4: run the same program on real `TcpTransport` nodes over loopback sockets
    #[serde(default)]
    pub real_tcp: bool,
}

pub struct St {
    l: usize,
    r: usize,
    peer_l: PeerId,
    peer_r: PeerId,
    x: MonitorHandle,
    y: MonitorHandle,
    rx: MonitorHandle,
    _ry: MonitorHandle,
    pc: usize,
    now: u32,
    wait: Option<u32>,
    /// virtual times (ticks) at which things were observed / done
    x_seen: usize,
    y_seen: usize,
    app_seen: usize,
    /// (tick, description) of keep-alive relevant activity initiated by the harness
    activity: Vec<(u32, String)>,
    established_at: Vec<u32>,
    closed_at: Vec<u32>,
    /// per-tick count of substreams held by X / Y on L
    held_history: Vec<(u32, usize)>,
    /// clock values at which virtual time stopped (a `Wait(n)` moves the clock by n at once: what happened in between is
    /// only observed at the next stop)
    stops: Vec<u32>,
    y_exited_at_step: Option<usize>,
    timeline: Vec<(u32, String)>,
    /// trace class before the end-of-run probes added their own events
    frozen_class: Option<String>,
    /// substreams temporarily owned by a half-close task (still held)
    in_flight_holds: std::sync::Arc<std::sync::atomic::AtomicUsize>,
    /// a ForceCloseX command was issued while protocol X knew of a connection to the peer
    force_close_hit_a_connection: bool,
    /// ("X"|"Y", outbound substream id) -> number of L's connection tasks that had ended when the request was accepted
    ended_at_request: BTreeMap<(&'static str, usize), usize>,
}

fn spawn_drain<S: futures::Stream + Unpin + Send + 'static>(w: &mut World, node: usize, name: &str, mut s: S)
where
    S::Item: Send,
{
    w.spawn_for(node, name, async move { while s.next().await.is_some() {} });
}

impl ConnScenario {
    fn builder(&self, w: &mut World, seed: u64, keep_alive: u32) -> (usize, MonitorHandle, MonitorHandle) {
        let (mx, hx) = Monitor::new("/verif/x/1");
        let (my, hy) = Monitor::new("/verif/y/1");
        let mut b = ConfigBuilder::new()
            .with_user_protocol(mx)
            .with_user_protocol(my)
            .with_keep_alive_timeout(Duration::from_secs(keep_alive as u64));
        let mut ping_events = None;
        if self.with_ping {
            let (cfg, ev) = ping::ConfigBuilder::new().with_ping_interval(Duration::from_secs(1)).build();
            b = b.with_libp2p_ping(cfg);
            ping_events = Some(ev);
        }
        let n = if self.real_tcp { w.add_tcp_node(seed, b).expect("tcp node") } else { w.add_node(seed, b).expect("node") };
        if let Some(ev) = ping_events {
            spawn_drain(w, n, "ping-events", ev);
        }
        (n, hx, hy)
    }

    fn is(&self, f: &str) -> bool {
        self.filter == f
    }
}

impl Scenario for ConnScenario {
    type State = St;

    fn name(&self) -> String {
        format!("conn[{}]", serde_json::to_string(self).unwrap())
    }

    fn config(&self) -> Value {
        serde_json::to_value(self).unwrap()
    }

    fn setup(&self, w: &mut World) -> St {
        // only the node under test (L) has a short keep-alive timeout: the remote's own idle mechanism must not be
        // what closes the connection
        let (l, x, y) = self.builder(w, 31, self.keep_alive);
        let (r, rx, ry) = self.builder(w, 32, 100_000);
        let (peer_l, peer_r) = (w.nodes[l].peer, w.nodes[r].peer);
        let (addr_l, addr_r) = (w.nodes[l].address.clone(), w.nodes[r].address.clone());
        w.nodes[l].cmd.send(NodeCmd::AddKnown(peer_r, addr_r)).unwrap();
        w.nodes[r].cmd.send(NodeCmd::AddKnown(peer_l, addr_l)).unwrap();
        w.run_to_quiescence(50_000);
        St {
            l,
            r,
            peer_l,
            peer_r,
            x,
            y,
            rx,
            _ry: ry,
            pc: 0,
            now: 0,
            wait: None,
            x_seen: 0,
            y_seen: 0,
            app_seen: 0,
            activity: Vec::new(),
            established_at: Vec::new(),
            closed_at: Vec::new(),
            held_history: Vec::new(),
            stops: Vec::new(),
            y_exited_at_step: None,
            timeline: Vec::new(),
            frozen_class: None,
            in_flight_holds: Default::default(),
            ended_at_request: BTreeMap::new(),
            force_close_hit_a_connection: false,
        }
    }

    fn lazy_count(&self, st: &St, _w: &World) -> usize {
        usize::from(st.pc < self.program.len())
    }

    fn lazy_apply(&self, st: &mut St, w: &mut World, _k: usize) {
        st.wait = None;
        let op = self.program[st.pc].clone();
        st.pc += 1;
        match op {
            COp::Connect => {
                let _ = w.nodes[st.l].cmd.send(NodeCmd::Dial(st.peer_r));
            }
            COp::ConnectBack => {
                let _ = w.nodes[st.r].cmd.send(NodeCmd::Dial(st.peer_l));
            }
            COp::OpenX => {
                st.activity.push((st.now, "open-x".into()));
                let _ = st.x.cmd.send(MonitorCmd::OpenSubstream(st.peer_r));
            }
            COp::OpenY => {
                st.activity.push((st.now, "open-y".into()));
                let _ = st.y.cmd.send(MonitorCmd::OpenSubstream(st.peer_r));
            }
            COp::RemoteOpenX => {
                st.activity.push((st.now, "remote-open-x".into()));
                let _ = st.rx.cmd.send(MonitorCmd::OpenSubstream(st.peer_l));
            }
            COp::DropSubX(k) => {
                if let Some(s) = st.x.substreams.lock().get_mut(k) {
                    if s.take().is_some() {
                        st.activity.push((st.now, "drop-x".into()));
                    }
                }
            }
            COp::DropSubY(k) => {
                if let Some(s) = st.y.substreams.lock().get_mut(k) {
                    if s.take().is_some() {
                        st.activity.push((st.now, "drop-y".into()));
                    }
                }
            }
            COp::HalfCloseX(k) => {
                let taken = st.x.substreams.lock().get_mut(k).and_then(|s| s.take());
                if let Some(mut sub) = taken {
                    let slots = st.x.substreams.clone();
                    let holds = st.in_flight_holds.clone();
                    holds.fetch_add(1, std::sync::atomic::Ordering::SeqCst);
                    w.spawn_for(st.l, "half-close", async move {
                        let _ = tokio::io::AsyncWriteExt::shutdown(&mut sub).await;
                        slots.lock()[k] = Some(sub);
                        holds.fetch_sub(1, std::sync::atomic::Ordering::SeqCst);
                    });
                }
            }
            COp::CutLink(k) => {
                if k < w.links.len() {
                    w.cut_link(k);
                }
            }
            COp::KillRemote => w.kill_node(st.r),
            COp::ForceCloseX => {
                let xl = st.x.log.lock();
                let est = xl.iter().filter(|e| matches!(e, Seen::Established { .. })).count();
                let closed = xl.iter().filter(|e| matches!(e, Seen::Closed { .. })).count();
                drop(xl);
                if est > closed {
                    st.force_close_hit_a_connection = true;
                }
                let _ = st.x.cmd.send(MonitorCmd::ForceClose(st.peer_r));
            }
            COp::ExitY => {
                let _ = st.y.cmd.send(MonitorCmd::Exit);
            }
            COp::ExitX => {
                let _ = st.x.cmd.send(MonitorCmd::Exit);
            }
            COp::DialAgain => {
                let _ = w.nodes[st.l].cmd.send(NodeCmd::Dial(st.peer_r));
            }
            COp::Wait(n) => st.wait = Some(n),
            COp::HoldOpens(hold) => w.nodes[st.l].script.set_hold_opens(hold),
            COp::FreezeRemote(freeze) => {
                if freeze {
                    for t in w.nodes[st.r].tasks.clone() {
                        w.driver.frozen.insert(t);
                    }
                } else {
                    w.driver.frozen.clear();
                }
            }
        }
    }

    fn lazy_wait(&self, st: &St) -> Option<Duration> {
        st.wait.map(|n| Duration::from_secs(n as u64))
    }

    fn on_tick(&self, st: &mut St, by: Duration) {
        st.now += by.as_secs() as u32;
        st.stops.push(st.now);
    }

    fn time(&self) -> (u32, Duration) {
        (self.tail_ticks, Duration::from_secs(1))
    }

    fn real_io(&self) -> bool {
        self.real_tcp
    }

    fn monitor(&self, st: &mut St, w: &World) -> Vec<Viol> {
        // timestamp newly observed events
        let ended_now = if self.real_tcp { 0 } else { w.nodes[st.l].script.0.lock().ended.len() };
        let xl = st.x.log.lock();
        for e in xl[st.x_seen..].iter() {
            st.timeline.push((st.now, format!("X:{}", short(e))));
            if let Seen::OpenSubstreamResult { result: Ok(id), .. } = e {
                st.ended_at_request.insert(("X", *id), ended_now);
            }
            match e {
                Seen::Established { .. } => st.established_at.push(st.now),
                Seen::Closed { .. } => st.closed_at.push(st.now),
                _ => {}
            }
        }
        st.x_seen = xl.len();
        drop(xl);
        let yl = st.y.log.lock();
        for e in yl[st.y_seen..].iter() {
            st.timeline.push((st.now, format!("Y:{}", short(e))));
            if let Seen::OpenSubstreamResult { result: Ok(id), .. } = e {
                st.ended_at_request.insert(("Y", *id), ended_now);
            }
        }
        st.y_seen = yl.len();
        drop(yl);
        let al = w.nodes[st.l].log.lock();
        for e in al[st.app_seen..].iter() {
            st.timeline.push((st.now, format!("APP:{}", short_app(e))));
        }
        st.app_seen = al.len();
        drop(al);
        // "is being opened" counts like "exists" (C09); only tracked in programs that hold opens back, where the
        // period is long enough to matter
        let pending_opens = if self.program.iter().any(|o| matches!(o, COp::HoldOpens(_))) {
            let count = |log: &[Seen]| {
                let asked = log.iter().filter(|e| matches!(e, Seen::OpenSubstreamResult { result: Ok(_), .. })).count();
                let answered = log
                    .iter()
                    .filter(|e| matches!(e, Seen::SubstreamOpened { outbound: Some(_), .. } | Seen::SubstreamOpenFailure { .. }))
                    .count();
                asked.saturating_sub(answered)
            };
            count(&st.x.log.lock()) + count(&st.y.log.lock())
        } else {
            0
        };
        let held = st.x.substreams.lock().iter().filter(|s| s.is_some()).count()
            + st.y.substreams.lock().iter().filter(|s| s.is_some()).count()
            + st.in_flight_holds.load(std::sync::atomic::Ordering::SeqCst)
            + pending_opens;
        if st.held_history.last().map(|(_, h)| *h) != Some(held) {
            st.held_history.push((st.now, held));
        }
        Vec::new()
    }

    fn finish(&self, st: &mut St, w: &mut World, quiescent: bool) -> Vec<Viol> {
        let mut v = Vec::new();
        if !quiescent {
            v.push(Viol::new(format!("{}/no-quiescence", self.filter), "step cap hit"));
            return v;
        }
        self.monitor(st, w);
        st.frozen_class = Some(self.trace_class(st, w));
        let x = st.x.log.lock().clone();
        let y = st.y.log.lock().clone();
        let app: Vec<NodeLog> = w.nodes[st.l].log.lock().clone();
        let y_only_exited = y.iter().any(|e| matches!(e, Seen::Exited));
        let x_exited = x.iter().any(|e| matches!(e, Seen::Exited));
        // "some local protocol has shut down"
        let y_exited = y_only_exited || x_exited;

        // ---------------- C08: per-protocol, per-peer event grammar ----------------
        if self.is("c08") {
            let mut all_ids: BTreeMap<usize, &'static str> = BTreeMap::new();
            for (name, log) in [("X", &x), ("Y", &y)] {
                let mut connected = false;
                let mut asked: BTreeMap<usize, (usize, bool)> = BTreeMap::new(); // id -> (answers, closed after request)
                for e in log.iter() {
                    match e {
                        Seen::Established { .. } => {
                            if connected {
                                v.push(Viol::new("c08/established-twice", format!("protocol {name}: ConnectionEstablished while already connected; log {:?}", shorts(log))));
                            }
                            connected = true;
                        }
                        Seen::Closed { .. } => {
                            if !connected {
                                v.push(Viol::new("c08/closed-without-established", format!("protocol {name}: ConnectionClosed while not connected; log {:?}", shorts(log))));
                            }
                            connected = false;
                            for a in asked.values_mut() {
                                if a.0 == 0 {
                                    a.1 = true;
                                }
                            }
                        }
                        Seen::SubstreamOpened { outbound, .. } => {
                            if !connected {
                                v.push(Viol::new("c08/substream-event-while-disconnected", format!("protocol {name}: SubstreamOpened for a peer that is not connected; log {:?}", shorts(log))));
                            }
                            if let Some(id) = outbound {
                                match asked.get_mut(id) {
                                    Some(a) => a.0 += 1,
                                    None => v.push(Viol::new("c08/answer-for-unknown-substream", format!("protocol {name}: SubstreamOpened for outbound id {id} never requested"))),
                                }
                            }
                        }
                        Seen::SubstreamOpenFailure { substream } => {
                            match asked.get_mut(substream) {
                                Some(a) => a.0 += 1,
                                None => v.push(Viol::new("c08/answer-for-unknown-substream", format!("protocol {name}: SubstreamOpenFailure for id {substream} never requested"))),
                            }
                        }
                        Seen::OpenSubstreamResult { result, .. } => match result {
                            Ok(id) => {
                                if let Some(other) = all_ids.insert(*id, name) {
                                    v.push(Viol::new("c08/substream-id-reused", format!("outbound substream id {id} handed out twice ({other} and {name})")));
                                }
                                asked.insert(*id, (0, false));
                            }
                            Err(err) => {
                                if connected {
                                    // refused although the protocol was told the peer is connected: only a violation if
                                    // no ConnectionClosed follows (the connection really was alive)
                                    let later_closed = log.iter().skip_while(|s| !std::ptr::eq(*s, e)).any(|s| matches!(s, Seen::Closed { .. }));
                                    if !later_closed {
                                        v.push(Viol::new("c08/open-refused-while-connected", format!("protocol {name}: open_substream failed with {err} although the peer is connected and stays connected; log {:?}", shorts(log))));
                                    }
                                }
                            }
                        },
                        _ => {}
                    }
                }
                if (name == "Y" && y_only_exited) || (name == "X" && x_exited) {
                    continue;
                }
                for (id, (answers, closed_after)) in asked {
                    if answers > 1 {
                        v.push(Viol::new("c08/substream-answered-twice", format!("protocol {name}: outbound substream {id} answered {answers} times")));
                    }
                    // "exactly once unless its connection terminates first": the protocol is only told when the LAST
                    // connection to the peer ends. Ground truth from SimNet: if one of L's connection tasks ended after
                    // the request was accepted, the request may have been on that connection (a primary that closes
                    // while a secondary keeps the peer connected takes its pending opens with it, silently)
                    let ended_final = if self.real_tcp { usize::MAX } else { w.nodes[st.l].script.0.lock().ended.len() };
                    let key = (if name == "X" { "X" } else { "Y" }, id);
                    let a_connection_ended_since = st.ended_at_request.get(&key).map(|n| ended_final > *n).unwrap_or(false);
                    if answers == 0 && !closed_after && a_connection_ended_since {
                        UNANSWERED_ON_SILENTLY_CLOSED_PRIMARY.fetch_add(1, std::sync::atomic::Ordering::Relaxed);
                    }
                    if answers == 0 && !closed_after && !a_connection_ended_since {
                        v.push(Viol::new("c08/substream-never-answered", format!("protocol {name}: outbound substream {id} got neither SubstreamOpened nor SubstreamOpenFailure and the connection did not close; log {:?}", shorts(log))));
                    }
                }
            }
        }

        // ---------------- C07: closed exactly once to everyone ----------------
        if self.is("c07") {
            let all_ended = if self.real_tcp {
                // no carrier handles on real sockets: the program tells whether every connection must have ended
                !w.nodes[st.r].alive
                    // a force close issued (early, by a deviation) before the protocol knew the connection does nothing
                    || st.force_close_hit_a_connection
                    || (self.keep_alive <= 8 && st.now >= st.established_at.last().copied().unwrap_or(0) + self.keep_alive + 2 && st.x.substreams.lock().iter().all(|s| s.is_none()) && st.y.substreams.lock().iter().all(|s| s.is_none()))
            } else {
                w.links.iter().all(|l| l.a_to_b.writer_closed() || l.b_to_a.writer_closed()) || !w.nodes[st.r].alive
            };
            let app_est = app.iter().filter(|e| matches!(e, NodeLog::Event(s) if s.starts_with("ConnectionEstablished"))).count();
            let app_closed = app.iter().filter(|e| matches!(e, NodeLog::Event(s) if s.starts_with("ConnectionClosed"))).count();
            for (name, log, running) in [("X", &x, !x_exited), ("Y", &y, !y_only_exited)] {
                let est = log.iter().filter(|e| matches!(e, Seen::Established { .. })).count();
                let closed = log.iter().filter(|e| matches!(e, Seen::Closed { .. })).count();
                if closed > est {
                    v.push(Viol::new("c07/closed-more-often-than-established", format!("protocol {name}: {closed} closed vs {est} established; log {:?}", shorts(log))));
                }
                if running && all_ended && est > closed {
                    let cause = if y_exited { "after-protocol-exit" } else { "all-protocols-running" };
                    // was the connection the protocol is stuck with ever announced to the application, or was it
                    // rolled back while it was being accepted?
                    let kind = if est > app_est { "connection-rolled-back-during-accept" } else { "connection-was-established" };
                    v.push(Viol::new(
                        format!("c07/protocol-not-told-closed/{cause}/{kind}"),
                        format!("protocol {name} saw the connection established but never closed although every connection has ended; log {:?}; app {:?}", shorts(log), app.iter().map(short_app).collect::<Vec<_>>()),
                    ));
                }
            }
            if app_closed > app_est {
                v.push(Viol::new("c07/app-closed-before-established", format!("application saw {app_closed} ConnectionClosed but {app_est} ConnectionEstablished")));
            }
            if all_ended && app_est > 0 {
                // the application sees closed exactly when the LAST connection is gone: one closed per period
                let mut connected = 0i32;
                let mut bad = false;
                for e in &app {
                    if let NodeLog::Event(s) = e {
                        if s.starts_with("ConnectionEstablished") {
                            connected += 1;
                        }
                        if s.starts_with("ConnectionClosed") {
                            if connected <= 0 {
                                bad = true;
                            }
                            connected = 0;
                        }
                    }
                }
                if bad {
                    v.push(Viol::new("c07/app-closed-without-connection", format!("application event order: {:?}", app.iter().map(short_app).collect::<Vec<_>>())));
                }
                if connected > 0 {
                    let cause = if y_exited { "after-protocol-exit" } else { "all-protocols-running" };
                    v.push(Viol::new(
                        format!("c07/app-not-told-closed/{cause}"),
                        format!("every connection has ended but the application was not told; app {:?}", app.iter().map(short_app).collect::<Vec<_>>()),
                    ));
                }
            }
            // a new connection after Y exited must still reach X (and the application): probe
            if y_exited && !(x_exited && y_only_exited) && w.nodes[st.r].alive && !self.real_tcp {
                let (x, survivor) = if x_exited { (y.clone(), st.y.clone()) } else { (x.clone(), st.x.clone()) };
                let x_est = x.iter().filter(|e| matches!(e, Seen::Established { .. })).count();
                let x_closed = x.iter().filter(|e| matches!(e, Seen::Closed { .. })).count();
                if x_est == x_closed && all_ended {
                    let _ = w.nodes[st.l].cmd.send(NodeCmd::Dial(st.peer_r));
                    w.run_to_quiescence(50_000);
                    let x2 = survivor.log.lock().clone();
                    let est2 = x2.iter().filter(|e| matches!(e, Seen::Established { .. })).count();
                    if est2 == x_est {
                        v.push(Viol::new(
                            "c07/new-connection-not-reported-after-protocol-exit",
                            format!("after protocol Y shut down, the application dialed R again but protocol X never saw a new connection; X log {:?}; app {:?}", shorts(&x2), w.nodes[st.l].log.lock().iter().map(short_app).collect::<Vec<_>>()),
                        ));
                    }
                }
            }
            // after everything ended the peer must count as disconnected: a dial is attempted
            if all_ended && w.nodes[st.r].alive && !y_exited && !self.real_tcp {
                let before = app.iter().filter(|e| matches!(e, NodeLog::Event(s) if s.starts_with("ConnectionEstablished"))).count();
                let _ = w.nodes[st.l].cmd.send(NodeCmd::Dial(st.peer_r));
                w.run_to_quiescence(50_000);
                let app2: Vec<NodeLog> = w.nodes[st.l].log.lock().clone();
                let res = app2.iter().rev().find_map(|e| if let NodeLog::DialResult(_, r) = e { Some(r.clone()) } else { None });
                let after = app2.iter().filter(|e| matches!(e, NodeLog::Event(s) if s.starts_with("ConnectionEstablished"))).count();
                match res {
                    Some(Ok(())) if after > before => {}
                    Some(Ok(())) => v.push(Viol::new("c07/redial-not-attempted", format!("dial after the connection ended returned Ok but no connection was established; app {:?}", app2.iter().map(short_app).collect::<Vec<_>>()))),
                    Some(Err(e)) => v.push(Viol::new("c07/peer-not-disconnected-after-close", format!("dial after every connection ended failed with {e}"))),
                    None => {}
                }
            }
        }

        // ---------------- C09: idle close timing ----------------
        if self.is("c09") {
            let t = self.keep_alive;
            if let Some(est) = st.established_at.first().copied() {
                // keep-alive activity times: establishment + harness-initiated opens/drops of X/Y substreams
                let mut last_activity = est;
                for (at, what) in &st.activity {
                    if *at >= est && (what.starts_with("open-") || what.starts_with("remote-open-") || what.starts_with("drop-")) {
                        last_activity = last_activity.max(*at);
                    }
                }
                // an open command only counts as activity if `open_substream` accepted it (an early-issued command can
                // reach a protocol that has not yet been told about the connection: Err, nothing happens)
                let results = |log: &[Seen]| -> Vec<bool> {
                    log.iter().filter_map(|e| if let Seen::OpenSubstreamResult { result, .. } = e { Some(result.is_ok()) } else { None }).collect()
                };
                let (res_x, res_y, res_rx) = (results(&st.x.log.lock()), results(&st.y.log.lock()), results(&st.rx.log.lock()));
                let inbound_at_l = st.x.log.lock().iter().filter(|e| matches!(e, Seen::SubstreamOpened { outbound: None, .. })).count();
                let (mut ix, mut iy, mut irx) = (0usize, 0usize, 0usize);
                let mut last_open = est;
                for (at, what) in &st.activity {
                    let ok = match what.as_str() {
                        "open-x" => { ix += 1; res_x.get(ix - 1).copied().unwrap_or(false) }
                        "open-y" => { iy += 1; res_y.get(iy - 1).copied().unwrap_or(false) }
                        // the remote's request also has to have reached L (its side may accept the request while the
                        // connection is already closing here): the k-th accepted one shows as L's k-th inbound substream
                        "remote-open-x" => {
                            irx += 1;
                            let accepted = res_rx.get(irx - 1).copied().unwrap_or(false);
                            let accepted_so_far = res_rx.iter().take(irx).filter(|ok| **ok).count();
                            accepted && inbound_at_l >= accepted_so_far
                        }
                        _ => false,
                    };
                    if ok && *at >= est {
                        last_open = last_open.max(*at);
                    }
                }
                let held_at_end = st.held_history.last().map(|(_, h)| *h).unwrap_or(0);
                let closed = st.closed_at.first().copied();
                let explicit_end = self.program.iter().any(|o| matches!(o, COp::CutLink(_) | COp::KillRemote | COp::ForceCloseX));
                if !explicit_end {
                    match closed {
                        Some(c) => {
                            if c < last_open + t {
                                v.push(Viol::new(
                                    "c09/closed-before-timeout",
                                    format!("connection established at t={est}, last keep-alive open activity at t={last_open}, timeout {t}: closed already at t={c}; timeline {:?}; remote app log {:?}; remote X log {:?}", st.timeline, w.nodes[st.r].log.lock().iter().map(short_app).collect::<Vec<_>>(), shorts(&st.rx.log.lock())),
                                ));
                            }
                            // never while a keep-alive substream is held
                            let held_then = st.held_history.iter().rev().find(|(at, _)| *at <= c).map(|(_, h)| *h).unwrap_or(0);
                            let held_before = st.held_history.iter().rev().find(|(at, _)| *at < c).map(|(_, h)| *h).unwrap_or(0);
                            // ... and not (much) later than the timeout after the last activity: nothing was held since
                            let held_at = |time: u32| st.held_history.iter().rev().find(|(at, _)| *at <= time).map(|(_, h)| *h).unwrap_or(0);
                            let idle_since = held_at(last_activity) == 0 && st.held_history.iter().all(|(at, h)| *at <= last_activity || *h == 0);
                            // the first moment at or after the deadline at which the clock stopped and events could be seen
                            let seen_by = st.stops.iter().copied().find(|s| *s >= last_activity + t).unwrap_or(u32::MAX - 1);
                            if !self.with_ping && !self.real_tcp && idle_since && c > seen_by + 1 {
                                v.push(Viol::new(
                                    "c09/closed-late",
                                    format!("connection established at t={est}, last keep-alive activity at t={last_activity}, nothing held since, timeout {t}: closed only at t={c}; timeline {:?}", st.timeline),
                                ));
                            }
                            if held_then > 0 && held_before > 0 {
                                v.push(Viol::new(
                                    "c09/closed-while-substream-held",
                                    format!("connection closed at t={c} while {held_then} keep-alive substream(s) were held; timeline {:?}", st.timeline),
                                ));
                            }
                        }
                        None => {
                            if held_at_end == 0 && st.now >= last_activity + t + 2 {
                                v.push(Viol::new(
                                    if self.with_ping { "c09/not-closed-after-timeout/with-ping" } else { "c09/not-closed-after-timeout" },
                                    format!("connection established at t={est}, last keep-alive activity at t={last_activity}, timeout {t}, no keep-alive substream held: still open at t={}; timeline {:?}", st.now, st.timeline),
                                ));
                            }
                        }
                    }
                }
            }
        }
        v
    }

    fn trace_class(&self, st: &St, w: &World) -> String {
        if let Some(c) = &st.frozen_class {
            return c.clone();
        }
        format!(
            "X{:?}|Y{:?}|A{:?}|t{:?}{:?}",
            shorts(&st.x.log.lock()),
            shorts(&st.y.log.lock()),
            w.nodes[st.l].log.lock().iter().map(short_app).collect::<Vec<_>>(),
            st.established_at,
            st.closed_at
        )
    }
}

fn short(e: &Seen) -> String {
    match e {
        Seen::Established { connection, dialer, .. } => format!("E{connection}{}", if *dialer { "d" } else { "l" }),
        Seen::Closed { .. } => "C".into(),
        Seen::DialFailure { .. } => "DF".into(),
        Seen::SubstreamOpened { outbound, .. } => format!("S{}", outbound.map(|i| i.to_string()).unwrap_or_else(|| "in".into())),
        Seen::SubstreamOpenFailure { substream } => format!("SF{substream}"),
        Seen::OpenSubstreamResult { result, .. } => match result {
            Ok(i) => format!("O{i}"),
            Err(_) => "O!".into(),
        },
        Seen::DialResult { result, .. } => format!("D{}", if result.is_ok() { "" } else { "!" }),
        Seen::Exited => "X".into(),
    }
}

fn shorts(l: &[Seen]) -> Vec<String> {
    l.iter().map(short).collect()
}

fn short_app(e: &NodeLog) -> String {
    match e {
        NodeLog::Event(s) => s.split([' ', '{']).next().unwrap_or("").to_string(),
        NodeLog::DialResult(_, r) => format!("dial:{}", r.as_ref().map(|_| "ok".to_string()).unwrap_or_else(|e| e.clone())),
    }
}

/// observation (C08): open requests left unanswered because their (primary) connection ended while another connection
/// kept the peer connected — permitted by the statement, invisible to the protocol
pub static UNANSWERED_ON_SILENTLY_CLOSED_PRIMARY: std::sync::atomic::AtomicU64 = std::sync::atomic::AtomicU64::new(0);

fn sc(filter: &str, keep_alive: u32, with_ping: bool, tail: u32, program: Vec<COp>) -> ConnScenario {
    ConnScenario { program, keep_alive, with_ping, tail_ticks: tail, filter: filter.into(), real_tcp: false }
}

pub fn scenarios(filter: &str, thorough: bool) -> Vec<ConnScenario> {
    use COp::*;
    let mut v = Vec::new();
    match filter {
        "c08" => {
            let ka = 60;
            for prog in [
                vec![Connect, OpenX, CutLink(0)],
                vec![Connect, OpenX, OpenY, OpenX, CutLink(0)],
                vec![Connect, ConnectBack, OpenX, CutLink(0), OpenX, CutLink(1)],
                vec![Connect, ConnectBack, OpenX, CutLink(1), OpenY, CutLink(0)],
                vec![Connect, OpenX, KillRemote],
                vec![Connect, CutLink(0), Connect, OpenX, CutLink(1)],
                vec![Connect, OpenX, ForceCloseX, OpenX],
                // a local force close of a peer that holds two connections: both end, in either order
                vec![Connect, ConnectBack, ForceCloseX],
                vec![Connect, ConnectBack, OpenX, ForceCloseX, RemoteOpenX],
                vec![ConnectBack, RemoteOpenX, OpenX, CutLink(0)],
                vec![Connect, OpenX, OpenX, OpenX, KillRemote],
            ] {
                v.push(sc("c08", ka, false, 8, prog));
            }
            // keep-alive downgrade while substream opens are pending
            v.push(sc("c08", 2, false, 8, vec![Connect, Wait(1), OpenX, Wait(2), OpenX, Wait(3), OpenX]));
            v.push(sc("c08", 2, false, 8, vec![Connect, ConnectBack, Wait(3), OpenX]));
            // the secondary connection idles out (downgraded, then closed) while the primary is kept busy; then the
            // primary ends; then the peer reconnects and must be usable again
            v.push(sc("c08", 2, false, 8, vec![Connect, ConnectBack, OpenX, Wait(4), KillRemote]));
            v.push(sc("c08", 2, false, 8, vec![Connect, ConnectBack, OpenX, Wait(4), CutLink(0), Connect, OpenX]));
            v.push(sc("c08", 2, false, 8, vec![Connect, ConnectBack, OpenX, Wait(4), CutLink(1), CutLink(0), ConnectBack, OpenX]));
            // substream opens that are slow: answered once by a timeout failure (5 s), by the late success, or cut off by
            // the end of the connection
            v.push(sc("c08", ka, false, 10, vec![Connect, HoldOpens(true), OpenX, OpenY, Wait(6), HoldOpens(false)]));
            v.push(sc("c08", ka, false, 8, vec![Connect, HoldOpens(true), OpenX, Wait(2), HoldOpens(false), OpenX]));
            v.push(sc("c08", ka, false, 8, vec![Connect, HoldOpens(true), OpenX, OpenX, CutLink(0), HoldOpens(false)]));
            v.push(sc("c08", 2, false, 10, vec![Connect, HoldOpens(true), OpenX, Wait(3), HoldOpens(false)]));
            if thorough {
                v.push(sc("c08", ka, false, 8, vec![Connect, ConnectBack, OpenX, OpenY, CutLink(0), OpenX, OpenY, CutLink(1), Connect, OpenX]));
            }
        }
        "c07" => {
            let ka = 60;
            for prog in [
                vec![Connect, CutLink(0)],
                vec![Connect, OpenX, CutLink(0)],
                vec![Connect, KillRemote],
                vec![Connect, OpenX, OpenY, KillRemote],
                vec![Connect, ForceCloseX],
                vec![Connect, ConnectBack, ForceCloseX],
                vec![Connect, ConnectBack, CutLink(0), CutLink(1)],
                vec![Connect, ConnectBack, CutLink(1), CutLink(0)],
                vec![Connect, CutLink(0), Connect, CutLink(1)],
                vec![Connect, RemoteOpenX, CutLink(0)],
                // one local protocol shuts down
                vec![Connect, ExitY, CutLink(0)],
                vec![Connect, ExitY, RemoteOpenX, CutLink(0)],
                vec![ExitY, Connect, OpenX, CutLink(0)],
                vec![Connect, CutLink(0), ExitY, Connect, OpenX],
                vec![Connect, ExitX, CutLink(0)],
                vec![Connect, ExitX, RemoteOpenX, CutLink(0)],
                vec![Connect, ExitX, KillRemote],
                // the remote keeps opening substreams of the protocol that has shut down
                vec![Connect, ExitX, RemoteOpenX, RemoteOpenX, CutLink(0)],
                vec![Connect, ExitX, RemoteOpenX, RemoteOpenX, RemoteOpenX, KillRemote],
            ] {
                v.push(sc("c07", ka, false, 8, prog));
            }
            // idle expiry as the termination cause
            v.push(sc("c07", 2, false, 8, vec![Connect, Wait(4)]));
            v.push(sc("c07", 2, false, 8, vec![Connect, OpenX, DropSubX(0), Wait(4)]));
            // overlapping connections where the idle secondary goes first, then the busy primary
            v.push(sc("c07", 2, false, 8, vec![Connect, ConnectBack, OpenX, Wait(4), KillRemote]));
            v.push(sc("c07", 2, false, 8, vec![Connect, ConnectBack, OpenX, Wait(4), CutLink(0)]));
            // two overlapping connections that both idle out (whichever goes first)
            v.push(sc("c07", 2, false, 8, vec![Connect, ConnectBack, Wait(4)]));
            v.push(sc("c07", 2, false, 10, vec![Connect, ConnectBack, OpenX, DropSubX(0), Wait(5)]));
            // idle expiry racing with inbound substreams of a non-keep-alive protocol (ping opens one per second)
            v.push(sc("c07", 4, true, 12, vec![Connect, Wait(5)]));
            v.push(sc("c07", 4, true, 12, vec![Connect, Wait(3), Wait(2)]));
            // the connection ends while substream opens are in flight
            v.push(sc("c07", ka, false, 8, vec![Connect, HoldOpens(true), OpenX, OpenY, CutLink(0), HoldOpens(false)]));
            v.push(sc("c07", ka, false, 8, vec![Connect, HoldOpens(true), OpenX, ExitX, HoldOpens(false), CutLink(0)]));
        }
        _ => {
            // c09: T = 4 ticks
            let t = 4;
            let tail = 3 * t;
            for ping in [false, true] {
                v.push(sc("c09", t, ping, tail, vec![Connect]));
                v.push(sc("c09", t, ping, tail, vec![Connect, Wait(3), OpenX, Wait(1), DropSubX(0)]));
                v.push(sc("c09", t, ping, tail, vec![Connect, Wait(1), OpenX, Wait(7), DropSubX(0)]));
                v.push(sc("c09", t, ping, tail, vec![Connect, OpenX, Wait(9)]));
                v.push(sc("c09", t, ping, tail, vec![Connect, Wait(2), OpenY, DropSubY(0), Wait(3), OpenX, DropSubX(0)]));
                v.push(sc("c09", t, ping, tail, vec![Connect, Wait(5)]));
                // activity inside a running keep-alive window, idle afterwards: the deadline moves to activity + T
                v.push(sc("c09", t, ping, tail, vec![Connect, Wait(1), OpenX, DropSubX(0)]));
                v.push(sc("c09", t, ping, tail, vec![Connect, Wait(1), OpenX, DropSubX(0), Wait(2), OpenY, DropSubY(0)]));
                // a half-closed substream is still a substream
                v.push(sc("c09", t, ping, tail, vec![Connect, OpenX, Wait(1), HalfCloseX(0), Wait(8)]));
                v.push(sc("c09", t, ping, tail, vec![Connect, Wait(2), RemoteOpenX]));
            }
            // the remote stalls for longer than a ping may take (20 s): the ping protocol gives up on its substream and opens
            // a new one on a connection it no longer holds (only the held X substream keeps it open); once that substream
            // is dropped the connection must idle out although ping keeps using it
            v.push(sc("c09", t, true, tail, vec![Connect, OpenX, Wait(5), FreezeRemote(true), Wait(22), FreezeRemote(false), Wait(2), DropSubX(0)]));
            // secondary connection role
            v.push(sc("c09", t, false, tail, vec![Connect, ConnectBack]));
            v.push(sc("c09", t, false, tail, vec![Connect, ConnectBack, Wait(2), OpenX, DropSubX(0)]));
            v.push(sc("c09", 8, false, 24, vec![Connect, Wait(6), OpenX, Wait(4), DropSubX(0)]));
            // a connection that outlived its timeout only because of a long-lived substream (the protocol's handle is
            // downgraded), then inbound keep-alive activity, then the long-lived substream goes: T counts from the
            // inbound activity
            v.push(sc("c09", t, false, tail, vec![Connect, OpenX, Wait(5), RemoteOpenX, DropSubX(1), Wait(1), DropSubX(0)]));
            v.push(sc("c09", t, false, tail, vec![Connect, OpenX, Wait(5), OpenY, DropSubY(0), Wait(1), DropSubX(0)]));
            // "or is being opened": a substream whose opening is slow keeps the connection past the idle timeout; it
            // either opens late (released at t=6 > T) or fails by the 5 s open timeout, after which the connection goes
            v.push(sc("c09", t, false, tail, vec![Connect, Wait(3), HoldOpens(true), OpenX, Wait(3), HoldOpens(false), Wait(2), DropSubX(0)]));
            v.push(sc("c09", t, false, 16, vec![Connect, Wait(3), HoldOpens(true), OpenX, Wait(7), HoldOpens(false)]));
            v.push(sc("c09", 2, false, 12, vec![Connect, HoldOpens(true), OpenY, Wait(4), HoldOpens(false), Wait(1), DropSubY(0)]));
            if thorough {
                for a in 0..=4u32 {
                    for b in 0..=4u32 {
                        v.push(sc("c09", t, false, tail, vec![Connect, Wait(a), OpenX, Wait(b), DropSubX(0)]));
                    }
                }
            }
        }
    }
    v
}

/// programs replayed on real TCP nodes (no carrier-level link cut there: terminations are remote crash, force close
/// and idle expiry)
pub fn e4_scenarios(filter: &str) -> Vec<ConnScenario> {
    use COp::*;
    let mut v = Vec::new();
    if filter == "c07" {
        for prog in [
            vec![Connect, KillRemote],
            vec![Connect, OpenX, KillRemote],
            vec![Connect, OpenX, OpenY, RemoteOpenX, KillRemote],
            vec![Connect, ForceCloseX],
            vec![Connect, OpenX, ForceCloseX],
        ] {
            v.push(sc("c07", 60, false, 4, prog));
        }
        v.push(sc("c07", 2, false, 8, vec![Connect, Wait(4)]));
        v.push(sc("c07", 2, false, 8, vec![Connect, OpenX, DropSubX(0), Wait(4)]));
        v.push(sc("c07", 4, true, 12, vec![Connect, Wait(5)]));
    } else {
        let t = 4;
        v.push(sc("c09", t, false, 3 * t, vec![Connect]));
        v.push(sc("c09", t, false, 3 * t, vec![Connect, Wait(3), OpenX, Wait(1), DropSubX(0)]));
        v.push(sc("c09", t, false, 3 * t, vec![Connect, Wait(1), OpenX, Wait(7), DropSubX(0)]));
        v.push(sc("c09", t, false, 3 * t, vec![Connect, OpenX, Wait(9)]));
        v.push(sc("c09", t, true, 3 * t, vec![Connect]));
        v.push(sc("c09", t, false, 3 * t, vec![Connect, Wait(2), RemoteOpenX]));
    }
    v
}

/// C08 on real TCP nodes (E4): the remote stops making progress while its socket stays up (its tasks are frozen), the
/// local protocol asks for 300 substreams. yamux lets 256 streams be opened without acknowledgement and blocks the
/// rest inside `open_stream()`. Every accepted request must still be answered exactly once (here: by the 5 s open
/// timeout) — this exercises the timeout around the *whole* open in `transport/tcp/connection.rs`.
fn frozen_remote_open_backlog_tcp(ctx: &mut Ctx) {
    use crate::env::node::MonitorCmd;
    let result = std::thread::spawn(|| -> Result<(usize, usize, usize), Viol> {
        let rt = crate::env::driver::runtime_io(6);
        rt.block_on(async {
            let (_park_tx, park_rx) = std::sync::mpsc::channel::<()>();
            let _parked = tokio::task::spawn_blocking(move || {
                let _ = park_rx.recv();
            });
            let mut scn = sc("c08", 100_000, false, 0, vec![]);
            scn.real_tcp = true;
            let mut w = World::new();
            let st = scn.setup(&mut w);
            async fn settle(w: &mut World) {
                loop {
                    w.run_to_quiescence(1_000_000);
                    if !e2::settle_io(w).await {
                        break;
                    }
                }
            }
            settle(&mut w).await;
            let _ = w.nodes[st.l].cmd.send(NodeCmd::Dial(st.peer_r));
            settle(&mut w).await;
            let _ = st.x.cmd.send(MonitorCmd::OpenSubstream(st.peer_r));
            settle(&mut w).await;
            let opened = |st: &St| st.x.log.lock().iter().filter(|e| matches!(e, Seen::SubstreamOpened { outbound: Some(_), .. })).count();
            if opened(&st) != 1 {
                return Err(Viol::new("machinery/backlog-setup", format!("the first substream did not open over TCP; X log {:?}", shorts(&st.x.log.lock()))));
            }
            // the remote stops: none of its tasks is scheduled any more, the kernel keeps its socket open
            for t in w.nodes[st.r].tasks.clone() {
                w.driver.frozen.insert(t);
            }
            // in batches, so that the connection task drains its command channel (capacity 256) in between
            for _ in 0..3 {
                for _ in 0..100 {
                    let _ = st.x.cmd.send(MonitorCmd::OpenSubstream(st.peer_r));
                }
                settle(&mut w).await;
            }
            for _ in 0..12 {
                tokio::time::advance(Duration::from_secs(1)).await;
                settle(&mut w).await;
            }
            let log = st.x.log.lock().clone();
            let asked: Vec<usize> = log.iter().filter_map(|e| if let Seen::OpenSubstreamResult { result: Ok(id), .. } = e { Some(*id) } else { None }).collect();
            let mut answers: BTreeMap<usize, usize> = BTreeMap::new();
            for e in &log {
                match e {
                    Seen::SubstreamOpened { outbound: Some(id), .. } => *answers.entry(*id).or_default() += 1,
                    Seen::SubstreamOpenFailure { substream } => *answers.entry(*substream).or_default() += 1,
                    _ => {}
                }
            }
            let closed = log.iter().any(|e| matches!(e, Seen::Closed { .. }));
            let unanswered: Vec<usize> = asked.iter().copied().filter(|id| !answers.contains_key(id)).collect();
            let twice: Vec<usize> = answers.iter().filter(|(_, n)| **n > 1).map(|(id, _)| *id).collect();
            if !twice.is_empty() {
                return Err(Viol::new("c08/substream-answered-twice/tcp-backlog", format!("outbound substreams answered more than once: {twice:?}")));
            }
            if !unanswered.is_empty() && !closed {
                return Err(Viol::new(
                    "c08/substream-never-answered/tcp-backlog",
                    format!(
                        "remote frozen with its socket up, {} open requests accepted, 12 s later {} of them have neither SubstreamOpened nor SubstreamOpenFailure (first {:?}) and the connection was not reported closed",
                        asked.len(), unanswered.len(), &unanswered[..unanswered.len().min(5)]
                    ),
                ));
            }
            Ok((asked.len(), answers.len(), w.driver.steps as usize))
        })
    })
    .join();
    match result {
        Ok(Ok((asked, answered, steps))) => {
            ctx.sub("frozen_remote_open_backlog_on_real_tcp", serde_json::json!({"open_requests_accepted": asked, "answered_exactly_once": answered, "driver_steps": steps, "held": true}));
            ctx.cov_add("transitions", steps as u64);
            ctx.cov_add("traces_validated_against_impl", 1);
        }
        Ok(Err(v)) => {
            if v.signature.starts_with("machinery/") {
                ctx.machinery_error(format!("{}: {}", v.signature, v.what));
            } else {
                ctx.violation(crate::report::Violation {
                    signature: v.signature,
                    what: v.what,
                    replay: serde_json::json!({"engine": "scripted", "scenario": "backpressure_order_check"}),
                });
            }
        }
        Err(_) => ctx.machinery_error("TCP open-backlog scenario panicked"),
    }
}

/// C08: a request to open a substream is answered exactly once — also when the answer is a failure and the protocol's
/// event channel is full at that moment. X asks for three substreams whose opening is held back, stops polling, its
/// channel is filled with dial-failure notifications, the three opens run into the open timeout; X resumes and must find
/// the three `SubstreamOpenFailure` answers.
fn open_failure_reaches_a_clogged_protocol(ctx: &mut Ctx) {
    use crate::env::node::MonitorCmd;
    let result = std::thread::spawn(|| -> Result<(usize, usize), Viol> {
        let rt = crate::env::driver::runtime(5);
        rt.block_on(async {
            let scn = sc("c08", 100_000, false, 0, vec![]);
            let mut w = World::new();
            let st = scn.setup(&mut w);
            let _ = w.nodes[st.l].cmd.send(NodeCmd::Dial(st.peer_r));
            w.run_to_quiescence(100_000);
            w.nodes[st.l].script.set_hold_opens(true);
            for _ in 0..3 {
                let _ = st.x.cmd.send(MonitorCmd::OpenSubstream(st.peer_r));
            }
            w.run_to_quiescence(100_000);
            let asked: Vec<usize> = st.x.log.lock().iter().filter_map(|e| if let Seen::OpenSubstreamResult { result: Ok(id), .. } = e { Some(*id) } else { None }).collect();
            if asked.len() != 3 {
                return Err(Viol::new("machinery/clogged-open-failure-setup", format!("expected three accepted open requests, got {asked:?}")));
            }
            let _ = st.x.cmd.send(MonitorCmd::Pause);
            w.run_to_quiescence(100_000);
            let capacity = litep2p::verif::DEFAULT_CHANNEL_SIZE;
            for i in 0..capacity {
                let p = crate::util::peer(700_000 + i as u64);
                let a: multiaddr::Multiaddr = format!("/ip4/10.202.{}.{}/tcp/1", i / 250, i % 250 + 1).parse().unwrap();
                let _ = w.nodes[st.l].cmd.send(NodeCmd::DialAddress(a.with(multiaddr::Protocol::P2p(p.into()))));
                w.run_to_quiescence(100_000);
            }
            // the held opens run into the substream-open timeout while X's channel is full
            for _ in 0..7 {
                tokio::time::advance(Duration::from_secs(1)).await;
                w.run_to_quiescence(100_000);
            }
            let _ = st.x.cmd.send(MonitorCmd::Resume);
            w.run_to_quiescence(2_000_000);
            w.nodes[st.l].script.set_hold_opens(false);
            w.run_to_quiescence(2_000_000);
            let log = st.x.log.lock().clone();
            let mut answers: BTreeMap<usize, usize> = BTreeMap::new();
            for e in &log {
                match e {
                    Seen::SubstreamOpened { outbound: Some(id), .. } => *answers.entry(*id).or_default() += 1,
                    Seen::SubstreamOpenFailure { substream } => *answers.entry(*substream).or_default() += 1,
                    _ => {}
                }
            }
            let closed = log.iter().any(|e| matches!(e, Seen::Closed { .. }));
            let unanswered: Vec<usize> = asked.iter().copied().filter(|id| !answers.contains_key(id)).collect();
            if !unanswered.is_empty() && !closed {
                return Err(Viol::new(
                    "c08/substream-never-answered/failure-while-event-channel-full",
                    format!("three substream opens timed out while protocol X's event channel was full; after X resumed, requests {unanswered:?} have neither SubstreamOpened nor SubstreamOpenFailure and the connection is still up"),
                ));
            }
            if answers.values().any(|n| *n > 1) {
                return Err(Viol::new("c08/substream-answered-twice/failure-while-event-channel-full", format!("answers per request: {answers:?}")));
            }
            Ok((asked.len(), w.driver.steps as usize))
        })
    })
    .join();
    match result {
        Ok(Ok((n, steps))) => {
            ctx.sub("open_failure_reaches_a_clogged_protocol", serde_json::json!({"open_requests": n, "driver_steps": steps, "held": true}));
            ctx.cov_add("traces_validated_against_impl", 1);
        }
        Ok(Err(v)) if v.signature.starts_with("machinery/") => ctx.machinery_error(format!("{}: {}", v.signature, v.what)),
        Ok(Err(v)) => ctx.violation(crate::report::Violation {
            signature: v.signature,
            what: v.what,
            replay: serde_json::json!({"engine": "scripted", "scenario": "backpressure_order_check"}),
        }),
        Err(_) => ctx.machinery_error("clogged-open-failure scenario panicked"),
    }
}

/// C05, protocol side: every failed dial is reported to every protocol, also to one whose event channel is full at that
/// moment (the manager has to wait for it, not drop the report). Protocol X stops polling, `capacity + 5` dials to
/// unreachable addresses fail, X resumes: X and Y must each have seen exactly that many `DialFailure` events.
/// `commands_while_blocked`: the last dials are requested one by one while the manager is already waiting for X's
/// channel — the application's event loop (a `select!` over commands and `next_event()`) then drops the pending
/// `next_event()` future; otherwise they are requested in one batch beforehand and nothing interrupts the manager.
pub fn dial_failures_reach_a_clogged_protocol(ctx: &mut Ctx, commands_while_blocked: bool) {
    use crate::env::node::MonitorCmd;
    let result = std::thread::spawn(move || -> Result<(usize, usize), Viol> {
        let rt = crate::env::driver::runtime(5);
        let _g = rt.enter();
        let scn = sc("c07", 100_000, false, 0, vec![]);
        let mut w = World::new();
        let st = scn.setup(&mut w);
        let _ = st.x.cmd.send(MonitorCmd::Pause);
        w.run_to_quiescence(100_000);
        let capacity = litep2p::verif::DEFAULT_CHANNEL_SIZE;
        let total = capacity + 5;
        let one_by_one = if commands_while_blocked { total } else { capacity.saturating_sub(5) };
        for i in 0..total {
            let p = crate::util::peer(800_000 + i as u64);
            let a: multiaddr::Multiaddr = format!("/ip4/10.201.{}.{}/tcp/1", i / 250, i % 250 + 1).parse().unwrap();
            let _ = w.nodes[st.l].cmd.send(NodeCmd::DialAddress(a.with(multiaddr::Protocol::P2p(p.into()))));
            if i < one_by_one {
                w.run_to_quiescence(100_000);
            }
        }
        w.run_to_quiescence(1_000_000);
        let accepted = w.nodes[st.l].log.lock().iter().filter(|e| matches!(e, NodeLog::DialResult(_, Ok(())))).count();
        if accepted != total {
            return Err(Viol::new("machinery/clogged-protocol-setup", format!("{accepted} of {total} dials were accepted")));
        }
        let _ = st.x.cmd.send(MonitorCmd::Resume);
        w.run_to_quiescence(2_000_000);
        let count = |h: &MonitorHandle| h.log.lock().iter().filter(|e| matches!(e, Seen::DialFailure { .. })).count();
        let (cx, cy) = (count(&st.x), count(&st.y));
        if cx != total || cy != total {
            let sig = if commands_while_blocked {
                "c05/dial-failure-report-lost/next-event-future-dropped-while-the-manager-waits-for-a-full-channel"
            } else {
                "c05/dial-failure-not-reported-to-a-protocol-whose-channel-was-full"
            };
            return Err(Viol::new(
                sig,
                format!("{total} accepted dials failed while protocol X was not polling (its event channel holds {capacity}); after X resumed it has seen {cx} DialFailure events, protocol Y {cy} (each must be {total}); dial commands issued while the manager was blocked: {commands_while_blocked}"),
            ));
        }
        Ok((total, w.driver.steps as usize))
    })
    .join();
    let label = if commands_while_blocked { "dial_failures_reach_a_clogged_protocol_commands_while_blocked" } else { "dial_failures_reach_a_clogged_protocol" };
    match result {
        Ok(Ok((n, steps))) => {
            ctx.sub(label, serde_json::json!({"failed_dials": n, "driver_steps": steps, "held": true}));
            ctx.cov_add("traces_validated_against_impl", 1);
        }
        Ok(Err(v)) if v.signature.starts_with("machinery/") => ctx.machinery_error(format!("{}: {}", v.signature, v.what)),
        Ok(Err(v)) => ctx.violation(crate::report::Violation {
            signature: v.signature,
            what: v.what,
            replay: serde_json::json!({"engine": "scripted", "scenario": "backpressure_order_check"}),
        }),
        Err(_) => ctx.machinery_error("clogged-protocol scenario panicked"),
    }
}

/// C07 on real TCP nodes (E4): a local **force close** while protocol X's event channel is full and stays full for 8 s of
/// virtual time. `TcpConnection`'s ForceClose arm must still tell every protocol and the manager, exactly once, after X
/// drains (the SimNet variant above ends the connection by cutting the carrier and exercises the mirror; this one
/// exercises `transport/tcp/connection.rs` itself).
/// Connections nobody holds, on real `TcpTransport` nodes: two nodes WITHOUT any protocol, the dialer connects `CYCLES`
/// times in a row. A connection no protocol holds ends the moment its task first runs, i.e. its closure is reported while
/// the transport manager is still completing the establishment. On both nodes and for every cycle the application must
/// see `ConnectionEstablished(N)` and then `ConnectionClosed(N)`, once each and in that order, and the peer can be dialed
/// again afterwards. `seed` fixes the start branch of the manager's `select!`.
fn connections_nobody_holds_on_real_tcp(ctx: &mut Ctx, seed: u64) {
    const CYCLES: usize = 6;
    let result = std::thread::spawn(move || -> Result<usize, Viol> {
        let rt = crate::env::driver::runtime_io(seed);
        rt.block_on(async {
            let (_park_tx, park_rx) = std::sync::mpsc::channel::<()>();
            let _parked = tokio::task::spawn_blocking(move || {
                let _ = park_rx.recv();
            });
            let mut w = World::new();
            let l = w.add_tcp_node(71, ConfigBuilder::new()).map_err(|e| Viol::new("machinery/bare-node", e))?;
            let r = w.add_tcp_node(72, ConfigBuilder::new()).map_err(|e| Viol::new("machinery/bare-node", e))?;
            async fn settle(w: &mut World) {
                loop {
                    w.run_to_quiescence(1_000_000);
                    if !e2::settle_io(w).await {
                        break;
                    }
                }
            }
            settle(&mut w).await;
            let addr_r = w.nodes[r].address.clone();
            let conn_id = |s: &str| -> Option<u64> {
                let i = s.find("ConnectionId(")? + "ConnectionId(".len();
                s[i..].split(')').next()?.parse().ok()
            };
            for cycle in 0..CYCLES {
                let _ = w.nodes[l].cmd.send(NodeCmd::DialAddress(addr_r.clone()));
                for _ in 0..3 {
                    settle(&mut w).await;
                    tokio::time::advance(Duration::from_millis(200)).await;
                }
                settle(&mut w).await;
                for (who, n) in [("dialer", l), ("listener", r)] {
                    let log: Vec<String> = w.nodes[n]
                        .log
                        .lock()
                        .iter()
                        .map(|e| match e {
                            NodeLog::Event(s) => s.chars().take(600).collect(),
                            NodeLog::DialResult(_, r) => format!("dial -> {r:?}"),
                        })
                        .collect();
                    let mut state: BTreeMap<u64, u8> = BTreeMap::new(); // 1 = established, 2 = closed
                    for e in &log {
                        let Some(id) = conn_id(e) else { continue };
                        let st = state.entry(id).or_insert(0);
                        if e.starts_with("ConnectionEstablished") {
                            if *st != 0 {
                                return Err(Viol::new(
                                    if *st == 2 { "c07/app-established-after-closed/tcp-connection-nobody-holds" } else { "c07/app-established-twice/tcp-connection-nobody-holds" },
                                    format!("TCP, nodes without protocols, cycle {cycle}, seed {seed}: the {who} application saw ConnectionEstablished for connection {id} after it had already seen {}; log {log:?}", if *st == 2 { "its ConnectionClosed" } else { "it established" }),
                                ));
                            }
                            *st = 1;
                        } else if e.starts_with("ConnectionClosed") {
                            if *st != 1 {
                                return Err(Viol::new(
                                    if *st == 0 { "c07/app-closed-before-established/tcp-connection-nobody-holds" } else { "c07/app-closed-twice/tcp-connection-nobody-holds" },
                                    format!("TCP, nodes without protocols, cycle {cycle}, seed {seed}: the {who} application saw ConnectionClosed for connection {id} {}; log {log:?}", if *st == 0 { "before any ConnectionEstablished for it" } else { "twice" }),
                                ));
                            }
                            *st = 2;
                        }
                    }
                    let established = state.values().filter(|s| **s >= 1).count();
                    let closed = state.values().filter(|s| **s == 2).count();
                    let refused = log.iter().filter(|e| e.starts_with("dial -> Err")).count();
                    if refused > 0 {
                        return Err(Viol::new(
                            "c07/cannot-redial-after-close/tcp-connection-nobody-holds",
                            format!("TCP, nodes without protocols, cycle {cycle}, seed {seed}: the {who}'s dial was refused although every earlier connection had been reported closed; log {log:?}"),
                        ));
                    }
                    if established != cycle + 1 || closed != cycle + 1 {
                        return Err(Viol::new(
                            "c07/app-missed-connection/tcp-connection-nobody-holds",
                            format!("TCP, nodes without protocols, after cycle {cycle}, seed {seed}: the {who} application saw {established} connections established and {closed} closed, expected {} each; log {log:?}", cycle + 1),
                        ));
                    }
                }
            }
            Ok(w.driver.steps as usize)
        })
    })
    .join();
    match result {
        Ok(Ok(steps)) => {
            ctx.cov_add("transitions", steps as u64);
            ctx.cov_add("traces_validated_against_impl", 1);
            ctx.cov_add("tcp_connections_nobody_holds_runs", 1);
        }
        Ok(Err(v)) if v.signature.starts_with("machinery/") => ctx.machinery_error(format!("{}: {}", v.signature, v.what)),
        Ok(Err(v)) => ctx.violation(crate::report::Violation {
            signature: v.signature,
            what: v.what,
            replay: serde_json::json!({"engine": "scripted", "scenario": "connections_nobody_holds_on_real_tcp", "seed": seed}),
        }),
        Err(_) => ctx.machinery_error("TCP connections-nobody-holds scenario panicked"),
    }
}

/// C09, substreams negotiated under a FALLBACK name: the responder L offers request-response protocol `/verif/rr/2` with
/// fallback `/verif/rr/1` and has the short keep-alive timeout; the requester R only knows `/verif/rr/1`. R's request
/// arrives on a substream negotiated under the fallback name and L's user holds it unanswered for three timeouts: that
/// inbound substream of a keep-alive protocol is then the only thing that keeps the connection open, and it must. With
/// `fallback = false` both use the same name (control). `tcp`: the same on two real `TcpTransport` nodes (E4).
/// Afterwards L answers; what the requester then reports is recorded as an observation only (see below).
static ANSWER_AFTER_HOLD: parking_lot::Mutex<String> = parking_lot::Mutex::new(String::new());

fn held_inbound_substream_keeps_the_connection(ctx: &mut Ctx, fallback: bool, tcp: bool, seed: u64) {
    use litep2p::protocol::request_response::{ConfigBuilder as RrConfigBuilder, DialOptions, RequestResponseEvent};
    use litep2p::types::protocol::ProtocolName;
    const T: u64 = 4;
    let result = std::thread::spawn(move || -> Result<usize, Viol> {
        let rt = if tcp { crate::env::driver::runtime_io(seed) } else { crate::env::driver::runtime(seed) };
        rt.block_on(async {
            let (_park_tx, park_rx) = std::sync::mpsc::channel::<()>();
            let _parked = tcp.then(|| {
                tokio::task::spawn_blocking(move || {
                    let _ = park_rx.recv();
                })
            });
            async fn settle(w: &mut World, tcp: bool) {
                loop {
                    w.run_to_quiescence(1_000_000);
                    if !tcp || !e2::settle_io(w).await {
                        break;
                    }
                }
            }
            let mut w = World::new();
            let name_l = if fallback { "/verif/rr/2" } else { "/verif/rr/1" };
            let mut b = RrConfigBuilder::new(ProtocolName::from(name_l)).with_max_size(1024);
            if fallback {
                b = b.with_fallback_names(vec![ProtocolName::from("/verif/rr/1")]);
            }
            let (cfg_l, mut handle_l) = b.build();
            let (cfg_r, mut handle_r) = RrConfigBuilder::new(ProtocolName::from("/verif/rr/1")).with_max_size(1024).with_timeout(Duration::from_secs(3600)).build();
            let builder_l = ConfigBuilder::new().with_request_response_protocol(cfg_l).with_keep_alive_timeout(Duration::from_secs(T));
            let builder_r = ConfigBuilder::new().with_request_response_protocol(cfg_r).with_keep_alive_timeout(Duration::from_secs(100_000));
            let (l, r) = if tcp { (w.add_tcp_node(91, builder_l), w.add_tcp_node(92, builder_r)) } else { (w.add_node(91, builder_l), w.add_node(92, builder_r)) };
            let l = l.map_err(|e| Viol::new("machinery/fallback-keep-alive-setup", e))?;
            let r = r.map_err(|e| Viol::new("machinery/fallback-keep-alive-setup", e))?;
            settle(&mut w, tcp).await;
            let (peer_l, addr_l) = (w.nodes[l].peer, w.nodes[l].address.clone());
            let _ = w.nodes[r].cmd.send(NodeCmd::DialAddress(addr_l));
            settle(&mut w, tcp).await;
            // L's user: takes the request and answers only when told to
            let (answer_tx, mut answer_rx) = tokio::sync::mpsc::unbounded_channel::<()>();
            let received: std::sync::Arc<parking_lot::Mutex<usize>> = Default::default();
            let rec2 = received.clone();
            w.spawn_for(l, "rr-responder", async move {
                let mut held = Vec::new();
                loop {
                    tokio::select! {
                        ev = handle_l.next() => match ev {
                            None => return,
                            Some(RequestResponseEvent::RequestReceived { request_id, .. }) => {
                                *rec2.lock() += 1;
                                held.push(request_id);
                            }
                            Some(_) => {}
                        },
                        go = answer_rx.recv() => {
                            if go.is_none() {
                                return;
                            }
                            for id in held.drain(..) {
                                handle_l.send_response(id, vec![7, 7, 7]);
                            }
                        }
                    }
                }
            });
            let outcome: std::sync::Arc<parking_lot::Mutex<Vec<String>>> = Default::default();
            let out2 = outcome.clone();
            w.spawn_for(r, "rr-requester", async move {
                let _ = handle_r.send_request(peer_l, vec![1, 2, 3], DialOptions::Reject).await;
                while let Some(ev) = handle_r.next().await {
                    match ev {
                        RequestResponseEvent::ResponseReceived { response, .. } => out2.lock().push(format!("response {response:?}")),
                        RequestResponseEvent::RequestFailed { error, .. } => out2.lock().push(format!("failed {error:?}")),
                        _ => {}
                    }
                }
            });
            let closed_at_l = |w: &World| w.nodes[l].log.lock().iter().filter(|e| matches!(e, NodeLog::Event(s) if s.starts_with("ConnectionClosed"))).count();
            let how = format!("{}{}", if fallback { "negotiated under the fallback name" } else { "negotiated under the main name" }, if tcp { ", real TCP nodes" } else { "" });
            let variant = match (fallback, tcp) {
                (true, false) => "negotiated-under-fallback-name",
                (false, false) => "request-response",
                (true, true) => "negotiated-under-fallback-name/tcp",
                (false, true) => "request-response/tcp",
            };
            for tick in 0..3 * T {
                settle(&mut w, tcp).await;
                if tick == 0 && *received.lock() != 1 {
                    return Err(Viol::new("machinery/fallback-keep-alive-setup", format!("the request ({how}) did not reach the responder's user: requester saw {:?}", outcome.lock())));
                }
                if closed_at_l(&w) != 0 {
                    return Err(Viol::new(
                        format!("c09/closed-while-substream-held/{variant}"),
                        format!("keep-alive timeout {T} s: the connection was closed at t={tick} s while the responder still held the request's inbound substream ({how}); requester saw {:?}", outcome.lock()),
                    ));
                }
                tokio::time::advance(Duration::from_secs(1)).await;
            }
            let _ = answer_tx.send(());
            settle(&mut w, tcp).await;
            // What the requester's user then sees is NOT judged: the responder's node closes the connection right after
            // its last substream (the idle timeout is long past), and a requester that learns of the closure before it has
            // read the answer reports RequestFailed(ConnectionClosed) — one terminal event, which is all C13 asks for.
            // Recorded as an observation: did the answer's bytes leave the responder, and what did the requester report.
            let got = outcome.lock().clone();
            let on_wire = w.links.iter().any(|lk| lk.a_to_b.log().windows(4).any(|x| x == [3, 7, 7, 7]) || lk.b_to_a.log().windows(4).any(|x| x == [3, 7, 7, 7]));
            if got.len() > 1 {
                return Err(Viol::new(format!("c09/two-outcomes-for-the-held-request/{variant}"), format!("the requester saw {got:?} ({how})")));
            }
            *ANSWER_AFTER_HOLD.lock() = format!("answer bytes on the wire: {}; requester saw {got:?}", if tcp { "n/a (encrypted)".to_string() } else { on_wire.to_string() });
            Ok(w.driver.steps as usize)
        })
    })
    .join();
    let label = format!("held_inbound_substream[{}{}{}]", if fallback { "fallback name" } else { "main name" }, if tcp { ", tcp" } else { "" }, if tcp { format!(", seed {seed}") } else { String::new() });
    match result {
        Ok(Ok(steps)) => {
            ctx.cov_add("transitions", steps as u64);
            ctx.sub(&label, serde_json::json!({"driver_steps": steps, "held": true, "observation_answer_after_the_hold": ANSWER_AFTER_HOLD.lock().clone()}));
        }
        Ok(Err(v)) if v.signature.starts_with("machinery/") => ctx.machinery_error(format!("{}: {}", v.signature, v.what)),
        Ok(Err(v)) => ctx.violation(crate::report::Violation {
            signature: v.signature,
            what: v.what,
            replay: serde_json::json!({"engine": "scripted", "scenario": "held_inbound_substream_keeps_the_connection", "fallback": fallback, "tcp": tcp, "seed": seed}),
        }),
        Err(_) => ctx.machinery_error("fallback-name keep-alive scenario panicked"),
    }
}

fn backpressure_force_close_tcp(ctx: &mut Ctx) {
    use crate::env::node::MonitorCmd;
    let result = std::thread::spawn(|| -> Result<(usize, usize), Viol> {
        let rt = crate::env::driver::runtime_io(5);
        rt.block_on(async {
            let (_park_tx, park_rx) = std::sync::mpsc::channel::<()>();
            let _parked = tokio::task::spawn_blocking(move || {
                let _ = park_rx.recv();
            });
            let mut scn = sc("c07", 100_000, false, 0, vec![]);
            scn.real_tcp = true;
            let mut w = World::new();
            let st = scn.setup(&mut w);
            // run every task and let the kernel deliver socket readiness until nothing moves any more
            async fn settle(w: &mut World) {
                loop {
                    w.run_to_quiescence(1_000_000);
                    if !e2::settle_io(w).await {
                        break;
                    }
                }
            }
            settle(&mut w).await;
            let _ = w.nodes[st.l].cmd.send(NodeCmd::Dial(st.peer_r));
            settle(&mut w).await;
            let est = |h: &MonitorHandle| h.log.lock().iter().filter(|e| matches!(e, Seen::Established { .. })).count();
            if est(&st.x) != 1 || est(&st.y) != 1 {
                return Err(Viol::new("machinery/backpressure-setup", "TCP connection was not established in the force-close back-pressure scenario"));
            }
            let _ = st.x.cmd.send(MonitorCmd::Pause);
            settle(&mut w).await;
            // fill X's channel: dial failures (connection refused on loopback port 1), one notification each
            let capacity = litep2p::verif::DEFAULT_CHANNEL_SIZE;
            let count_y = |st: &St| st.y.log.lock().iter().filter(|e| matches!(e, Seen::DialFailure { .. })).count();
            let mut sent = 0usize;
            while count_y(&st) < capacity && sent < 3 * capacity {
                for _ in 0..64 {
                    let p = crate::util::peer(900_000 + sent as u64);
                    let a: multiaddr::Multiaddr = "/ip4/127.0.0.1/tcp/1".parse().unwrap();
                    let _ = w.nodes[st.l].cmd.send(NodeCmd::DialAddress(a.with(multiaddr::Protocol::P2p(p.into()))));
                    sent += 1;
                }
                settle(&mut w).await;
            }
            let y_failures = count_y(&st);
            if y_failures < capacity {
                return Err(Viol::new("machinery/backpressure-setup", format!("expected {capacity} dial failures at protocol Y, saw {y_failures} after {sent} dials")));
            }
            // local force close by Y while X cannot take another event
            let _ = st.y.cmd.send(MonitorCmd::ForceClose(st.peer_r));
            settle(&mut w).await;
            let app_closed = |w: &World| w.nodes[st.l].log.lock().iter().filter(|e| matches!(e, NodeLog::Event(s) if s.starts_with("ConnectionClosed"))).count();
            if app_closed(&w) != 0 {
                return Err(Viol::new(
                    "c07/manager-told-before-protocols",
                    "TCP, force close: protocol X's event channel is full so its ConnectionClosed cannot be enqueued yet, but the transport manager was already told",
                ));
            }
            // X stays blocked for 8 s
            for _ in 0..8 {
                tokio::time::advance(Duration::from_secs(1)).await;
                settle(&mut w).await;
            }
            let _ = st.x.cmd.send(MonitorCmd::Resume);
            settle(&mut w).await;
            let x_closed = st.x.log.lock().iter().filter(|e| matches!(e, Seen::Closed { .. })).count();
            let y_closed = st.y.log.lock().iter().filter(|e| matches!(e, Seen::Closed { .. })).count();
            if x_closed != 1 || y_closed != 1 || app_closed(&w) != 1 {
                return Err(Viol::new(
                    "c07/closed-not-reported-after-backpressure/tcp-force-close",
                    format!("TCP, force close while protocol X was blocked for 8 s, then drained: X closed {x_closed}, Y closed {y_closed}, application closed {} (each must be 1)", app_closed(&w)),
                ));
            }
            Ok((y_failures, w.driver.steps as usize))
        })
    })
    .join();
    match result {
        Ok(Ok((n, steps))) => {
            ctx.sub("backpressure_force_close_on_real_tcp", serde_json::json!({"dial_failures_queued_at_blocked_protocol": n, "driver_steps": steps, "held": true}));
            ctx.cov_add("transitions", steps as u64);
            ctx.cov_add("traces_validated_against_impl", 1);
        }
        Ok(Err(v)) => {
            if v.signature.starts_with("machinery/") {
                ctx.machinery_error(format!("{}: {}", v.signature, v.what));
            } else {
                ctx.violation(crate::report::Violation {
                    signature: v.signature,
                    what: v.what,
                    replay: serde_json::json!({"engine": "scripted", "scenario": "backpressure_order_check"}),
                });
            }
        }
        Err(_) => ctx.machinery_error("TCP force-close back-pressure scenario panicked"),
    }
}

/// C07, "protocols before the manager": fill protocol X's event channel to capacity (DEFAULT_CHANNEL_SIZE = 4096 dial-failure notifications
/// while X does not poll), then end the connection. `ProtocolSet::report_connection_closed` must not tell the manager
/// before X's notification has been enqueued, i.e. while X is blocked the application must not see ConnectionClosed and
/// the peer still counts as connected; once X drains, everybody is told.
fn backpressure_order_check(ctx: &mut Ctx) {
    use crate::env::node::MonitorCmd;
    let result = std::thread::spawn(|| -> Result<(usize, usize), Viol> {
        let rt = crate::env::driver::runtime(5);
        let _g = rt.enter();
        let scn = sc("c07", 100_000, false, 0, vec![]);
        let mut w = World::new();
        let mut st = scn.setup(&mut w);
        let _ = w.nodes[st.l].cmd.send(NodeCmd::Dial(st.peer_r));
        w.run_to_quiescence(100_000);
        let est = |h: &MonitorHandle| h.log.lock().iter().filter(|e| matches!(e, Seen::Established { .. })).count();
        if est(&st.x) != 1 || est(&st.y) != 1 {
            return Err(Viol::new("machinery/backpressure-setup", "connection was not established in the back-pressure scenario"));
        }
        let _ = st.x.cmd.send(MonitorCmd::Pause);
        w.run_to_quiescence(100_000);
        // one dial failure per slot: each is one DialFailure notification to every protocol
        let capacity = litep2p::verif::DEFAULT_CHANNEL_SIZE;
        for i in 0..capacity {
            let p = crate::util::peer(900_000 + i as u64);
            let a: multiaddr::Multiaddr = format!("/ip4/10.200.{}.{}/tcp/1", i / 250, i % 250 + 1).parse().unwrap();
            let _ = w.nodes[st.l].cmd.send(NodeCmd::DialAddress(a.with(multiaddr::Protocol::P2p(p.into()))));
            w.run_to_quiescence(100_000);
        }
        let y_failures = st.y.log.lock().iter().filter(|e| matches!(e, Seen::DialFailure { .. })).count();
        if y_failures != capacity {
            return Err(Viol::new("machinery/backpressure-setup", format!("expected {capacity} dial failures at protocol Y, saw {y_failures}")));
        }
        // end the connection while X cannot take another event
        w.cut_link(0);
        w.run_to_quiescence(100_000);
        let app_closed = |w: &World| w.nodes[st.l].log.lock().iter().filter(|e| matches!(e, NodeLog::Event(s) if s.starts_with("ConnectionClosed"))).count();
        let y_closed = st.y.log.lock().iter().filter(|e| matches!(e, Seen::Closed { .. })).count();
        if app_closed(&w) != 0 {
            return Err(Viol::new(
                "c07/manager-told-before-protocols",
                format!("protocol X's event channel is full so its ConnectionClosed cannot be enqueued yet, but the transport manager was already told (application saw ConnectionClosed); protocol Y closed events: {y_closed}"),
            ));
        }
        let _ = w.nodes[st.l].cmd.send(NodeCmd::Dial(st.peer_r));
        w.run_to_quiescence(100_000);
        let last = w.nodes[st.l].log.lock().iter().rev().find_map(|e| if let NodeLog::DialResult(_, r) = e { Some(r.clone()) } else { None });
        if !matches!(&last, Some(Err(e)) if e.contains("AlreadyConnected")) {
            return Err(Viol::new(
                "c07/peer-disconnected-before-protocols-told",
                format!("while a protocol has not been told yet the peer must still count as connected; dial answered {last:?}"),
            ));
        }
        // X drains: now everybody is told, exactly once
        let _ = st.x.cmd.send(MonitorCmd::Resume);
        w.run_to_quiescence(1_000_000);
        let x_closed = st.x.log.lock().iter().filter(|e| matches!(e, Seen::Closed { .. })).count();
        let y_closed = st.y.log.lock().iter().filter(|e| matches!(e, Seen::Closed { .. })).count();
        if x_closed != 1 || y_closed != 1 || app_closed(&w) != 1 {
            return Err(Viol::new(
                "c07/closed-not-reported-after-backpressure",
                format!("after protocol X drained its channel: X closed {x_closed}, Y closed {y_closed}, application closed {} (each must be 1)", app_closed(&w)),
            ));
        }
        st.pc = 0;
        Ok((capacity, w.driver.steps as usize))
    })
    .join();
    match result {
        Ok(Ok((n, steps))) => {
            ctx.sub("backpressure_order_check", serde_json::json!({"dial_failures_queued_at_blocked_protocol": n, "driver_steps": steps, "held": true}));
            ctx.cov_add("transitions", steps as u64);
            ctx.cov_add("traces_validated_against_impl", 1);
        }
        Ok(Err(v)) => {
            if v.signature.starts_with("machinery/") {
                ctx.machinery_error(format!("{}: {}", v.signature, v.what));
            } else {
                ctx.violation(crate::report::Violation {
                    signature: v.signature,
                    what: v.what,
                    replay: serde_json::json!({"engine": "scripted", "scenario": "backpressure_order_check"}),
                });
            }
        }
        Err(_) => ctx.machinery_error("back-pressure scenario panicked"),
    }
}

pub fn run_filtered(ctx: &mut Ctx, filter: &'static str) {
    let thorough = ctx.tier == crate::report::Tier::Thorough;
    let bound = match (filter, thorough) {
        ("c09", false) => 1,
        ("c09", true) => 2,
        (_, false) => 2,
        (_, true) => 3,
    };
    let scns = scenarios(filter, thorough);
    ctx.cov("programs", scns.len() as u64);
    for s in &scns {
        // quick tier: the full bound only for short programs, one deviation less for the long ones
        let b = if !thorough && filter != "c09" && s.program.len() > 3 { bound - 1 } else { bound };
        let e2 = E2 { bound: b, max_executions: 3_000_000, demotions: usize::from(thorough || filter != "c07"), bound_with_demotion: 2, ..Default::default() };
        let out = e2.explore(s);
        e2::absorb(ctx, &s.name(), out);
    }
    if filter == "c07" {
        backpressure_order_check(ctx);
        backpressure_force_close_tcp(ctx);
        for seed in 1..=if thorough { 24 } else { 6 } {
            connections_nobody_holds_on_real_tcp(ctx, seed);
        }
    }
    if filter == "c09" {
        held_inbound_substream_keeps_the_connection(ctx, false, false, 11);
        held_inbound_substream_keeps_the_connection(ctx, true, false, 11);
        for seed in 1..=4 {
            held_inbound_substream_keeps_the_connection(ctx, true, true, seed);
        }
    }
    if filter == "c08" {
        frozen_remote_open_backlog_tcp(ctx);
        open_failure_reaches_a_clogged_protocol(ctx);
    }
    // ---- E4: the same programs on real TcpTransport / TcpConnection nodes over loopback sockets ----
    if filter == "c07" || filter == "c09" {
        let e4 = E2 { bound: if thorough { 1 } else { 0 }, max_executions: 200_000, threads: 4, ..Default::default() };
        let mut conform = 0u64;
        let mut compared = 0u64;
        for s in e4_scenarios(filter) {
            let mut tcp = s.clone();
            tcp.real_tcp = true;
            // conformance: the protocol- and application-visible trace of the default schedule must be the one SimNet
            // produces for the same program
            let a = e2::run_one(&s, &[], e4.seed);
            let b = e2::run_one(&tcp, &[], e4.seed);
            compared += 1;
            if a.class == b.class {
                conform += 1;
            } else {
                // the mirror of transport/tcp/connection.rs is out of date (or SimNet is wrong): that is a defect of
                // the machinery, not of litep2p — the TCP run below is judged by the property's own oracles either way
                ctx.machinery_error(format!(
                    "{filter}: SimNet's connection task no longer behaves like transport/tcp/connection.rs: program {:?}: SimNet trace {} but real TCP nodes produce {} (bring env/simnet.rs in line with the TCP file)",
                    s.program, a.class, b.class
                ));
            }
            let out = e4.explore(&tcp);
            e2::absorb(ctx, &format!("E4:{}", tcp.name()), out);
        }
        ctx.cov("e4_programs_on_real_tcp", compared);
        ctx.cov("e4_simnet_traces_equal_to_tcp_traces", conform);
        ctx.assume("E4 (real loopback TCP, Noise, yamux, TcpConnection): socket readiness order is decided by the kernel; the explorer settles I/O (driver turns + 2 ms pauses) before it treats the system as idle; virtual clock with auto-advance inhibited");
    }
    ctx.cov("deviation_bound", bound as u64);
    if filter == "c08" {
        ctx.cov(
            "observation_open_requests_unanswered_because_their_primary_connection_ended_while_a_secondary_stayed",
            UNANSWERED_ON_SILENTLY_CLOSED_PRIMARY.load(std::sync::atomic::Ordering::Relaxed),
        );
    }
    ctx.cov(
        "rule",
        "for every connection-lifecycle program (connect, overlapping second connection, substream opens by either side, link cut, remote crash, \
         force close, a local protocol exiting, explicit waits): E2 runs the FIFO schedule of all tasks of two real Litep2p nodes on SimNet and every \
         schedule with up to deviation_bound deviations, each to quiescence, virtual time in 1 s ticks; oracles on the event logs of two monitor \
         protocols and of the application",
    );
    ctx.assume("SimNet's connection task mirrors transport/tcp/connection.rs over real yamux + multistream-select + ProtocolSet + permits; Noise/TCP below yamux is replaced by an in-memory pipe; the real TCP path is covered by the E4 layer");
    ctx.assume("interleaving granularity is one poll of one task; select! branch order fixed by the runtime seed");
    ctx.assume("the keep-alive tracker's timestamps use tokio's (virtual) clock through a cfg hook");
}

pub fn replay(case: &Value) -> Result<String, String> {
    if case["scenario"] == "backpressure_order_check" {
        return Err("re-run `verif check C07`: the back-pressure scenario is a single deterministic execution inside the check".into());
    }
    let s: ConnScenario = serde_json::from_value(case["config"].clone()).map_err(|e| e.to_string())?;
    e2::replay(&s, case)
}
