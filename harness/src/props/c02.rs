//! C02 — "Noise transport delivers the exact byte stream or fails".
//!
//! Bounded exhaustive enumeration of configurations x carrier behaviours on the two real `NoiseSocket`s
//! returned by an honest `litep2p::verif::handshake` over the scripted carrier. Every case is one fresh
//! paused runtime + fresh handshake + one transfer under the deterministic driver.
//!
//! Reference model: a byte FIFO of the plaintext the writer's `poll_write` accepted (`Ok(n)`). Byte `i` of the
//! FIFO is `pat(i)`, so the FIFO is fully described by its length and every misplaced / duplicated / lost byte
//! is visible at its position.
//!
//! * honest grids (direct pipe writer -> reader): no error on either side, reader output == FIFO, the run
//!   terminates (driver stall with unfinished tasks = hang), end-of-stream only after the last byte.
//! * tamper grid (writer -> capture pipe -> in-driver man-in-the-middle -> reader pipe): the attacked stream is
//!   delivered to the REAL reader socket of the same session and then the carrier is closed; reader output must
//!   be a prefix of the FIFO that does not extend into or beyond the first attacked frame, followed by `Err`.

use crate::{
    env::{driver, pipe},
    mc::e1,
    report::{Ctx, Violation},
};
use futures::{
    io::{AsyncRead, AsyncWrite},
    AsyncReadExt, AsyncWriteExt, FutureExt,
};
use litep2p::{
    config::Role,
    verif::{handshake, HandshakeTransport, NoiseSocket},
};
use parking_lot::Mutex;
use serde::{Deserialize, Serialize};
use serde_json::{json, Value};
use std::{
    collections::{BTreeMap, BTreeSet, HashMap, HashSet},
    io,
    panic::AssertUnwindSafe,
    pin::Pin,
    sync::{
        atomic::{AtomicBool, AtomicU64, AtomicUsize, Ordering},
        Arc,
    },
    task::{Context, Poll},
    time::Duration,
};

// ---------------------------------------------------------------------------------------------------------
// case description (this is also the replay format)
// ---------------------------------------------------------------------------------------------------------

#[derive(Clone, Copy, Debug, Serialize, Deserialize, PartialEq, Eq, Hash, PartialOrd, Ord)]
pub enum Mode {
    /// per size: write until everything is accepted (`write_all` semantics), then `flush`
    FlushEach,
    /// per size: write until everything is accepted; a single `flush` after the last write
    FlushEnd,
    /// per size: ONE `write()` call, only the `Ok(n)` accepted prefix enters the FIFO; single flush at the end
    RawOnce,
    /// per size: write until everything is accepted, then poll `flush` exactly ONCE and go on writing whether or not
    /// it completed (legal for `AsyncWrite`: what a multiplexer does when its own flush is still Pending and another
    /// stream has data); a flush awaited to completion after the last write
    FlushPoke,
    /// per size: write until everything is accepted; NO flush at all, then `close()`: close alone has to get every
    /// accepted byte to the carrier (an application that writes its last message and closes the socket)
    CloseOnly,
}

/// Behaviour of the carrier in the writer -> reader (ciphertext) direction during the transfer. All op indices
/// and offsets are relative to the start of the transfer (the handshake runs over the default carrier).
#[derive(Clone, Debug, Default, Serialize, Deserialize, PartialEq, Eq, Hash)]
pub struct Carrier {
    /// max bytes per carrier read (0 = unlimited)
    #[serde(default)]
    pub read_chunk: usize,
    /// ciphertext stream offsets no carrier read may cross (a read ends exactly there): split points
    #[serde(default)]
    pub cuts: Vec<u64>,
    /// max bytes accepted per carrier write (0 = unlimited)
    #[serde(default)]
    pub write_accept: usize,
    /// flow-control window in bytes (0 = unlimited)
    #[serde(default)]
    pub window: usize,
    /// reader-side carrier read ops answered with one spurious Pending
    #[serde(default)]
    pub pend_r: Vec<u64>,
    /// writer-side carrier write ops answered with one spurious Pending
    #[serde(default)]
    pub pend_w: Vec<u64>,
    /// writer-side carrier flush ops answered with one spurious Pending
    #[serde(default)]
    pub pend_f: Vec<u64>,
}

impl Carrier {
    fn is_default(&self) -> bool {
        *self == Carrier::default()
    }
    fn deviations(&self) -> usize {
        self.pend_r.len() + self.pend_w.len() + self.pend_f.len()
    }
}

/// In-transit attack on the recorded ciphertext (frame = 2-byte BE length + ciphertext incl. 16-byte tag).
#[derive(Clone, Debug, Serialize, Deserialize, PartialEq, Eq, Hash)]
#[serde(tag = "kind")]
pub enum Attack {
    /// relay unmodified (control for the man-in-the-middle plumbing: everything must arrive)
    Passthrough,
    /// XOR `mask` into the byte at position class `pos` of frame `frame`
    /// (`len0`,`len1`,`ct_first`,`ct_mid`,`ct_last`,`tag0`..`tag15`)
    Flip { frame: usize, pos: String, mask: u8 },
    /// remove frame `frame`
    Drop { frame: usize },
    /// deliver frame `frame` twice in a row (replay)
    Dup { frame: usize },
    /// append a copy of frame `frame` after the last frame (late replay)
    ReplayAtEnd { frame: usize },
    /// exchange frames `i` and `j`
    Swap { i: usize, j: usize },
    /// cut the stream inside frame `frame` at position class `at`
    /// (`start`,`len1`,`hdr`,`ct_mid`,`pre_tag`,`tag_mid`,`last`) and close the carrier
    Truncate { frame: usize, at: String },
}

impl Attack {
    fn kind(&self) -> &'static str {
        match self {
            Attack::Passthrough => "passthrough",
            Attack::Flip { pos, .. } if pos.starts_with("len") => "flip-length",
            Attack::Flip { pos, .. } if pos.starts_with("tag") => "flip-tag",
            Attack::Flip { .. } => "flip-ciphertext",
            Attack::Drop { .. } => "drop",
            Attack::Dup { .. } => "replay",
            Attack::ReplayAtEnd { .. } => "replay-late",
            Attack::Swap { .. } => "reorder",
            Attack::Truncate { .. } => "truncate",
        }
    }
}

#[derive(Clone, Debug, Serialize, Deserialize, PartialEq, Eq, Hash)]
pub struct Case {
    /// plaintext write sizes, in order
    pub sizes: Vec<usize>,
    pub mode: Mode,
    /// reader buffer size
    pub rbuf: usize,
    /// `max_read_ahead_factor` handed to `handshake()`
    pub raf: usize,
    /// `max_write_buffer_size` handed to `handshake()`
    pub wbs: usize,
    /// writer is the Noise initiator (dialer) / responder
    #[serde(default = "yes")]
    pub writer_dialer: bool,
    #[serde(default)]
    pub carrier: Carrier,
    /// `None`: honest direct pipe. `Some`: ciphertext goes through the in-driver man-in-the-middle.
    #[serde(default)]
    pub attack: Option<Attack>,
}

fn yes() -> bool {
    true
}

impl Case {
    fn honest(sizes: &[usize], mode: Mode, rbuf: usize, raf: usize, wbs: usize) -> Case {
        Case {
            sizes: sizes.to_vec(),
            mode,
            rbuf,
            raf,
            wbs,
            writer_dialer: true,
            carrier: Carrier::default(),
            attack: None,
        }
    }
    fn hash(&self) -> u128 {
        e1::hash128(serde_json::to_string(self).unwrap().as_bytes())
    }
    fn total(&self) -> usize {
        self.sizes.iter().sum()
    }
}

// ---------------------------------------------------------------------------------------------------------
// plaintext pattern
// ---------------------------------------------------------------------------------------------------------

#[inline]
fn pat(i: usize) -> u8 {
    ((i * 31 + 7) % 251) as u8
}

/// first byte count at which snow refuses a transport message (payload + 16 > 65535): used ONLY to classify a
/// write error, never to decide whether a case passes.
const SNOW_REFUSES_FROM: usize = 65520;

// ---------------------------------------------------------------------------------------------------------
// carrier adapter: a reader that never crosses a set of stream offsets
// ---------------------------------------------------------------------------------------------------------

#[derive(Default)]
struct CutCtl {
    pos: u64,
    cuts: Vec<u64>,
}

pub struct CutReader {
    inner: pipe::PipeReader,
    ctl: Arc<Mutex<CutCtl>>,
}

impl AsyncRead for CutReader {
    fn poll_read(mut self: Pin<&mut Self>, cx: &mut Context<'_>, out: &mut [u8]) -> Poll<io::Result<usize>> {
        let lim = {
            let c = self.ctl.lock();
            c.cuts.iter().find(|&&x| x > c.pos).map(|&x| (x - c.pos) as usize).unwrap_or(usize::MAX)
        };
        let n = out.len().min(lim);
        let this = &mut *self;
        match Pin::new(&mut this.inner).poll_read(cx, &mut out[..n]) {
            Poll::Ready(Ok(k)) => {
                this.ctl.lock().pos += k as u64;
                Poll::Ready(Ok(k))
            }
            o => o,
        }
    }
}

/// Runaway guard: a socket that keeps hammering the carrier inside ONE poll (which the driver's step cap cannot
/// interrupt) is stopped with an error once it exceeds bounds no correct run of this module comes near.
#[derive(Default)]
pub struct Guard {
    ops: AtomicU64,
    bytes_written: AtomicU64,
    tripped: AtomicBool,
}

const GUARD_MAX_OPS: u64 = 6_000_000;
const GUARD_MAX_BYTES: u64 = 16 << 20;

impl Guard {
    fn check(&self, add_bytes: u64) -> io::Result<()> {
        let ops = self.ops.fetch_add(1, Ordering::Relaxed) + 1;
        let bytes = self.bytes_written.fetch_add(add_bytes, Ordering::Relaxed) + add_bytes;
        if ops > GUARD_MAX_OPS || bytes > GUARD_MAX_BYTES {
            self.tripped.store(true, Ordering::SeqCst);
            return Err(io::Error::new(io::ErrorKind::Other, "verif runaway guard"));
        }
        Ok(())
    }
}

/// What the `NoiseSocket`s sit on.
pub struct Io {
    r: CutReader,
    w: pipe::PipeWriter,
    guard: Arc<Guard>,
}

impl AsyncRead for Io {
    fn poll_read(mut self: Pin<&mut Self>, cx: &mut Context<'_>, out: &mut [u8]) -> Poll<io::Result<usize>> {
        if let Err(e) = self.guard.check(0) {
            return Poll::Ready(Err(e));
        }
        Pin::new(&mut self.r).poll_read(cx, out)
    }
}

impl AsyncWrite for Io {
    fn poll_write(mut self: Pin<&mut Self>, cx: &mut Context<'_>, data: &[u8]) -> Poll<io::Result<usize>> {
        match Pin::new(&mut self.w).poll_write(cx, data) {
            Poll::Ready(Ok(n)) => match self.guard.check(n as u64) {
                Ok(()) => Poll::Ready(Ok(n)),
                Err(e) => Poll::Ready(Err(e)),
            },
            o => match self.guard.check(0) {
                Ok(()) => o,
                Err(e) => Poll::Ready(Err(e)),
            },
        }
    }
    fn poll_flush(mut self: Pin<&mut Self>, cx: &mut Context<'_>) -> Poll<io::Result<()>> {
        Pin::new(&mut self.w).poll_flush(cx)
    }
    fn poll_close(mut self: Pin<&mut Self>, cx: &mut Context<'_>) -> Poll<io::Result<()>> {
        Pin::new(&mut self.w).poll_close(cx)
    }
}

// ---------------------------------------------------------------------------------------------------------
// observations of one run
// ---------------------------------------------------------------------------------------------------------

#[derive(Clone, Debug, PartialEq, Eq)]
enum Term {
    /// `Ok(0)`
    Eof,
    /// `Err(kind)`
    Err(String),
    /// more bytes than were ever written
    Overrun,
}

#[derive(Clone, Debug)]
enum Post {
    Panic(String),
    Err(String),
    Eof,
    Bytes(usize),
}

#[derive(Clone, Debug, Default)]
struct Obs {
    hs_errors: Vec<String>,
    /// plaintext bytes for which a write returned `Ok`
    accepted: usize,
    /// `accepted` at the time of the last successful flush / close
    flushed: usize,
    /// (error kind, length of the buffer handed to the failing write call, index of the write in `sizes`)
    write_err: Option<(String, usize, usize)>,
    write_zero: Option<usize>,
    flush_err: Option<String>,
    close_err: Option<String>,
    closed_ok: bool,
    writer_done: bool,
    got: usize,
    /// first delivered byte that differs from the FIFO: (index, observed, expected)
    mismatch: Option<(usize, u8, u8)>,
    /// a read returned more than the buffer holds: (returned, buffer)
    oversize: Option<(usize, usize)>,
    term: Option<Term>,
    /// the reader saw its end-of-stream / error before the writer had completed `close()`
    end_before_close: bool,
    post: Option<Post>,
    reader_done: bool,
    step_cap_hit: bool,
    guard_tripped: bool,
    guard_counts: (u64, u64),
    /// frames seen on the wire during the transfer: (offset in transfer ciphertext, ciphertext length)
    frames: Vec<(usize, usize)>,
    /// trailing bytes that do not form a complete frame
    partial_tail: usize,
    ct_len: usize,
    /// carrier ops during the transfer: reader-side reads, writer-side writes, writer-side flushes
    ops: (u64, u64, u64),
    injected: u64,
    /// tamper runs: plaintext bytes that may legitimately be delivered, and whether clean EOF is acceptable
    limit: Option<usize>,
    boundary_cut: bool,
    mitm_error: Option<String>,
    driver_steps: u64,
}

pub struct Outcome {
    obs: Obs,
    viols: Vec<(String, String)>,
}

fn kind(e: &io::Error) -> String {
    format!("{:?}", e.kind())
}

fn site(msg: &str) -> String {
    // "<file>:<line>: payload"; make the discriminator independent of where the litep2p checkout lives
    let loc = msg.split(": ").next().unwrap_or("unknown");
    let loc = match loc.rfind("/src/") {
        Some(i) => &loc[i + 1..],
        None => loc,
    };
    loc.replace('/', "_")
}

fn parse_frames(ct: &[u8]) -> (Vec<(usize, usize)>, usize) {
    let mut frames = Vec::new();
    let mut off = 0usize;
    while off + 2 <= ct.len() {
        let l = ((ct[off] as usize) << 8) | ct[off + 1] as usize;
        if off + 2 + l > ct.len() {
            break;
        }
        frames.push((off, l));
        off += 2 + l;
    }
    (frames, ct.len() - off)
}

// ---------------------------------------------------------------------------------------------------------
// attack surgery (pure function of the captured ciphertext)
// ---------------------------------------------------------------------------------------------------------

fn flip_rel(pos: &str, l: usize) -> Result<usize, String> {
    let body = l.checked_sub(16).ok_or("frame shorter than a tag")?;
    Ok(match pos {
        "len0" => 0,
        "len1" => 1,
        "ct_first" => 2,
        "ct_mid" => 2 + body / 2,
        "ct_last" => 2 + body - 1,
        p if p.starts_with("tag") => {
            let k: usize = p[3..].parse().map_err(|_| format!("bad pos {p}"))?;
            if k >= 16 {
                return Err(format!("bad pos {p}"));
            }
            2 + body + k
        }
        p => return Err(format!("bad pos {p}")),
    })
}

fn trunc_rel(at: &str, l: usize) -> Result<usize, String> {
    let body = l.checked_sub(16).ok_or("frame shorter than a tag")?;
    Ok(match at {
        "start" => 0,
        "len1" => 1,
        "hdr" => 2,
        "ct_mid" => 2 + body.div_ceil(2),
        "pre_tag" => 2 + body,
        "tag_mid" => 2 + body + 8,
        "last" => 2 + l - 1,
        p => return Err(format!("bad truncation point {p}")),
    })
}

/// returns (attacked stream, max plaintext bytes that may be delivered, clean EOF acceptable)
fn apply_attack(ct: &[u8], frames: &[(usize, usize)], a: &Attack) -> Result<(Vec<u8>, usize, bool), String> {
    let plain_start = |i: usize| -> usize { frames[..i].iter().map(|(_, l)| l - 16).sum() };
    let total: usize = plain_start(frames.len());
    let fr = |i: usize| -> Result<&[u8], String> {
        let (s, l) = *frames.get(i).ok_or(format!("no frame {i}"))?;
        Ok(&ct[s..s + 2 + l])
    };
    Ok(match a {
        Attack::Passthrough => (ct.to_vec(), total, true),
        Attack::Flip { frame, pos, mask } => {
            let (s, l) = *frames.get(*frame).ok_or(format!("no frame {frame}"))?;
            let mut v = ct.to_vec();
            v[s + flip_rel(pos, l)?] ^= *mask;
            (v, plain_start(*frame), false)
        }
        Attack::Drop { frame } => {
            let (s, l) = *frames.get(*frame).ok_or(format!("no frame {frame}"))?;
            let mut v = ct[..s].to_vec();
            v.extend_from_slice(&ct[s + 2 + l..]);
            (v, plain_start(*frame), *frame + 1 == frames.len())
        }
        Attack::Dup { frame } => {
            let (s, l) = *frames.get(*frame).ok_or(format!("no frame {frame}"))?;
            let mut v = ct[..s + 2 + l].to_vec();
            v.extend_from_slice(fr(*frame)?);
            v.extend_from_slice(&ct[s + 2 + l..]);
            (v, plain_start(*frame + 1), false)
        }
        Attack::ReplayAtEnd { frame } => {
            let mut v = ct.to_vec();
            v.extend_from_slice(fr(*frame)?);
            (v, total, false)
        }
        Attack::Swap { i, j } => {
            let mut v = Vec::with_capacity(ct.len());
            for k in 0..frames.len() {
                let src = if k == *i {
                    *j
                } else if k == *j {
                    *i
                } else {
                    k
                };
                v.extend_from_slice(fr(src)?);
            }
            (v, plain_start((*i).min(*j)), false)
        }
        Attack::Truncate { frame, at } => {
            let (s, l) = *frames.get(*frame).ok_or(format!("no frame {frame}"))?;
            let rel = trunc_rel(at, l)?;
            (ct[..s + rel].to_vec(), plain_start(*frame), rel == 0)
        }
    })
}

// ---------------------------------------------------------------------------------------------------------
// one run
// ---------------------------------------------------------------------------------------------------------

type Sock = NoiseSocket<Io>;

fn run_inner(case: &Case) -> Obs {
    let rt = driver::runtime(1);
    let case = case.clone();
    rt.block_on(async move {
        let obs: Arc<Mutex<Obs>> = Arc::new(Mutex::new(Obs::default()));
        let ctl_r = Arc::new(Mutex::new(CutCtl::default()));
        let ctl_w = Arc::new(Mutex::new(CutCtl::default()));
        let capture = Arc::new(AtomicBool::new(false));
        let guard = Arc::new(Guard::default());
        let mut d = driver::Driver::new();

        // reader -> writer direction: untouched default pipe
        let (w_back, r_back, _h_back) = pipe::pipe(pipe::Policy::default());
        // writer -> reader direction
        let (w1, r1, h_in) = pipe::pipe(pipe::Policy::default());
        let (io_w, io_r, h_out) = match &case.attack {
            None => (
                Io { r: CutReader { inner: r_back, ctl: ctl_w.clone() }, w: w1, guard: guard.clone() },
                Io { r: CutReader { inner: r1, ctl: ctl_r.clone() }, w: w_back, guard: guard.clone() },
                h_in.clone(),
            ),
            Some(attack) => {
                let (mut w2, r2, h2) = pipe::pipe(pipe::Policy::default());
                let attack = attack.clone();
                let cap_flag = capture.clone();
                let o = obs.clone();
                let mut r1 = r1;
                // the man in the middle: forwards during the handshake, then captures the whole transfer,
                // performs the attack offline and delivers the result to the reader's pipe, then closes it
                d.spawn("mitm", async move {
                    let mut buf = vec![0u8; 70_000];
                    let mut cap: Vec<u8> = Vec::new();
                    loop {
                        match r1.read(&mut buf).await {
                            Ok(0) | Err(_) => break,
                            Ok(n) => {
                                if cap_flag.load(Ordering::SeqCst) {
                                    cap.extend_from_slice(&buf[..n]);
                                } else if w2.write_all(&buf[..n]).await.is_err() {
                                    o.lock().mitm_error = Some("forwarding failed".into());
                                    return;
                                }
                            }
                        }
                    }
                    let (frames, tail) = parse_frames(&cap);
                    {
                        let mut o = o.lock();
                        o.frames = frames.clone();
                        o.partial_tail = tail;
                        o.ct_len = cap.len();
                    }
                    match apply_attack(&cap, &frames, &attack) {
                        Ok((stream, limit, boundary)) => {
                            {
                                let mut o = o.lock();
                                o.limit = Some(limit);
                                o.boundary_cut = boundary;
                            }
                            if w2.write_all(&stream).await.is_err() {
                                o.lock().mitm_error = Some("delivery failed".into());
                            }
                        }
                        Err(e) => o.lock().mitm_error = Some(e),
                    }
                    let _ = w2.close().await;
                });
                (
                    Io { r: CutReader { inner: r_back, ctl: ctl_w.clone() }, w: w1, guard: guard.clone() },
                    Io { r: CutReader { inner: r2, ctl: ctl_r.clone() }, w: w_back, guard: guard.clone() },
                    h2,
                )
            }
        };

        // ---- phase 1: honest handshake over the default carrier
        let slot_w: Arc<Mutex<Option<Sock>>> = Arc::new(Mutex::new(None));
        let slot_r: Arc<Mutex<Option<Sock>>> = Arc::new(Mutex::new(None));
        let (role_w, role_r) = if case.writer_dialer {
            (Role::Dialer, Role::Listener)
        } else {
            (Role::Listener, Role::Dialer)
        };
        for (name, io, role, seed, slot) in [
            ("hs-writer", io_w, role_w, 1u64, slot_w.clone()),
            ("hs-reader", io_r, role_r, 2u64, slot_r.clone()),
        ] {
            let key = crate::util::keypair(seed);
            let o = obs.clone();
            let (raf, wbs) = (case.raf, case.wbs);
            d.spawn(name, async move {
                match handshake(io, &key, role, raf, wbs, Duration::from_secs(10), HandshakeTransport::Tcp).await {
                    Ok((sock, _peer)) => *slot.lock() = Some(sock),
                    Err(e) => o.lock().hs_errors.push(format!("{name}: {e:?}")),
                }
            });
        }
        d.run_until_stalled(1_000_000);
        let (Some(mut sock_w), Some(mut sock_r)) = (slot_w.lock().take(), slot_r.lock().take()) else {
            let mut o = obs.lock();
            if o.hs_errors.is_empty() {
                o.hs_errors.push("handshake stalled".into());
            }
            return o.clone();
        };

        // ---- phase 2: the transfer under the scripted carrier
        let base_in = h_in.stats();
        let base_out = h_out.stats();
        let base_log = h_in.log().len();
        {
            let c = case.carrier.clone();
            let (bw, bf) = (base_in.write_ops, base_in.flush_ops);
            h_in.set_policy(|p| {
                p.write_accept = if c.write_accept == 0 { usize::MAX } else { c.write_accept };
                p.window = if c.window == 0 { usize::MAX } else { c.window };
                p.pending_writes = c.pend_w.iter().map(|k| bw + k).collect::<BTreeSet<u64>>();
                p.pending_flushes = c.pend_f.iter().map(|k| bf + k).collect::<BTreeSet<u64>>();
            });
            let c = case.carrier.clone();
            let br = base_out.read_ops;
            h_out.set_policy(|p| {
                p.read_chunk = if c.read_chunk == 0 { usize::MAX } else { c.read_chunk };
                p.pending_reads = c.pend_r.iter().map(|k| br + k).collect::<BTreeSet<u64>>();
            });
            let mut ctl = ctl_r.lock();
            let p = ctl.pos;
            ctl.cuts = case.carrier.cuts.iter().map(|c| c + p).collect();
            ctl.cuts.sort();
        }
        capture.store(true, Ordering::SeqCst);

        let sizes = case.sizes.clone();
        let mode = case.mode;
        let o = obs.clone();
        let park_w: Arc<Mutex<Option<Sock>>> = Arc::new(Mutex::new(None));
        let pw = park_w.clone();
        d.spawn("writer", async move {
            let mut acc = 0usize;
            let mut failed = false;
            'seq: for (wi, &sz) in sizes.iter().enumerate() {
                let chunk: Vec<u8> = (0..sz).map(|j| pat(acc + j)).collect();
                let mut off = 0usize;
                loop {
                    match sock_w.write(&chunk[off..]).await {
                        Ok(0) => {
                            o.lock().write_zero = Some(wi);
                            failed = true;
                            break 'seq;
                        }
                        Ok(n) => {
                            off += n;
                            acc += n;
                            o.lock().accepted = acc;
                        }
                        Err(e) => {
                            o.lock().write_err = Some((kind(&e), sz - off, wi));
                            failed = true;
                            break 'seq;
                        }
                    }
                    if off >= sz || mode == Mode::RawOnce {
                        break;
                    }
                }
                if mode == Mode::FlushPoke {
                    let polled = std::future::poll_fn(|cx| Poll::Ready(Pin::new(&mut sock_w).poll_flush(cx))).await;
                    match polled {
                        Poll::Ready(Ok(())) => o.lock().flushed = acc,
                        Poll::Ready(Err(e)) => {
                            o.lock().flush_err = Some(kind(&e));
                            failed = true;
                            break 'seq;
                        }
                        Poll::Pending => {}
                    }
                }
                if mode == Mode::FlushEach {
                    match sock_w.flush().await {
                        Ok(()) => o.lock().flushed = acc,
                        Err(e) => {
                            o.lock().flush_err = Some(kind(&e));
                            failed = true;
                            break 'seq;
                        }
                    }
                }
            }
            if !failed && mode != Mode::CloseOnly {
                match sock_w.flush().await {
                    Ok(()) => o.lock().flushed = acc,
                    Err(e) => o.lock().flush_err = Some(kind(&e)),
                }
            }
            // close flushes whatever was accepted; done after an error as well (an application would drop the
            // connection, which is the same for the carrier)
            match sock_w.close().await {
                Ok(()) => {
                    let mut o = o.lock();
                    o.closed_ok = true;
                    if o.flush_err.is_none() {
                        o.flushed = acc;
                    }
                }
                Err(e) => o.lock().close_err = Some(kind(&e)),
            }
            o.lock().writer_done = true;
            *pw.lock() = Some(sock_w);
        });

        let o = obs.clone();
        let rbuf = case.rbuf;
        let cap_total = case.total() + 64;
        let park_r: Arc<Mutex<Option<Sock>>> = Arc::new(Mutex::new(None));
        let pr = park_r.clone();
        d.spawn("reader", async move {
            let mut buf = vec![0u8; rbuf];
            let mut got = 0usize;
            let mut mismatch = None;
            let term;
            loop {
                match sock_r.read(&mut buf[..]).await {
                    Ok(0) => {
                        term = Term::Eof;
                        break;
                    }
                    Ok(n) => {
                        if n > buf.len() {
                            o.lock().oversize = Some((n, buf.len()));
                            term = Term::Overrun;
                            break;
                        }
                        if mismatch.is_none() {
                            for (j, &b) in buf[..n].iter().enumerate() {
                                if b != pat(got + j) {
                                    mismatch = Some((got + j, b, pat(got + j)));
                                    break;
                                }
                            }
                        }
                        got += n;
                        if got > cap_total {
                            term = Term::Overrun;
                            break;
                        }
                    }
                    Err(e) => {
                        term = Term::Err(kind(&e));
                        break;
                    }
                }
            }
            {
                let mut o = o.lock();
                o.got = got;
                o.mismatch = mismatch;
                o.term = Some(term.clone());
                o.end_before_close = !o.writer_done;
            }
            if matches!(term, Term::Err(_)) {
                // one more read after the error: must not hand out anything
                let post = match AssertUnwindSafe(sock_r.read(&mut buf[..])).catch_unwind().await {
                    Err(_) => Post::Panic(e1::take_panic()),
                    Ok(Ok(0)) => Post::Eof,
                    Ok(Ok(n)) => Post::Bytes(n),
                    Ok(Err(e)) => Post::Err(kind(&e)),
                };
                o.lock().post = Some(post);
            }
            o.lock().reader_done = true;
            // keep the socket (and with it the carrier halves) alive until the run is over
            *pr.lock() = Some(sock_r);
        });

        let finished = d.run_until_stalled(50_000_000);
        let mut o = obs.lock().clone();
        o.step_cap_hit = !finished;
        o.guard_tripped = guard.tripped.load(Ordering::SeqCst);
        o.guard_counts = (guard.ops.load(Ordering::Relaxed), guard.bytes_written.load(Ordering::Relaxed));
        o.driver_steps = d.steps;
        let s_in = h_in.stats();
        let s_out = h_out.stats();
        o.ops = (
            s_out.read_ops - base_out.read_ops,
            s_in.write_ops - base_in.write_ops,
            s_in.flush_ops - base_in.flush_ops,
        );
        o.injected = (s_in.injected_pending - base_in.injected_pending)
            + if case.attack.is_none() { 0 } else { s_out.injected_pending - base_out.injected_pending };
        if case.attack.is_none() {
            let log = h_in.log();
            let (frames, tail) = parse_frames(&log[base_log..]);
            o.frames = frames;
            o.partial_tail = tail;
            o.ct_len = log.len() - base_log;
        }
        drop(d);
        drop(park_w);
        drop(park_r);
        o
    })
}

// ---------------------------------------------------------------------------------------------------------
// oracle
// ---------------------------------------------------------------------------------------------------------

fn judge(case: &Case, o: &Obs) -> Vec<(String, String)> {
    let mut v: Vec<(String, String)> = Vec::new();
    let cj = serde_json::to_string(case).unwrap();
    let mut add = |sig: String, what: String| v.push((sig, format!("{what}; case={cj}")));

    if !o.hs_errors.is_empty() {
        add("honest/handshake-failed".into(), format!("honest handshake did not complete: {:?}", o.hs_errors));
        return v;
    }
    if let Some(e) = &o.mitm_error {
        add("machinery/mitm".into(), format!("man-in-the-middle could not perform the attack: {e}"));
        return v;
    }
    let tamper = matches!(&case.attack, Some(a) if *a != Attack::Passthrough);
    let pfx = if tamper { "tamper" } else { "honest" };

    // termination: never wait in real time; a stalled driver with unfinished tasks is a hang
    if o.guard_tripped {
        add(
            format!("hang/runaway-{pfx}"),
            format!(
                "a socket kept operating on the carrier without bound ({} carrier ops, {} bytes written for a \
                 {}-byte transfer) and was stopped by the harness guard",
                o.guard_counts.0,
                o.guard_counts.1,
                case.total()
            ),
        );
        return v;
    }
    if o.step_cap_hit {
        add(format!("hang/livelock-{pfx}"), format!("driver step cap hit after {} steps", o.driver_steps));
    } else if o.reader_done && !o.writer_done && o.end_before_close {
        // the reader gave up early (reported below); a writer then blocked by flow control is a consequence
    } else if !o.writer_done || !o.reader_done {
        let who = match (o.writer_done, o.reader_done) {
            (false, false) => "writer+reader",
            (false, true) => "writer",
            _ => "reader",
        };
        add(
            format!("hang/{pfx}-{who}"),
            format!(
                "all tasks Pending and nobody woken: {who} never finished (accepted={} flushed={} delivered={} \
                 frames_on_wire={} ciphertext_bytes={})",
                o.accepted,
                o.flushed,
                o.got,
                o.frames.len(),
                o.ct_len
            ),
        );
    }

    // writer side: an honest socket over a healthy carrier must accept every write
    if let Some((k, call_len, wi)) = &o.write_err {
        let sig = if k == "InvalidData" && *call_len >= SNOW_REFUSES_FROM {
            "honest/write-error/frame-limit".to_string()
        } else {
            format!("honest/write-error/{k}")
        };
        add(
            sig,
            format!(
                "write #{wi} ({} bytes, {call_len} bytes handed to the failing poll_write) returned Err({k}) on an \
                 honest socket; expected Ok",
                case.sizes[*wi]
            ),
        );
    }
    if let Some(wi) = o.write_zero {
        add("honest/write-zero".into(), format!("write #{wi} of {} bytes returned Ok(0)", case.sizes[wi]));
    }
    if let Some(k) = &o.flush_err {
        add(format!("honest/flush-error/{k}"), format!("flush returned Err({k}) on an honest socket"));
    }
    if let Some(k) = &o.close_err {
        add(format!("honest/close-error/{k}"), format!("close returned Err({k}) on an honest socket"));
    }

    // reader side
    if let Some((n, b)) = o.oversize {
        add(format!("{pfx}/read-returned-more-than-buffer"), format!("read returned {n} for a {b}-byte buffer"));
    }
    if let Some((i, got, exp)) = o.mismatch {
        let sig = if tamper { "tamper/altered-plaintext-delivered" } else { "honest/corrupt-byte" };
        add(
            sig.into(),
            format!(
                "delivered byte #{i} is {got:#04x}, FIFO has {exp:#04x} there ({} bytes delivered, {} accepted)",
                o.got, o.accepted
            ),
        );
    }
    if o.got > o.accepted || o.term == Some(Term::Overrun) {
        add(
            format!("{pfx}/extra-bytes"),
            format!("reader received {} bytes but only {} were ever accepted from the writer", o.got, o.accepted),
        );
    }

    if !tamper {
        // everything the writer got flushed / closed must arrive before the end-of-stream indication
        if o.reader_done {
            if o.end_before_close && o.term != Some(Term::Overrun) {
                add(
                    "honest/end-before-close".into(),
                    format!(
                        "reader's stream ended ({:?}) after {} bytes while the writer had not closed yet \
                         (accepted so far {})",
                        o.term, o.got, o.accepted
                    ),
                );
            }
            let required = o.flushed;
            if o.got < required {
                add(
                    "honest/short-delivery".into(),
                    format!(
                        "stream ended ({:?}) after {} bytes although {} bytes were accepted and flushed \
                         (loss or early end-of-stream)",
                        o.term, o.got, required
                    ),
                );
            }
            match &o.term {
                Some(Term::Eof) => {}
                // Noise has no close_notify; litep2p reports the closed carrier as UnexpectedEof. The property
                // is silent about how end-of-stream is signalled, so both are accepted.
                Some(Term::Err(k)) if k == "UnexpectedEof" => {}
                Some(Term::Err(k)) => add(
                    format!("honest/read-error/{k}"),
                    format!("reader got Err({k}) after {} of {} bytes on an untouched stream", o.got, o.accepted),
                ),
                _ => {}
            }
            if let Some(Post::Bytes(n)) = &o.post {
                add("honest/bytes-after-end".into(), format!("{n} bytes delivered after the stream had ended with an error"));
            }
            if let Some(Post::Panic(m)) = &o.post {
                add("panic/read-after-end".into(), format!("read after end-of-stream panicked at {}: {m}", site(m)));
            }
        }
    } else if o.reader_done {
        let limit = o.limit.unwrap_or(0);
        let a = case.attack.as_ref().unwrap();
        if o.got > limit {
            add(
                format!("tamper/delivered-beyond-attack/{}", a.kind()),
                format!(
                    "{} plaintext bytes delivered although only the {} bytes before the attacked frame are \
                     authentic and in order",
                    o.got, limit
                ),
            );
        }
        match &o.term {
            Some(Term::Err(_)) => {}
            Some(Term::Eof) if o.boundary_cut => {}
            Some(Term::Eof) => add(
                format!("tamper/clean-eof/{}", a.kind()),
                format!("reader saw a clean end-of-stream after {} bytes instead of an error", o.got),
            ),
            _ => {}
        }
        match &o.post {
            Some(Post::Bytes(n)) => add(
                "tamper/bytes-after-error".into(),
                format!("{n} bytes delivered by the read following the error (delivered before: {})", o.got),
            ),
            Some(Post::Panic(_)) => {
                // Outside the statement: the read returned the required error and nothing altered was delivered; what a
                // *further* poll after that error does is not constrained by C02. Counted as an observation.
                PANIC_AFTER_ERROR_OBSERVED.fetch_add(1, std::sync::atomic::Ordering::Relaxed);
            }
            _ => {}
        }
    }
    v
}

/// reads that panicked when the socket was polled again after it had already returned the required error
pub static PANIC_AFTER_ERROR_OBSERVED: std::sync::atomic::AtomicU64 = std::sync::atomic::AtomicU64::new(0);

pub fn run_case(case: &Case) -> Outcome {
    match std::panic::catch_unwind(AssertUnwindSafe(|| run_inner(case))) {
        Ok(obs) => {
            let viols = judge(case, &obs);
            Outcome { obs, viols }
        }
        Err(_) => {
            let msg = e1::take_panic();
            Outcome {
                obs: Obs::default(),
                viols: vec![(
                    format!("panic/{}", site(&msg)),
                    format!("panic during the run: {msg}; case={}", serde_json::to_string(case).unwrap()),
                )],
            }
        }
    }
}

fn run_all(cases: &[Case]) -> Vec<Outcome> {
    let threads = std::thread::available_parallelism().map(|n| n.get()).unwrap_or(4).min(32);
    let next = AtomicUsize::new(0);
    let slots: Vec<Mutex<Option<Outcome>>> = (0..cases.len()).map(|_| Mutex::new(None)).collect();
    std::thread::scope(|s| {
        for _ in 0..threads {
            s.spawn(|| loop {
                let i = next.fetch_add(1, Ordering::SeqCst);
                if i >= cases.len() {
                    break;
                }
                *slots[i].lock() = Some(run_case(&cases[i]));
            });
        }
    });
    slots.into_iter().map(|m| m.into_inner().expect("every case ran")).collect()
}

// ---------------------------------------------------------------------------------------------------------
// enumeration
// ---------------------------------------------------------------------------------------------------------

const B: [usize; 18] = [
    1, 2, 15, 16, 17, 255, 256, 30000, 40000, 65518, 65519, 65520, 65521, 65535, 65536, 131040, 131041, 200000,
];
const RBUFS: [usize; 9] = [1, 2, 16, 17, 4096, 65519, 65520, 65536, 200000];

fn cfgs() -> Vec<(usize, usize)> {
    let mut v = Vec::new();
    for raf in [1, 2, 5] {
        for wbs in [1, 2, 3] {
            v.push((raf, wbs));
        }
    }
    v
}

fn sequences(pairs: &[usize], triples: &[usize], extra: &[Vec<usize>]) -> Vec<Vec<usize>> {
    let mut seqs: Vec<Vec<usize>> = B.iter().map(|&s| vec![s]).collect();
    for &a in pairs {
        for &b in pairs {
            seqs.push(vec![a, b]);
        }
    }
    for &a in triples {
        for &b in triples {
            for &c in triples {
                seqs.push(vec![a, b, c]);
            }
        }
    }
    for e in extra {
        seqs.push(e.clone());
    }
    // simplest first; drop duplicates
    seqs.sort_by_key(|s| (s.len(), s.iter().sum::<usize>(), s.clone()));
    seqs.dedup();
    seqs
}

struct Batch {
    name: &'static str,
    cases: Vec<Case>,
}

#[derive(Default)]
struct SubStats {
    runs: u64,
    distinct: HashSet<u128>,
    nontrivial: HashSet<u128>,
    violating_runs: u64,
    by_sig: BTreeMap<String, u64>,
    bytes_delivered: u64,
    frames_on_wire: u64,
    multi_frame_runs: u64,
    aux_tail_forced: u64,
    injected_pending: u64,
    terms: BTreeMap<String, u64>,
    post: BTreeMap<String, u64>,
    full_prefix_delivered: u64,
}

fn nontrivial(case: &Case, o: &Obs) -> bool {
    o.frames.len() >= 2 || !case.carrier.is_default() || matches!(&case.attack, Some(a) if *a != Attack::Passthrough)
}

fn absorb(ctx: &mut Ctx, name: &str, cases: &[Case], outs: &[Outcome], all: &mut SubStats, quota: usize) {
    let mut st = SubStats::default();
    for (c, out) in cases.iter().zip(outs) {
        let h = c.hash();
        let o = &out.obs;
        for s in [&mut st, &mut *all] {
            s.runs += 1;
            s.distinct.insert(h);
            if nontrivial(c, o) {
                s.nontrivial.insert(h);
            }
            s.bytes_delivered += o.got as u64;
            s.frames_on_wire += o.frames.len() as u64;
            if o.frames.len() >= 2 {
                s.multi_frame_runs += 1;
            }
            // a frame that cannot fit below `canonical_max_read` has to use the auxiliary tail of the read buffer
            if o.ct_len > c.raf * 65536 {
                s.aux_tail_forced += 1;
            }
            s.injected_pending += o.injected;
            let t = match &o.term {
                Some(Term::Eof) => "Ok(0)".to_string(),
                Some(Term::Err(k)) => format!("Err({k})"),
                Some(Term::Overrun) => "overrun".to_string(),
                None => "none".to_string(),
            };
            *s.terms.entry(t).or_default() += 1;
            if let Some(p) = &o.post {
                let p = match p {
                    Post::Panic(m) => format!("panic@{}", site(m)),
                    Post::Err(k) => format!("Err({k})"),
                    Post::Eof => "Ok(0)".into(),
                    Post::Bytes(_) => "bytes".into(),
                };
                *s.post.entry(p).or_default() += 1;
            }
            if let Some(l) = o.limit {
                if o.got == l {
                    s.full_prefix_delivered += 1;
                }
            }
            if !out.viols.is_empty() {
                s.violating_runs += 1;
            }
            for (sig, _) in &out.viols {
                *s.by_sig.entry(sig.clone()).or_default() += 1;
            }
        }
        for (sig, what) in &out.viols {
            ctx.violation(Violation {
                signature: sig.clone(),
                what: what.clone(),
                replay: serde_json::to_value(c).unwrap(),
            });
        }
    }
    // samples: first, middle and last case of the batch
    if !cases.is_empty() {
        let mut idx = vec![cases.len() / 2, cases.len() - 1, 0];
        idx.dedup();
        idx.truncate(quota);
        for i in idx {
            let o = &outs[i].obs;
            ctx.sample(json!({
                "grid": name,
                "case": serde_json::to_value(&cases[i]).unwrap(),
                "accepted": o.accepted, "delivered": o.got, "frames": o.frames.len(), "ciphertext_bytes": o.ct_len,
                "end": format!("{:?}", o.term), "carrier_ops_rwf": [o.ops.0, o.ops.1, o.ops.2],
                "violations": outs[i].viols.iter().map(|(s, _)| s.clone()).collect::<Vec<_>>(),
            }));
        }
    }
    ctx.sub(
        name,
        json!({
            "runs": st.runs,
            "distinct_cases": st.distinct.len(),
            "distinct_nontrivial": st.nontrivial.len(),
            "multi_frame_runs": st.multi_frame_runs,
            "frames_on_wire": st.frames_on_wire,
            "plaintext_bytes_delivered": st.bytes_delivered,
            "runs_forcing_auxiliary_tail": st.aux_tail_forced,
            "spurious_pending_injected": st.injected_pending,
            "end_of_stream_seen_as": st.terms,
            "read_after_error": st.post,
            "tamper_runs_delivering_full_authentic_prefix": st.full_prefix_delivered,
            "violating_runs": st.violating_runs,
            "violations_by_signature": st.by_sig,
        }),
    );
}

fn cuts_for(frames: &[(usize, usize)]) -> Vec<Vec<u64>> {
    // one split 0/1/2/3 bytes into each frame and 1 byte before its end, then the same offset in EVERY frame
    let mut v: Vec<Vec<u64>> = Vec::new();
    for &(s, l) in frames {
        for d in [0usize, 1, 2, 3] {
            if s + d > 0 {
                v.push(vec![(s + d) as u64]);
            }
        }
        v.push(vec![(s + 2 + l - 1) as u64]);
    }
    if frames.len() >= 2 {
        for d in [1usize, 2, 3] {
            v.push(frames.iter().map(|&(s, _)| (s + d) as u64).collect());
        }
        v.push(frames.iter().map(|&(s, l)| (s + 2 + l - 1) as u64).collect());
    }
    v.sort();
    v.dedup();
    v
}

/// A maximum-size frame whose length prefix starts at every offset in the last bytes of the reader's read-ahead window
/// (raf x 65536 bytes), the whole transfer waiting in the socket before the reader runs (relayed in one go).
/// Frame = payload + 18 bytes; 65519 is the largest payload. Also used by C19 (no panic on peer-chosen frame lengths).
pub fn read_ahead_boundary_cases() -> Vec<Case> {
    let mut v = Vec::new();
    for (raf, full_frames) in [(1usize, 0usize), (5, 4)] {
        let window = raf * 65536;
        for offset in (window - 60)..=(window + 4) {
            let filler = offset.checked_sub(full_frames * 65537 + 18);
            if let Some(p) = filler.filter(|p| (1..=65519).contains(p)) {
                let mut sizes = vec![65519; full_frames];
                sizes.push(p);
                sizes.push(65519);
                let mut c = Case::honest(&sizes, Mode::FlushEach, 65536, raf, 2);
                c.attack = Some(Attack::Passthrough);
                v.push(c);
            }
        }
    }
    v
}

/// violations (signature, description) of one case; for C19
pub fn violations_of(case: &Case) -> Vec<(String, String)> {
    run_case(case).viols
}

pub fn run(ctx: &mut Ctx) {
    let quick = ctx.tier == crate::report::Tier::Quick;
    let mut all = SubStats::default();
    let mut exhaustive = true;

    // representative sequences that get the full carrier grid (always part of grid 1 so that a dry run exists)
    let rep: Vec<Vec<usize>> = vec![
        vec![65519],
        vec![65520],
        vec![40000, 40000],
        vec![131041],
        vec![1, 65520, 1],
        vec![100, 65519, 1],
        vec![65519, 65519, 65519],
        vec![17, 1, 16, 2],
        // 200000 bytes written the only way that works: in pieces below the frame limit
        vec![65519, 65519, 65519, 3443],
    ];

    // ---------------- grid 1: sizes x reader buffers x (read_ahead, write_buffer), default carrier
    let pairs: &[usize] =
        ctx.tier.pick(&[1, 17, 30000, 40000, 65519, 65520][..], &[1, 16, 17, 256, 30000, 40000, 65518, 65519, 65520, 131041][..]);
    let triples: &[usize] = ctx.tier.pick(&[1, 40000, 65519, 65520][..], &[1, 17, 30000, 40000, 65519, 65520][..]);
    let seqs = sequences(pairs, triples, &rep);
    let mut g1 = Vec::new();
    for s in &seqs {
        for &rbuf in &RBUFS {
            for (raf, wbs) in cfgs() {
                g1.push(Case::honest(s, Mode::FlushEach, rbuf, raf, wbs));
                g1.push(Case::honest(s, Mode::CloseOnly, rbuf, raf, wbs));
                if s.len() > 1 {
                    g1.push(Case::honest(s, Mode::FlushEnd, rbuf, raf, wbs));
                    g1.push(Case::honest(s, Mode::FlushPoke, rbuf, raf, wbs));
                }
            }
        }
    }
    let o1 = run_all(&g1);
    absorb(ctx, "grid1_sizes_x_rbuf_x_cfg_default_carrier", &g1, &o1, &mut all, 2);
    // dry-run knowledge for the later grids
    let mut dry: HashMap<u128, (Vec<(usize, usize)>, (u64, u64, u64))> = HashMap::new();
    for (c, o) in g1.iter().zip(&o1) {
        dry.insert(c.hash(), (o.obs.frames.clone(), o.obs.ops));
    }
    drop(o1);

    // ---------------- grid 1b: raw single `write()` per size, FIFO = accepted bytes only
    let mut g1b = Vec::new();
    let raw_rbufs: &[usize] = ctx.tier.pick(&[1, 17, 65519, 65536][..], &RBUFS[..]);
    for s in &seqs {
        if quick && s.len() > 2 {
            continue;
        }
        for &rbuf in raw_rbufs {
            for (raf, wbs) in cfgs() {
                g1b.push(Case::honest(s, Mode::RawOnce, rbuf, raf, wbs));
            }
        }
    }
    // ---------------- grid 1c: responder as the writer
    let mut g1c = Vec::new();
    for &s in &B {
        for rbuf in [1usize, 4096, 65536] {
            for (raf, wbs) in [(1, 1), (5, 2)] {
                let mut c = Case::honest(&[s], Mode::FlushEach, rbuf, raf, wbs);
                c.writer_dialer = false;
                g1c.push(c);
            }
        }
    }
    for s in [vec![40000, 40000], vec![100, 65519, 1]] {
        for rbuf in [1usize, 65536] {
            for mode in [Mode::FlushEach, Mode::FlushEnd] {
                let mut c = Case::honest(&s, mode, rbuf, 1, 1);
                c.writer_dialer = false;
                g1c.push(c);
            }
        }
    }
    // ---------------- grid 1d: every single-write size around the frame limit
    let mut g1d = Vec::new();
    for s in 65500usize..=65540 {
        g1d.push(Case::honest(&[s], Mode::FlushEach, 65536, 5, 2));
    }

    // ---------------- grid 1e: a maximum-size frame whose length prefix starts at every offset in the last bytes of the
    // reader's read-ahead window (raf x 65536 bytes), with the whole transfer waiting in the socket before the reader
    // runs (the relay delivers it in one go). Frame = payload + 18 bytes; 65519 is the largest payload.
    let g1e = read_ahead_boundary_cases();

    // ---------------- grid 2: representative sequences x full carrier grid
    let g2_rbufs: &[usize] = ctx.tier.pick(&[1, 17, 65536][..], &[1, 2, 17, 4096, 65519, 65536][..]);
    let g2_cfgs: &[(usize, usize)] = ctx.tier.pick(&[(1, 1), (5, 2)][..], &[(1, 1), (1, 3), (2, 2), (5, 1), (5, 2)][..]);
    let mut g2 = Vec::new();
    let mut g3 = Vec::new();
    let mut g3_pairs_done = Vec::new();
    let mut op_cap_hit = false;
    for s in &rep {
        let modes: &[Mode] =
            if s.len() > 1 { &[Mode::FlushEach, Mode::FlushEnd, Mode::FlushPoke, Mode::CloseOnly] } else { &[Mode::FlushEach, Mode::CloseOnly] };
        for &mode in modes {
            for &rbuf in g2_rbufs {
                for &(raf, wbs) in g2_cfgs {
                    let base = Case::honest(s, mode, rbuf, raf, wbs);
                    let Some((frames, ops)) = dry.get(&base.hash()).cloned() else {
                        ctx.machinery_error(format!("no dry run for {base:?}"));
                        continue;
                    };
                    let ct_total: usize = frames.iter().map(|(_, l)| l + 2).sum();
                    let biggest = frames.iter().map(|(_, l)| l + 2).max().unwrap_or(0);
                    // reader-side shapes
                    let mut rshapes: Vec<(usize, Vec<u64>)> = vec![(0, vec![]), (2, vec![]), (3, vec![]), (65537, vec![])];
                    if ct_total <= 4096 + 64 {
                        rshapes.push((1, vec![]));
                    }
                    for cuts in cuts_for(&frames) {
                        rshapes.push((0, cuts));
                    }
                    // writer-side shapes
                    let mut accepts = vec![0usize];
                    if biggest > 1 {
                        accepts.push(biggest - 1);
                    }
                    if ct_total <= 4096 + 64 {
                        accepts.push(1);
                    }
                    let mut wshapes = Vec::new();
                    for &a in &accepts {
                        for w in [0usize, 65536, 10] {
                            wshapes.push((a, w));
                        }
                    }
                    for (ri, (chunk, cuts)) in rshapes.iter().enumerate() {
                        if mode == Mode::CloseOnly && ri > 0 {
                            // differs from FlushEnd only on the writer's side: the writer-side shapes over the plain reader
                            break;
                        }
                        if mode == Mode::FlushPoke {
                            // differs from FlushEach only where a carrier flush is Pending: grid 3 and the window shapes
                            break;
                        }
                        for &(accept, window) in &wshapes {
                            let mut c = base.clone();
                            c.carrier = Carrier {
                                read_chunk: *chunk,
                                cuts: cuts.clone(),
                                write_accept: accept,
                                window,
                                ..Carrier::default()
                            };
                            if !c.carrier.is_default() {
                                g2.push(c);
                            }
                        }
                    }

                    // ---------------- grid 3: spurious Pending, <= 2 deviations, on the default carrier
                    if mode == Mode::CloseOnly && s.len() > 1 {
                        continue;
                    }
                    if !(rbuf == g2_rbufs[0] || rbuf == *g2_rbufs.last().unwrap()) {
                        continue;
                    }
                    const OP_CAP: u64 = 48;
                    let mut points: Vec<(char, u64)> = Vec::new();
                    for (cls, n) in [('r', ops.0), ('w', ops.1), ('f', ops.2)] {
                        if n + 1 > OP_CAP {
                            op_cap_hit = true;
                        }
                        // one index past the dry-run count: an injected Pending can add an op
                        for k in 0..(n + 1).min(OP_CAP) {
                            points.push((cls, k));
                        }
                    }
                    let mk = |pts: &[(char, u64)]| {
                        let mut c = base.clone();
                        for &(cls, k) in pts {
                            match cls {
                                'r' => c.carrier.pend_r.push(k),
                                'w' => c.carrier.pend_w.push(k),
                                _ => c.carrier.pend_f.push(k),
                            }
                        }
                        c
                    };
                    for p in &points {
                        g3.push(mk(&[*p]));
                    }
                    let pairs_here = !quick || s == &vec![40000, 40000] || s == &vec![100, 65519, 1] || s == &vec![65519];
                    if pairs_here {
                        for i in 0..points.len() {
                            for j in i + 1..points.len() {
                                g3.push(mk(&[points[i], points[j]]));
                            }
                        }
                        if !g3_pairs_done.contains(s) {
                            g3_pairs_done.push(s.clone());
                        }
                    }
                }
            }
        }
    }
    if op_cap_hit {
        exhaustive = false;
    }

    // ---------------- grid 4: tampering with the recorded ciphertext of a real session
    let mut g4 = Vec::new();
    let shapes: [Vec<usize>; 2] = [vec![100, 65519, 1], vec![40000, 40000]];
    let masks: &[u8] = ctx.tier.pick(&[0x01, 0x80][..], &[0x01, 0x02, 0x04, 0x08, 0x10, 0x20, 0x40, 0x80][..]);
    let t_rbufs: &[usize] = ctx.tier.pick(&[1, 4096, 65536][..], &[1, 17, 4096, 65519, 65536][..]);
    let t_chunks: &[usize] = ctx.tier.pick(&[0, 4099][..], &[0, 3, 4099][..]);
    for shape in &shapes {
        let n = shape.len();
        let mut attacks: Vec<Attack> = vec![Attack::Passthrough];
        for f in 0..n {
            let mut poss: Vec<String> = vec!["len0".into(), "len1".into(), "ct_first".into()];
            if shape[f] >= 3 {
                poss.push("ct_mid".into());
            }
            if shape[f] >= 2 {
                poss.push("ct_last".into());
            }
            for k in 0..16 {
                poss.push(format!("tag{k}"));
            }
            for pos in poss {
                for &mask in masks {
                    attacks.push(Attack::Flip { frame: f, pos: pos.clone(), mask });
                }
            }
            attacks.push(Attack::Drop { frame: f });
            attacks.push(Attack::Dup { frame: f });
            if f + 1 < n {
                attacks.push(Attack::ReplayAtEnd { frame: f });
            }
            for j in f + 1..n {
                attacks.push(Attack::Swap { i: f, j });
            }
            let mut ats = vec!["start", "len1", "hdr", "pre_tag", "tag_mid", "last"];
            if shape[f] >= 2 {
                ats.push("ct_mid");
            }
            for at in ats {
                attacks.push(Attack::Truncate { frame: f, at: at.into() });
            }
        }
        for a in attacks {
            for &rbuf in t_rbufs {
                for raf in [1usize, 5] {
                    for &chunk in t_chunks {
                        for mode in [Mode::FlushEach, Mode::FlushEnd] {
                            if mode == Mode::FlushEnd && (quick && chunk != 0) {
                                continue;
                            }
                            let mut c = Case::honest(shape, mode, rbuf, raf, 2);
                            c.carrier.read_chunk = chunk;
                            c.attack = Some(a.clone());
                            g4.push(c);
                        }
                    }
                }
            }
        }
    }

    for b in [
        Batch { name: "grid1b_raw_single_write_calls", cases: g1b },
        Batch { name: "grid1c_responder_writes", cases: g1c },
        Batch { name: "grid1d_frame_limit_scan_65500_65540", cases: g1d },
        Batch { name: "grid1e_max_frame_at_every_offset_near_read_ahead_window_end", cases: g1e },
        Batch { name: "grid2_representative_sequences_x_carrier_grid", cases: g2 },
        Batch { name: "grid3_spurious_pending_le2_deviations", cases: g3 },
        Batch { name: "grid4_tamper_replay_drop_reorder_truncate", cases: g4 },
    ] {
        let outs = run_all(&b.cases);
        if b.name.starts_with("grid1d") {
            let mut smallest_fail: Option<usize> = None;
            let mut largest_ok: Option<usize> = None;
            for (c, o) in b.cases.iter().zip(&outs) {
                if o.obs.write_err.is_some() {
                    smallest_fail = Some(smallest_fail.map_or(c.sizes[0], |x| x.min(c.sizes[0])));
                } else if o.viols.is_empty() {
                    largest_ok = Some(largest_ok.map_or(c.sizes[0], |x| x.max(c.sizes[0])));
                }
            }
            ctx.cov("single_write_smallest_failing_size", json!(smallest_fail));
            ctx.cov("single_write_largest_passing_size_in_scan", json!(largest_ok));
        }
        if b.name.starts_with("grid3") {
            let max_dev = b.cases.iter().map(|c| c.carrier.deviations()).max().unwrap_or(0);
            ctx.cov(
                "deviation_bound_completed",
                json!({
                    "0": "all grid-1/2 cases",
                    "1": "every single read / write / flush op index of every representative sequence",
                    "2": format!("all unordered pairs of op indices for sequences {:?}", g3_pairs_done),
                    "max_deviations_in_a_case": max_dev,
                    "op_index_cap_hit": op_cap_hit,
                }),
            );
        }
        let quota = if b.name.starts_with("grid1") { 1 } else if b.name.starts_with("grid4") { 3 } else { 2 };
        absorb(ctx, b.name, &b.cases, &outs, &mut all, quota);
    }

    ctx.cov_add("evaluations", all.runs);
    ctx.cov("distinct_cases", all.distinct.len() as u64);
    ctx.cov("distinct_nontrivial", all.nontrivial.len() as u64);
    ctx.cov("multi_frame_runs", all.multi_frame_runs);
    ctx.cov("frames_on_wire", all.frames_on_wire);
    ctx.cov("plaintext_bytes_delivered", all.bytes_delivered);
    ctx.cov("violating_runs", all.violating_runs);
    ctx.cov("violations_by_signature", json!(all.by_sig));
    ctx.cov("exhaustive", exhaustive);
    ctx.cov(
        "rule",
        "every case of the enumerated grids is executed once on a fresh runtime with a fresh honest handshake; \
         `evaluations` counts runs, each judged by the full oracle; `distinct_nontrivial` counts distinct case \
         descriptions (hash of the case JSON) whose run put >= 2 Noise frames on the wire, or used a non-default \
         carrier behaviour (chunking, split, partial write acceptance, window, spurious Pending), or carried an \
         attack other than the pass-through control",
    );
    ctx.cov(
        "observed_panics_on_read_after_error",
        PANIC_AFTER_ERROR_OBSERVED.load(std::sync::atomic::Ordering::Relaxed),
    );
    ctx.assume("what a further poll_read does after the socket already returned the required error is outside the statement: NoiseSocket panics there (`frame_size` to exist); counted in observed_panics_on_read_after_error, not reported");
    ctx.assume(
        "Both ends are the real NoiseSocket produced by an honest litep2p handshake (Noise XX, snow) over an \
         in-memory carrier; the handshake itself runs over the default carrier and is not part of this property.",
    );
    ctx.assume(
        "Noise has no close_notify: truncating the ciphertext exactly at a frame boundary (or dropping the last \
         frame) and closing the carrier is indistinguishable from an honest close, so there a clean end-of-stream \
         after an authentic prefix is accepted; everywhere else the reader must get Err.",
    );
    ctx.assume(
        "The property is silent on how an honest close is signalled: both Ok(0) and Err(UnexpectedEof) after the \
         last byte are accepted as end-of-stream (litep2p always produces the latter); any earlier end is a loss.",
    );
    ctx.assume(
        "After a write error the writer stops writing and closes; bytes accepted before the error must still be \
         delivered if close() succeeded.",
    );
    ctx.assume(
        "Write sizes, reader buffers and (read_ahead, write_buffer) come from the stated boundary sets, not from all \
         integers; read-ahead factors {1,2,5} and write-buffer sizes {1,2,3}.",
    );
    ctx.assume(
        "Spurious Pending is enumerated up to 2 injected deviations on the otherwise default carrier; carrier \
         shapes (chunk / split / accept / window) are crossed with each other but not with Pending injection.",
    );
    ctx.assume("One direction carries data per run; the reverse direction is idle after the handshake.");
}

// ---------------------------------------------------------------------------------------------------------
// replay
// ---------------------------------------------------------------------------------------------------------

pub fn replay(case: &Value) -> Result<String, String> {
    let c: Case = serde_json::from_value(case.clone()).map_err(|e| format!("bad C02 case: {e}"))?;
    let out = run_case(&c);
    let o = &out.obs;
    let mut log = String::new();
    log.push_str(&format!("case: {}\n", serde_json::to_string(&c).unwrap()));
    log.push_str(&format!(
        "writer: accepted={} flushed={} write_err={:?} flush_err={:?} close_err={:?} done={}\n",
        o.accepted, o.flushed, o.write_err, o.flush_err, o.close_err, o.writer_done
    ));
    log.push_str(&format!(
        "wire: {} ciphertext bytes, frames (offset,len)={:?}, partial tail={}, carrier ops r/w/f={:?}, injected Pending={}\n",
        o.ct_len, o.frames, o.partial_tail, o.ops, o.injected
    ));
    log.push_str(&format!(
        "reader: delivered={} first_mismatch={:?} end={:?} read_after_error={:?} done={} (tamper limit={:?})\n",
        o.got, o.mismatch, o.term, o.post, o.reader_done, o.limit
    ));
    if out.viols.is_empty() {
        log.push_str("oracle: ok");
        Ok(log)
    } else {
        for (s, w) in &out.viols {
            log.push_str(&format!("VIOLATION [{s}] {w}\n"));
        }
        Err(log)
    }
}
