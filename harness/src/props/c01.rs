//! C01 — "Noise handshake authenticates the remote peer identity".
//!
//! Fault / input enumeration on the real `litep2p::verif::handshake` (both roles, run as two tasks of the
//! deterministic driver over the scripted duplex carrier):
//!   honest     all ordered pairs of distinct identity keys
//!   tamper     every byte offset of each of the three handshake messages x XOR masks
//!   trunc      EOF at every offset of each direction
//!   subst      whole-frame substitution / replay / reflection through a frame-parsing relay
//!   rogue      a peer written directly on `snow` that completes a VALID Noise session but controls its
//!              identity payload (both roles)
//!   dialed     dialed-peer expectation through the real `TcpConnection::{open,accept}_connection` over a
//!              loopback TCP pair
//!   frag       fragmentations of the honest byte stream (read chunking, first-read split at every offset,
//!              short writes, tiny windows, spurious `Pending` with <= 2 deviations)
//! Every case is an independent execution in its own paused runtime; cases are enumerated completely, run in
//! parallel, and judged sequentially in enumeration order.

use crate::{
    env::{
        driver,
        pipe::{self, End, PipeHandle, PipeReader, PipeWriter, Policy},
    },
    mc::e1::{hash128, panic_site, take_panic},
    report::{Ctx, Violation},
    util,
};
use futures::{AsyncReadExt, AsyncWriteExt};
use litep2p::{
    config::Role,
    crypto::{ed25519::Keypair, PublicKey},
    error::NegotiationError,
    verif::{handshake, HandshakeTransport, NoiseResolver},
    PeerId,
};
use parking_lot::Mutex;
use serde::{Deserialize, Serialize};
use serde_json::{json, Value};
use std::{
    collections::{BTreeMap, BTreeSet, HashSet},
    panic::{catch_unwind, AssertUnwindSafe},
    sync::{
        atomic::{AtomicUsize, Ordering},
        Arc,
    },
    time::Duration,
};

const TIMEOUT: Duration = Duration::from_secs(10);
const STEP_CAP: u64 = 2_000_000;
const DOMAIN: &[u8] = b"noise-libp2p-static-key:";
const NOISE_PARAMS: &str = "Noise_XX_25519_ChaChaPoly_SHA256";

fn canonical_peer(k: &Keypair) -> PeerId {
    PeerId::from_public_key(&PublicKey::Ed25519(k.public()))
}

// ---------------------------------------------------------------------------------------------------------
// case description (serialisable => replayable)
// ---------------------------------------------------------------------------------------------------------

/// Serializable pipe policy.
#[derive(Clone, Debug, Default, Serialize, Deserialize, PartialEq, Eq, Hash)]
pub struct Pol {
    #[serde(default, skip_serializing_if = "Option::is_none")]
    read_chunk: Option<usize>,
    #[serde(default, skip_serializing_if = "Option::is_none")]
    first_read: Option<usize>,
    #[serde(default, skip_serializing_if = "Option::is_none")]
    write_accept: Option<usize>,
    #[serde(default, skip_serializing_if = "Option::is_none")]
    window: Option<usize>,
    #[serde(default, skip_serializing_if = "Vec::is_empty")]
    pend_r: Vec<u64>,
    #[serde(default, skip_serializing_if = "Vec::is_empty")]
    pend_w: Vec<u64>,
    #[serde(default, skip_serializing_if = "Vec::is_empty")]
    pend_f: Vec<u64>,
    #[serde(default, skip_serializing_if = "Option::is_none")]
    cut: Option<u64>,
    #[serde(default, skip_serializing_if = "Vec::is_empty")]
    flips: Vec<(u64, u8)>,
}

impl Pol {
    fn policy(&self) -> Policy {
        Policy {
            read_chunk: self.read_chunk.unwrap_or(usize::MAX),
            first_read: self.first_read,
            write_accept: self.write_accept.unwrap_or(usize::MAX),
            window: self.window.unwrap_or(usize::MAX),
            pending_reads: self.pend_r.iter().copied().collect::<BTreeSet<_>>(),
            pending_writes: self.pend_w.iter().copied().collect::<BTreeSet<_>>(),
            pending_flushes: self.pend_f.iter().copied().collect::<BTreeSet<_>>(),
            deliver_on_flush: false,
            gone_is_write_zero: false,
            read_quota: None,
            cut_after: self.cut,
            flips: self.flips.clone(),
        }
    }
}

/// What the oracle demands of a two-sided litep2p run.
#[derive(Clone, Copy, Debug, Serialize, Deserialize, PartialEq, Eq, Hash)]
enum Expect {
    /// both sides `Ok`, each reporting the other's canonical peer id, no timeout needed
    BothOk,
    /// both sides must end in `Err` (fault hits message 1 or 2)
    BothErr,
    /// the listener must end in `Err`; the dialer may have completed (fault hits message 3)
    ListenerErr,
}

#[derive(Clone, Copy, Debug, Serialize, Deserialize, PartialEq, Eq, Hash)]
enum Src {
    /// same-index or other-index frame recorded from another complete honest session
    Other(u8),
    /// a frame seen earlier in this very session (reflection / own replay)
    Own(u8),
}

#[derive(Clone, Copy, Debug, Serialize, Deserialize, PartialEq, Eq, Hash)]
enum Dialed {
    None,
    Actual,
    Other,
}

#[derive(Clone, Debug, Serialize, Deserialize, PartialEq, Eq, Hash)]
#[serde(tag = "kind")]
enum Case {
    /// honest / tamper / trunc / frag: two real endpoints over one scripted duplex
    Pair {
        sub: String,
        disc: String,
        kd: u64,
        kl: u64,
        d2l: Pol,
        l2d: Pol,
        expect: Expect,
        /// deliver the stream of direction `.0` (0 = dialer->listener, 1 = listener->dialer) in two segments
        /// split at absolute offset `.1`: the reader drains the first segment and parks before the rest arrives
        #[serde(default, skip_serializing_if = "Option::is_none")]
        split: Option<(u8, u64)>,
    },
    /// whole-frame substitution through a relay. `same_ids`: the recorded session is between the same two
    /// identities (true replay) or between two others.
    Subst { target: u8, src: Src, same_ids: bool, kd: u64, kl: u64 },
    /// rogue snow endpoint in `rogue_role` against real litep2p in the opposite role
    Rogue { rogue_is_dialer: bool, variant: String, kr: u64, kv: u64 },
    /// honest session with a third party, then its payload replayed by a rogue (state carried between handshakes)
    RogueHistory { rogue_is_dialer: bool, kr: u64, kv: u64 },
    /// dialed-peer expectation over loopback TCP
    Dialed { expectation: Dialed, kd: u64, kl: u64 },
}

/// Outcome of one side.
#[derive(Clone, Debug)]
struct Side {
    res: Option<Result<PeerId, String>>,
    /// the result was only produced after virtual time was advanced past the handshake timeout
    after_timeout: bool,
}

impl Side {
    fn is_ok(&self) -> bool {
        matches!(self.res, Some(Ok(_)))
    }
    fn is_err(&self) -> bool {
        matches!(self.res, Some(Err(_)))
    }
    fn show(&self) -> String {
        match &self.res {
            None => "HUNG".into(),
            Some(Ok(p)) => format!("Ok({p})"),
            Some(Err(e)) => format!("Err({e}){}", if self.after_timeout { "@timeout" } else { "" }),
        }
    }
}

#[derive(Default)]
struct CaseResult {
    evaluations: u64,
    nontrivial: bool,
    violations: Vec<(String, String)>,
    summary: String,
    machinery: Vec<String>,
    /// free-form per-case facts aggregated into sub-check evidence
    facts: BTreeMap<String, u64>,
}

type Slot = Arc<Mutex<Side>>;

fn new_slot() -> Slot {
    Arc::new(Mutex::new(Side { res: None, after_timeout: false }))
}

fn err_name(e: &NegotiationError) -> String {
    let s = format!("{e:?}");
    // keep it short and stable: variant name plus first argument head
    s.chars().take(60).collect()
}

fn spawn_real(d: &mut driver::Driver, name: &str, io: End, key: Keypair, role: Role, slot: Slot, late: Arc<Mutex<bool>>) {
    d.spawn(name, async move {
        let r = handshake(io, &key, role, 5, 2, TIMEOUT, HandshakeTransport::Tcp).await;
        let mut s = slot.lock();
        s.after_timeout = *late.lock();
        s.res = Some(match r {
            Ok((_sock, peer)) => Ok(peer),
            Err(e) => Err(err_name(&e)),
        });
    });
}

/// Run the driver to quiescence; if tasks are stalled, model the real timeout by advancing virtual time past
/// it and continue. Returns (needed_timeout, all_done).
async fn drive(d: &mut driver::Driver, late: &Arc<Mutex<bool>>) -> (bool, bool) {
    let fin = d.run_until_stalled(STEP_CAP);
    if !fin {
        return (false, false);
    }
    if d.all_done() {
        return (false, true);
    }
    *late.lock() = true;
    tokio::time::advance(TIMEOUT + Duration::from_secs(1)).await;
    let fin = d.run_until_stalled(STEP_CAP);
    (true, fin && d.all_done())
}

struct PairRun {
    dialer: Side,
    listener: Side,
    needed_timeout: bool,
    all_done: bool,
    h_d2l: PipeHandle,
    h_l2d: PipeHandle,
}

/// A future that returns `Pending` once (and wakes itself).
struct YieldOnce(bool);
impl std::future::Future for YieldOnce {
    type Output = ();
    fn poll(mut self: std::pin::Pin<&mut Self>, cx: &mut std::task::Context<'_>) -> std::task::Poll<()> {
        if self.0 {
            return std::task::Poll::Ready(());
        }
        self.0 = true;
        cx.waker().wake_by_ref();
        std::task::Poll::Pending
    }
}

/// Forward bytes from `r` to `w`, but hold back everything from absolute offset `at` on until the downstream
/// reader has drained what was delivered so far (=> it parked on an empty pipe): a two-segment arrival.
async fn segmenter(mut r: PipeReader, mut w: PipeWriter, down: PipeHandle, at: u64) {
    let mut pos = 0u64;
    let mut buf = vec![0u8; 4096];
    loop {
        let n = match r.read(&mut buf).await {
            Ok(0) | Err(_) => return,
            Ok(n) => n,
        };
        let mut data = &buf[..n];
        if pos < at && at < pos + n as u64 || (pos == at && at > 0) {
            let first = (at - pos) as usize;
            if first > 0 && (w.write_all(&data[..first]).await.is_err() || w.flush().await.is_err()) {
                return;
            }
            data = &data[first..];
            pos += first as u64;
            let mut spins = 0;
            while down.buffered() > 0 && spins < 10_000 {
                YieldOnce(false).await;
                spins += 1;
            }
            YieldOnce(false).await;
        }
        if w.write_all(data).await.is_err() || w.flush().await.is_err() {
            return;
        }
        pos += data.len() as u64;
    }
}

fn run_pair(kd: u64, kl: u64, d2l: &Pol, l2d: &Pol) -> PairRun {
    run_pair_split(kd, kl, d2l, l2d, None)
}

fn run_pair_split(kd: u64, kl: u64, d2l: &Pol, l2d: &Pol, split: Option<(u8, u64)>) -> PairRun {
    let rt = driver::runtime(1);
    rt.block_on(async {
        let (sd, sl, late) = (new_slot(), new_slot(), Arc::new(Mutex::new(false)));
        let mut d = driver::Driver::new();
        let (a, b, h_d2l, h_l2d) = match split {
            None => pipe::duplex(d2l.policy(), l2d.policy()),
            Some((dir, at)) => {
                // the split direction goes writer -> pipe X -> segmenter -> pipe Y (scripted policy) -> reader
                let (w_dl, r_dl, h_dl) = pipe::pipe(if dir == 0 { Policy::default() } else { d2l.policy() });
                let (w_ld, r_ld, h_ld) = pipe::pipe(if dir == 1 { Policy::default() } else { l2d.policy() });
                if dir == 0 {
                    let (w_y, r_y, h_y) = pipe::pipe(d2l.policy());
                    d.spawn("segmenter", segmenter(r_dl, w_y, h_y, at));
                    (End { r: r_ld, w: w_dl }, End { r: r_y, w: w_ld }, h_dl, h_ld)
                } else {
                    let (w_y, r_y, h_y) = pipe::pipe(l2d.policy());
                    d.spawn("segmenter", segmenter(r_ld, w_y, h_y, at));
                    (End { r: r_y, w: w_dl }, End { r: r_dl, w: w_ld }, h_dl, h_ld)
                }
            }
        };
        spawn_real(&mut d, "dialer", a, util::keypair(kd), Role::Dialer, sd.clone(), late.clone());
        spawn_real(&mut d, "listener", b, util::keypair(kl), Role::Listener, sl.clone(), late.clone());
        let (needed_timeout, all_done) = drive(&mut d, &late).await;
        let (dialer, listener) = (sd.lock().clone(), sl.lock().clone());
        PairRun { dialer, listener, needed_timeout, all_done, h_d2l, h_l2d }
    })
}

/// Split a logged byte stream into 2-byte-big-endian-length-prefixed frames (prefix included).
fn frames(log: &[u8]) -> Vec<Vec<u8>> {
    let mut out = Vec::new();
    let mut i = 0;
    while i + 2 <= log.len() {
        let n = u16::from_be_bytes([log[i], log[i + 1]]) as usize;
        if i + 2 + n > log.len() {
            break;
        }
        out.push(log[i..i + 2 + n].to_vec());
        i += 2 + n;
    }
    out
}

/// Shape of the honest handshake, measured from one honest run.
#[derive(Clone, Debug)]
struct Shape {
    len: [usize; 3],
    /// (read_ops, write_ops, flush_ops) of the honest default-policy run per direction [d2l, l2d]
    ops: [(u64, u64, u64); 2],
}

fn measure_shape(d2l: &Pol, l2d: &Pol) -> Result<Shape, String> {
    let r = run_pair(1, 2, d2l, l2d);
    if !(r.dialer.is_ok() && r.listener.is_ok()) || r.needed_timeout {
        return Err(format!("honest baseline failed: dialer={} listener={}", r.dialer.show(), r.listener.show()));
    }
    let f1 = frames(&r.h_d2l.log());
    let f2 = frames(&r.h_l2d.log());
    if f1.len() != 2 || f2.len() != 1 {
        return Err(format!("unexpected framing: {} frames d2l, {} frames l2d", f1.len(), f2.len()));
    }
    let (s1, s2) = (r.h_d2l.stats(), r.h_l2d.stats());
    Ok(Shape {
        len: [f1[0].len(), f2[0].len(), f1[1].len()],
        ops: [(s1.read_ops, s1.write_ops, s1.flush_ops), (s2.read_ops, s2.write_ops, s2.flush_ops)],
    })
}

/// Check reported identities: whatever else happened, an `Ok(P)` must name the true remote.
fn check_identities(sub: &str, r: &PairRun, kd: u64, kl: u64, out: &mut CaseResult, input: &str) {
    let (pd, pl) = (util::peer(kd), util::peer(kl));
    if let Some(Ok(p)) = &r.dialer.res {
        if *p != pl {
            out.violations.push((
                format!("{sub}/wrong-peer-id/dialer"),
                format!("{input}: dialer reported {p}, the listener's identity key hashes to {pl}"),
            ));
        }
    }
    if let Some(Ok(p)) = &r.listener.res {
        if *p != pd {
            out.violations.push((
                format!("{sub}/wrong-peer-id/listener"),
                format!("{input}: listener reported {p}, the dialer's identity key hashes to {pd}"),
            ));
        }
    }
}

fn judge_pair(sub: &str, disc: &str, expect: Expect, r: &PairRun, kd: u64, kl: u64, len1: usize, input: &str) -> CaseResult {
    let mut out = CaseResult { evaluations: 1, ..Default::default() };
    let listener_past_first = r.h_l2d.stats().bytes_written > 0;
    let dialer_past_first = r.h_d2l.stats().bytes_written > len1 as u64;
    out.nontrivial = listener_past_first || dialer_past_first;
    out.summary = format!(
        "{input}: dialer={} listener={} timeout_needed={}",
        r.dialer.show(),
        r.listener.show(),
        r.needed_timeout
    );
    if r.needed_timeout {
        *out.facts.entry("needed_timeout".into()).or_default() += 1;
    }
    if r.dialer.is_ok() {
        *out.facts.entry("dialer_ok".into()).or_default() += 1;
    }
    if !r.all_done || r.dialer.res.is_none() || r.listener.res.is_none() {
        out.violations.push((
            format!("hang/{sub}"),
            format!("{}: a side is still pending after the handshake timeout elapsed", out.summary),
        ));
        return out;
    }
    check_identities(sub, r, kd, kl, &mut out, input);
    match expect {
        Expect::BothOk => {
            if !(r.dialer.is_ok() && r.listener.is_ok()) || r.needed_timeout {
                let sig = if sub == "honest" { "honest/failed".to_string() } else { format!("{sub}/outcome-differs") };
                out.violations.push((sig, format!("expected both Ok without timeout; {}", out.summary)));
            }
        }
        Expect::BothErr | Expect::ListenerErr => {
            if r.dialer.is_ok() && r.listener.is_ok() {
                out.violations.push((format!("{sub}/both-ok/{disc}"), format!("a connection was established on both sides; {}", out.summary)));
            } else if !r.listener.is_err() {
                let s = if disc == "msg2" { "sender-ok" } else { "receiver-ok" };
                out.violations.push((format!("{sub}/{s}/{disc}"), format!("listener must fail; {}", out.summary)));
            } else if expect == Expect::BothErr && !r.dialer.is_err() {
                let s = if disc == "msg2" { "receiver-ok" } else { "sender-ok" };
                out.violations.push((format!("{sub}/{s}/{disc}"), format!("dialer must fail; {}", out.summary)));
            }
        }
    }
    out
}

// ---------------------------------------------------------------------------------------------------------
// (d) substitution through a frame-parsing relay
// ---------------------------------------------------------------------------------------------------------

struct RelayPlan {
    /// message number (1..=3) to replace
    target: u8,
    src: Src,
    /// frames of the recorded other session (index = message number - 1)
    other: Vec<Vec<u8>>,
    /// frames seen so far in this session
    own: Mutex<[Option<Vec<u8>>; 3]>,
    /// set when the substitution was actually performed
    done: Mutex<bool>,
}

/// Forward length-prefixed frames from `r` to `w`; `msgs` = message numbers carried by this direction in order.
async fn relay(mut r: PipeReader, mut w: PipeWriter, msgs: Vec<u8>, plan: Arc<RelayPlan>) {
    let mut idx = 0usize;
    loop {
        let mut hdr = [0u8; 2];
        if r.read_exact(&mut hdr).await.is_err() {
            return; // EOF: dropping `w` closes the downstream
        }
        let n = u16::from_be_bytes(hdr) as usize;
        let mut frame = vec![0u8; 2 + n];
        frame[..2].copy_from_slice(&hdr);
        if r.read_exact(&mut frame[2..]).await.is_err() {
            return;
        }
        let msg = msgs.get(idx).copied().unwrap_or(0);
        idx += 1;
        if (1..=3).contains(&msg) {
            plan.own.lock()[msg as usize - 1] = Some(frame.clone());
        }
        let outgoing = if msg == plan.target {
            let rep = match plan.src {
                Src::Other(k) => plan.other.get(k as usize - 1).cloned(),
                Src::Own(k) => plan.own.lock()[k as usize - 1].clone(),
            };
            match rep {
                Some(f) => {
                    *plan.done.lock() = true;
                    f
                }
                None => frame,
            }
        } else {
            frame
        };
        if w.write_all(&outgoing).await.is_err() || w.flush().await.is_err() {
            return;
        }
    }
}

fn run_subst(target: u8, src: Src, same_ids: bool, kd: u64, kl: u64) -> CaseResult {
    let input = format!("subst target=msg{target} src={src:?} same_ids={same_ids} kd={kd} kl={kl}");
    // session S': recorded first
    let (okd, okl) = if same_ids { (kd, kl) } else { (kd + 100, kl + 100) };
    let rec = run_pair(okd, okl, &Pol::default(), &Pol::default());
    let mut other = frames(&rec.h_d2l.log());
    let l2d = frames(&rec.h_l2d.log());
    let mut out = CaseResult { evaluations: 2, ..Default::default() };
    if !(rec.dialer.is_ok() && rec.listener.is_ok()) || other.len() != 2 || l2d.len() != 1 {
        out.machinery.push(format!("{input}: recording session failed"));
        return out;
    }
    other.insert(1, l2d[0].clone()); // [msg1, msg2, msg3]
    let plan = Arc::new(RelayPlan { target, src, other, own: Mutex::new([None, None, None]), done: Mutex::new(false) });

    let rt = driver::runtime(1);
    let (r, relay_done) = rt.block_on(async {
        let (a, ra, h_d2r, _h_r2d) = pipe::duplex(Policy::default(), Policy::default());
        let (rb, b, _h_r2l, h_l2r) = pipe::duplex(Policy::default(), Policy::default());
        let (sd, sl, late) = (new_slot(), new_slot(), Arc::new(Mutex::new(false)));
        let mut d = driver::Driver::new();
        spawn_real(&mut d, "dialer", a, util::keypair(kd), Role::Dialer, sd.clone(), late.clone());
        spawn_real(&mut d, "listener", b, util::keypair(kl), Role::Listener, sl.clone(), late.clone());
        let End { r: ra_r, w: ra_w } = ra;
        let End { r: rb_r, w: rb_w } = rb;
        d.spawn("relay-d2l", relay(ra_r, rb_w, vec![1, 3], plan.clone()));
        d.spawn("relay-l2d", relay(rb_r, ra_w, vec![2], plan.clone()));
        let (needed_timeout, all_done) = drive(&mut d, &late).await;
        let (dialer, listener) = (sd.lock().clone(), sl.lock().clone());
        // h_d2l = what the dialer wrote; h_l2d = what the listener wrote (for the nontrivial measure)
        (PairRun { dialer, listener, needed_timeout, all_done, h_d2l: h_d2r, h_l2d: h_l2r }, *plan.done.lock())
    });
    let len1 = plan.other[0].len();
    let expect = if target == 3 { Expect::ListenerErr } else { Expect::BothErr };
    let mut j = judge_pair("subst", &format!("msg{target}"), expect, &r, kd, kl, len1, &input);
    j.evaluations = 2;
    if !relay_done {
        j.machinery.push(format!("{input}: relay never performed the substitution"));
    }
    j
}

// ---------------------------------------------------------------------------------------------------------
// (e) rogue peer on snow
// ---------------------------------------------------------------------------------------------------------

#[derive(Clone, Copy, PartialEq, Eq, Debug)]
enum Want {
    /// a correct proof of identity: must be accepted, reported id == hash of the rogue's key
    Accept,
    /// must be rejected
    Reject,
    /// correct proof but unusual key encoding: rejection is fine; if accepted the id must be the key's hash
    RejectOrCanonical,
    /// the statement is silent: outcome only recorded
    Info,
}

/// (variant name, expectation, available when the rogue is the listener)
const VARIANTS: &[(&str, Want, bool)] = &[
    ("valid", Want::Accept, true),
    ("valid_unknown_field", Want::Accept, true),
    ("valid_with_extensions", Want::Accept, true),
    ("no_identity_key", Want::Reject, true),
    ("no_identity_sig", Want::Reject, true),
    ("sig_other_session_static", Want::Reject, true),
    ("sig_replayed_third_party", Want::Reject, true),
    ("sig_by_other_key", Want::Reject, true),
    ("impersonate_other_key", Want::Reject, true),
    ("sig_no_domain", Want::Reject, true),
    ("sig_wrong_domain", Want::Reject, true),
    ("sig_domain_only", Want::Reject, true),
    ("sig_over_victim_static", Want::Reject, false),
    ("sig_over_ephemeral", Want::Reject, true),
    ("sig_empty", Want::Reject, true),
    ("sig_63", Want::Reject, true),
    ("sig_65", Want::Reject, true),
    ("sig_bitflip_first", Want::Reject, true),
    ("sig_bitflip_last", Want::Reject, true),
    ("sig_zero", Want::Reject, true),
    ("key_unknown_type", Want::Reject, true),
    ("key_type_rsa", Want::Reject, true),
    ("key_type_secp256k1", Want::Reject, true),
    ("key_truncated_31", Want::Reject, true),
    ("key_33", Want::Reject, true),
    ("key_empty_data", Want::Reject, true),
    ("key_raw_32_no_protobuf", Want::Reject, true),
    ("empty_payload", Want::Reject, true),
    ("garbage_payload", Want::Reject, true),
    ("truncated_payload", Want::Reject, true),
    ("key_noncanonical_field_order", Want::RejectOrCanonical, true),
    ("key_noncanonical_unknown_field", Want::RejectOrCanonical, true),
    ("key_noncanonical_varint", Want::RejectOrCanonical, true),
    ("weak_key_universal_sig", Want::Info, true),
];

fn pb_bytes(field: u8, b: &[u8]) -> Vec<u8> {
    let mut v = vec![(field << 3) | 2];
    let mut n = b.len();
    loop {
        let mut x = (n & 0x7f) as u8;
        n >>= 7;
        if n > 0 {
            x |= 0x80;
        }
        v.push(x);
        if n == 0 {
            break;
        }
    }
    v.extend_from_slice(b);
    v
}

fn key_proto(ty: u8, data: &[u8]) -> Vec<u8> {
    let mut v = vec![0x08, ty];
    v.extend(pb_bytes(2, data));
    v
}

struct RogueCtx<'a> {
    kr: &'a Keypair,
    k_other: &'a Keypair,
    static_pub: &'a [u8],
    other_static: &'a [u8],
    ephemeral_like: &'a [u8],
    victim_static: Option<&'a [u8]>,
}

fn rogue_payload(variant: &str, c: &RogueCtx) -> Vec<u8> {
    let msg = |tail: &[u8]| [DOMAIN, tail].concat();
    let key = PublicKey::Ed25519(c.kr.public()).to_protobuf_encoding();
    let raw = c.kr.public().to_bytes();
    let good = c.kr.sign(&msg(c.static_pub));
    let both = |k: &[u8], s: &[u8]| [pb_bytes(1, k), pb_bytes(2, s)].concat();
    match variant {
        "valid" => both(&key, &good),
        "valid_unknown_field" => [both(&key, &good), pb_bytes(15, b"xyz")].concat(),
        "valid_with_extensions" => [both(&key, &good), pb_bytes(4, &pb_bytes(2, b"/yamux/1.0.0"))].concat(),
        "no_identity_key" => pb_bytes(2, &good),
        "no_identity_sig" => pb_bytes(1, &key),
        "sig_other_session_static" => both(&key, &c.kr.sign(&msg(c.other_static))),
        // a genuine payload of a third party captured in another session, replayed verbatim
        "sig_replayed_third_party" => both(
            &PublicKey::Ed25519(c.k_other.public()).to_protobuf_encoding(),
            &c.k_other.sign(&msg(c.other_static)),
        ),
        // the third party itself: its own identity, its own static key, a correct proof
        "honest_third_party" => both(
            &PublicKey::Ed25519(c.k_other.public()).to_protobuf_encoding(),
            &c.k_other.sign(&msg(c.static_pub)),
        ),
        "sig_by_other_key" => both(&key, &c.k_other.sign(&msg(c.static_pub))),
        "impersonate_other_key" => both(&PublicKey::Ed25519(c.k_other.public()).to_protobuf_encoding(), &good),
        "sig_no_domain" => both(&key, &c.kr.sign(c.static_pub)),
        "sig_wrong_domain" => both(&key, &c.kr.sign(&[b"noise-libp2p-static-key;".as_slice(), c.static_pub].concat())),
        "sig_domain_only" => both(&key, &c.kr.sign(DOMAIN)),
        "sig_over_victim_static" => both(&key, &c.kr.sign(&msg(c.victim_static.unwrap_or(&[])))),
        "sig_over_ephemeral" => both(&key, &c.kr.sign(&msg(c.ephemeral_like))),
        "sig_empty" => both(&key, &[]),
        "sig_63" => both(&key, &good[..63]),
        "sig_65" => both(&key, &[good.as_slice(), &[0u8]].concat()),
        "sig_bitflip_first" => {
            let mut s = good.clone();
            s[0] ^= 1;
            both(&key, &s)
        }
        "sig_bitflip_last" => {
            let mut s = good.clone();
            s[63] ^= 1;
            both(&key, &s)
        }
        "sig_zero" => both(&key, &[0u8; 64]),
        "key_unknown_type" => both(&key_proto(7, &raw), &good),
        "key_type_rsa" => both(&key_proto(0, &raw), &good),
        "key_type_secp256k1" => both(&key_proto(2, &raw), &good),
        "key_truncated_31" => both(&key_proto(1, &raw[..31]), &good),
        "key_33" => both(&key_proto(1, &[raw.as_slice(), &[0u8]].concat()), &good),
        "key_empty_data" => both(&key_proto(1, &[]), &good),
        "key_raw_32_no_protobuf" => both(&raw, &good),
        "empty_payload" => Vec::new(),
        "garbage_payload" => vec![0xff; 24],
        "truncated_payload" => {
            let p = both(&key, &good);
            p[..p.len() - 10].to_vec()
        }
        // same key, same valid signature, but the key's protobuf is not the canonical encoding
        "key_noncanonical_field_order" => both(&[pb_bytes(2, &raw), vec![0x08, 1]].concat(), &good),
        "key_noncanonical_unknown_field" => both(&[key_proto(1, &raw), vec![0x18, 0x00]].concat(), &good),
        "key_noncanonical_varint" => both(&[vec![0x08, 0x81, 0x00], pb_bytes(2, &raw)].concat(), &good),
        // small-order public key (the neutral point) with the signature (R = neutral, s = 0), which a
        // non-strict ed25519 verifier accepts for every message
        "weak_key_universal_sig" => {
            let mut id = [0u8; 32];
            id[0] = 1;
            both(&key_proto(1, &id), &[id.as_slice(), &[0u8; 32]].concat())
        }
        other => panic!("unknown rogue variant {other}"),
    }
}

#[derive(Default, Clone, Debug)]
struct RogueOut {
    /// the rogue's own Noise state machine finished (=> the Noise session itself was valid)
    noise_finished: bool,
    error: Option<String>,
}

async fn send_frame(io: &mut End, body: &[u8]) -> std::io::Result<()> {
    let mut f = (body.len() as u16).to_be_bytes().to_vec();
    f.extend_from_slice(body);
    io.write_all(&f).await?;
    io.flush().await
}

async fn recv_frame(io: &mut End) -> std::io::Result<Vec<u8>> {
    let mut hdr = [0u8; 2];
    io.read_exact(&mut hdr).await?;
    let mut body = vec![0u8; u16::from_be_bytes(hdr) as usize];
    io.read_exact(&mut body).await?;
    Ok(body)
}

async fn rogue_task(io: End, rogue_is_dialer: bool, variant: String, kr: Keypair, k_other: Keypair, out: Arc<Mutex<RogueOut>>) {
    rogue_task_with(io, rogue_is_dialer, variant, kr, k_other, out, None).await
}

/// `fixed` = (private, public) Noise static key of a third party V. Variant `honest_third_party` plays V itself (that
/// static key, identity `k_other`, a correct payload); every other variant then uses V's public key as the "other
/// session's static key", so that `sig_replayed_third_party` is V's genuine payload replayed verbatim.
async fn rogue_task_with(mut io: End, rogue_is_dialer: bool, variant: String, kr: Keypair, k_other: Keypair, out: Arc<Mutex<RogueOut>>, fixed: Option<(Vec<u8>, Vec<u8>)>) {
    let r: Result<(), String> = async {
        let builder = snow::Builder::with_resolver(NOISE_PARAMS.parse().unwrap(), Box::new(NoiseResolver));
        let mut kp = builder.generate_keypair().map_err(|e| format!("{e:?}"))?;
        let mut other_static = builder.generate_keypair().map_err(|e| format!("{e:?}"))?.public;
        if let Some((private, public)) = &fixed {
            if variant == "honest_third_party" {
                kp.private = private.clone();
                kp.public = public.clone();
            } else {
                other_static = public.clone();
            }
        }
        let eph_like = builder.generate_keypair().map_err(|e| format!("{e:?}"))?.public;
        let builder = builder.local_private_key(&kp.private);
        let mut hs = if rogue_is_dialer { builder.build_initiator() } else { builder.build_responder() }
            .map_err(|e| format!("{e:?}"))?;
        let mut buf = vec![0u8; 4096];
        let mut scratch = vec![0u8; 4096];
        let mk = |victim_static: Option<&[u8]>| {
            rogue_payload(
                &variant,
                &RogueCtx { kr: &kr, k_other: &k_other, static_pub: &kp.public, other_static: &other_static, ephemeral_like: &eph_like, victim_static },
            )
        };
        if rogue_is_dialer {
            let n = hs.write_message(&[], &mut buf).map_err(|e| format!("write1 {e:?}"))?;
            send_frame(&mut io, &buf[..n]).await.map_err(|e| format!("send1 {e}"))?;
            let m2 = recv_frame(&mut io).await.map_err(|e| format!("recv2 {e}"))?;
            hs.read_message(&m2, &mut scratch).map_err(|e| format!("read2 {e:?}"))?;
            let vs = hs.get_remote_static().map(|s| s.to_vec());
            let payload = mk(vs.as_deref());
            let n = hs.write_message(&payload, &mut buf).map_err(|e| format!("write3 {e:?}"))?;
            send_frame(&mut io, &buf[..n]).await.map_err(|e| format!("send3 {e}"))?;
        } else {
            let m1 = recv_frame(&mut io).await.map_err(|e| format!("recv1 {e}"))?;
            hs.read_message(&m1, &mut scratch).map_err(|e| format!("read1 {e:?}"))?;
            let payload = mk(None);
            let n = hs.write_message(&payload, &mut buf).map_err(|e| format!("write2 {e:?}"))?;
            send_frame(&mut io, &buf[..n]).await.map_err(|e| format!("send2 {e}"))?;
            let m3 = recv_frame(&mut io).await.map_err(|e| format!("recv3 {e}"))?;
            hs.read_message(&m3, &mut scratch).map_err(|e| format!("read3 {e:?}"))?;
        }
        out.lock().noise_finished = hs.is_handshake_finished();
        Ok(())
    }
    .await;
    if let Err(e) = r {
        out.lock().error = Some(e);
    }
}

/// History: the node under test first completes an honest handshake with a third party V (which, like rust-libp2p and
/// go-libp2p nodes, keeps one Noise static key for all its connections and therefore shows the same identity payload to
/// everybody); then a rogue with its own static key replays V's payload verbatim. What was verified for one session
/// must not be taken as verified for another: the second handshake has to fail.
fn run_rogue_history(rogue_is_dialer: bool, kr: u64, kv: u64) -> CaseResult {
    let role = if rogue_is_dialer { "dialer" } else { "listener" };
    let input = format!("rogue-history role={role} kr={kr} kv={kv}");
    let mut out = CaseResult { evaluations: 2, ..Default::default() };
    let rt = driver::runtime(1);
    let (first, second, rogue2) = rt.block_on(async {
        let builder = snow::Builder::with_resolver(NOISE_PARAMS.parse().unwrap(), Box::new(NoiseResolver));
        let v_static = builder.generate_keypair().expect("static key of the third party");
        let fixed = Some((v_static.private.clone(), v_static.public.clone()));
        let mut results = Vec::new();
        let mut last_rogue = RogueOut::default();
        for variant in ["honest_third_party", "sig_replayed_third_party"] {
            let (a, b, _h1, _h2) = pipe::duplex(Policy::default(), Policy::default());
            let (sv, late) = (new_slot(), Arc::new(Mutex::new(false)));
            let ro = Arc::new(Mutex::new(RogueOut::default()));
            let mut d = driver::Driver::new();
            let (kr_k, ko_k) = (util::keypair(kr), util::keypair(kr + 1000));
            if rogue_is_dialer {
                d.spawn("peer", rogue_task_with(a, true, variant.to_string(), kr_k, ko_k, ro.clone(), fixed.clone()));
                spawn_real(&mut d, "victim", b, util::keypair(kv), Role::Listener, sv.clone(), late.clone());
            } else {
                spawn_real(&mut d, "victim", a, util::keypair(kv), Role::Dialer, sv.clone(), late.clone());
                d.spawn("peer", rogue_task_with(b, false, variant.to_string(), kr_k, ko_k, ro.clone(), fixed.clone()));
            }
            let _ = drive(&mut d, &late).await;
            results.push(sv.lock().clone());
            last_rogue = ro.lock().clone();
        }
        let second = results.pop().unwrap();
        let first = results.pop().unwrap();
        (first, second, last_rogue)
    });
    let third_party = util::peer(kr + 1000);
    out.nontrivial = true;
    out.summary = format!("{input}: honest session with the third party -> {}; replay of its payload by a rogue with another static key -> {} (rogue noise session finished: {})", first.show(), second.show(), rogue2.noise_finished);
    match &first.res {
        Some(Ok(p)) if *p == third_party => {}
        _ => {
            out.violations.push(("rogue-history/honest-third-party-rejected".into(), out.summary.clone()));
            return out;
        }
    }
    if let Some(Ok(p)) = &second.res {
        out.violations.push((
            "rogue/accepted/replayed-payload-after-honest-session".into(),
            format!("{}: connection reported for {p} although the rogue holds neither that identity key nor the static key the payload was signed for", out.summary),
        ));
    }
    out
}

fn run_rogue(rogue_is_dialer: bool, variant: &str, kr: u64, kv: u64, len1: usize) -> CaseResult {
    let role = if rogue_is_dialer { "dialer" } else { "listener" };
    let input = format!("rogue role={role} variant={variant} kr={kr} kv={kv}");
    let mut out = CaseResult { evaluations: 1, ..Default::default() };
    let Some(&(_, want, _)) = VARIANTS.iter().find(|v| v.0 == variant) else {
        out.machinery.push(format!("{input}: unknown variant"));
        return out;
    };
    let rt = driver::runtime(1);
    let (victim, rogue, all_done, needed_timeout, victim_wrote) = rt.block_on(async {
        // end `a` is always the dialing end
        let (a, b, h_d2l, h_l2d) = pipe::duplex(Policy::default(), Policy::default());
        let (sv, late) = (new_slot(), Arc::new(Mutex::new(false)));
        let ro = Arc::new(Mutex::new(RogueOut::default()));
        let mut d = driver::Driver::new();
        let (kr_k, ko_k) = (util::keypair(kr), util::keypair(kr + 1000));
        if rogue_is_dialer {
            d.spawn("rogue", rogue_task(a, true, variant.to_string(), kr_k, ko_k, ro.clone()));
            spawn_real(&mut d, "victim", b, util::keypair(kv), Role::Listener, sv.clone(), late.clone());
        } else {
            spawn_real(&mut d, "victim", a, util::keypair(kv), Role::Dialer, sv.clone(), late.clone());
            d.spawn("rogue", rogue_task(b, false, variant.to_string(), kr_k, ko_k, ro.clone()));
        }
        let (needed_timeout, all_done) = drive(&mut d, &late).await;
        // the victim got past reading its first message iff it wrote its payload-carrying message
        let wrote = if rogue_is_dialer { h_l2d.stats().bytes_written > 0 } else { h_d2l.stats().bytes_written > len1 as u64 };
        let v = sv.lock().clone();
        let r = ro.lock().clone();
        (v, r, all_done, needed_timeout, wrote)
    });
    out.nontrivial = victim_wrote;
    out.summary = format!("{input}: victim={} rogue_noise_finished={} rogue_err={:?}", victim.show(), rogue.noise_finished, rogue.error);
    if rogue.noise_finished {
        *out.facts.entry("rogue_noise_session_valid".into()).or_default() += 1;
    } else if !(rogue.error.as_deref().map(|e| e.starts_with("recv3")).unwrap_or(false) && !rogue_is_dialer) {
        // the only legitimate way for a listening rogue not to finish: the dialing victim could not even
        // protobuf-decode the payload of message 2 and gave up before sending message 3
        out.machinery.push(format!("{}: rogue did not complete its Noise session", out.summary));
    }
    if !all_done || victim.res.is_none() {
        out.violations.push(("hang/rogue".into(), format!("{}: victim pending after timeout", out.summary)));
        return out;
    }
    let canonical = util::peer(kr);
    match (want, &victim.res) {
        (Want::Accept, Some(Ok(p))) if *p == canonical && !needed_timeout => {}
        (Want::Accept, Some(Ok(p))) => out.violations.push((
            "rogue/wrong-peer-id".into(),
            format!("{}: reported {p}, the proven key hashes to {canonical}", out.summary),
        )),
        (Want::Accept, _) => out.violations.push((
            "rogue/valid-rejected".into(),
            format!("{}: a correct identity proof was rejected", out.summary),
        )),
        (Want::Reject, Some(Ok(p))) => out.violations.push((
            format!("rogue/accepted/{variant}"),
            format!("{}: connection reported for {p} without a valid proof bound to this session", out.summary),
        )),
        (Want::RejectOrCanonical, Some(Ok(p))) if *p != canonical => out.violations.push((
            "rogue/peer-id-not-hash-of-proven-key".to_string(),
            format!(
                "{}: connection reported for peer id {p}, but the identity key that was proven hashes to {canonical} \
                 (peer id derived from the non-canonical wire bytes of the key instead of from the key)",
                out.summary
            ),
        )),
        (Want::Info, Some(Ok(_))) => {
            *out.facts.entry(format!("info_accepted_{variant}")).or_default() += 1;
        }
        _ => {}
    }
    if victim.is_err() {
        *out.facts.entry("victim_rejected".into()).or_default() += 1;
    } else {
        *out.facts.entry("victim_accepted".into()).or_default() += 1;
    }
    out
}

// ---------------------------------------------------------------------------------------------------------
// (f) dialed-peer expectation through the real TCP negotiation over loopback
// ---------------------------------------------------------------------------------------------------------

fn run_dialed(expectation: Dialed, kd: u64, kl: u64) -> CaseResult {
    let input = format!("dialed expectation={expectation:?} kd={kd} kl={kl}");
    let mut out = CaseResult { evaluations: 1, ..Default::default() };
    let rt = match tokio::runtime::Builder::new_current_thread().enable_all().build() {
        Ok(rt) => rt,
        Err(e) => {
            out.machinery.push(format!("{input}: runtime: {e}"));
            return out;
        }
    };
    let actual = util::peer(kl);
    let other = util::peer(kl + 500);
    let expect = match expectation {
        Dialed::None => None,
        Dialed::Actual => Some(actual),
        Dialed::Other => Some(other),
    };
    let r = rt.block_on(async {
        let listener = tokio::net::TcpListener::bind("127.0.0.1:0").await.map_err(|e| format!("bind: {e}"))?;
        let addr = listener.local_addr().map_err(|e| format!("addr: {e}"))?;
        let (c, s) = tokio::join!(tokio::net::TcpStream::connect(addr), listener.accept());
        let c = c.map_err(|e| format!("connect: {e}"))?;
        let (s, from) = s.map_err(|e| format!("accept: {e}"))?;
        let t = Duration::from_secs(20);
        let (rd, rl) = tokio::join!(
            litep2p::verif::tcp::open_connection(c, util::keypair(kd), addr, expect, t),
            litep2p::verif::tcp::accept_connection(s, util::keypair(kl), from, t),
        );
        Ok::<_, String>((
            rd.map(|c| c.peer()).map_err(|e| format!("{e:?}")),
            rl.map(|c| c.peer()).map_err(|e| format!("{e:?}")),
        ))
    });
    let (rd, rl) = match r {
        Ok(x) => x,
        Err(e) => {
            out.machinery.push(format!("{input}: loopback TCP unavailable: {e}"));
            return out;
        }
    };
    out.nontrivial = true;
    out.summary = format!("{input}: dialer={rd:?} listener={rl:?}");
    match expectation {
        Dialed::None | Dialed::Actual => {
            if rd != Ok(actual) {
                out.violations.push(("dialed/honest-failed".into(), format!("expected dialer Ok({actual}); {}", out.summary)));
            }
            // the listener has no expectation; if it reports a connection it must name the dialer
            if let Ok(p) = &rl {
                if *p != util::peer(kd) {
                    out.violations.push(("dialed/wrong-peer-id/listener".into(), out.summary.clone()));
                }
            }
        }
        Dialed::Other => match &rd {
            Ok(p) => out.violations.push((
                "dialed/mismatch-accepted".into(),
                format!("dialed {other} but the remote proved {p}; a connection was reported; {}", out.summary),
            )),
            Err(e) if e.starts_with("PeerIdMismatch") => {
                *out.facts.entry("peer_id_mismatch_errors".into()).or_default() += 1;
            }
            Err(_) => {
                // some other error: still no connection; the statement only demands failure
                *out.facts.entry("other_errors".into()).or_default() += 1;
            }
        },
    }
    out
}

// ---------------------------------------------------------------------------------------------------------
// dispatch
// ---------------------------------------------------------------------------------------------------------

fn case_sub(c: &Case) -> &str {
    match c {
        Case::Pair { sub, .. } => sub,
        Case::Subst { .. } => "subst",
        Case::Rogue { .. } => "rogue",
        Case::RogueHistory { .. } => "rogue_history",
        Case::Dialed { .. } => "dialed",
    }
}

fn run_case_inner(c: &Case, len1: usize) -> CaseResult {
    match c {
        Case::Pair { sub, disc, kd, kl, d2l, l2d, expect, split } => {
            let r = run_pair_split(*kd, *kl, d2l, l2d, *split);
            let input = format!(
                "{sub} {disc} kd={kd} kl={kl} split={split:?} d2l={} l2d={}",
                serde_json::to_string(d2l).unwrap_or_default(),
                serde_json::to_string(l2d).unwrap_or_default()
            );
            judge_pair(sub, disc, *expect, &r, *kd, *kl, len1, &input)
        }
        Case::Subst { target, src, same_ids, kd, kl } => run_subst(*target, *src, *same_ids, *kd, *kl),
        Case::Rogue { rogue_is_dialer, variant, kr, kv } => run_rogue(*rogue_is_dialer, variant, *kr, *kv, len1),
        Case::RogueHistory { rogue_is_dialer, kr, kv } => run_rogue_history(*rogue_is_dialer, *kr, *kv),
        Case::Dialed { expectation, kd, kl } => run_dialed(*expectation, *kd, *kl),
    }
}

fn run_case(c: &Case, len1: usize) -> CaseResult {
    match catch_unwind(AssertUnwindSafe(|| run_case_inner(c, len1))) {
        Ok(r) => r,
        Err(_) => {
            let msg = take_panic();
            CaseResult {
                evaluations: 1,
                violations: vec![(format!("panic/{}", panic_site(&msg)), format!("{}: panic {msg}", serde_json::to_string(c).unwrap_or_default()))],
                summary: format!("panic {msg}"),
                ..Default::default()
            }
        }
    }
}

fn run_all(cases: &[Case], len1: usize) -> Vec<CaseResult> {
    let n = cases.len();
    let next = AtomicUsize::new(0);
    let results: Vec<Mutex<Option<CaseResult>>> = (0..n).map(|_| Mutex::new(None)).collect();
    let threads = std::thread::available_parallelism().map(|x| x.get()).unwrap_or(4).clamp(1, 16);
    std::thread::scope(|s| {
        for _ in 0..threads {
            s.spawn(|| loop {
                let i = next.fetch_add(1, Ordering::SeqCst);
                if i >= n {
                    break;
                }
                let r = run_case(&cases[i], len1);
                *results[i].lock() = Some(r);
            });
        }
    });
    results.into_iter().map(|m| m.into_inner().expect("every case ran")).collect()
}

// ---------------------------------------------------------------------------------------------------------
// enumeration
// ---------------------------------------------------------------------------------------------------------

fn pair(sub: &str, disc: &str, kd: u64, kl: u64, d2l: Pol, l2d: Pol, expect: Expect) -> Case {
    Case::Pair { sub: sub.into(), disc: disc.into(), kd, kl, d2l, l2d, expect, split: None }
}

/// One injectable spurious-`Pending` site: (direction, kind 0=read 1=write 2=flush, op index).
type Site = (u8, u8, u64);

fn sites(ops: &[(u64, u64, u64); 2]) -> Vec<Site> {
    let mut v = Vec::new();
    for dir in 0..2u8 {
        let (r, w, f) = ops[dir as usize];
        // one index past the observed range is included: an injected Pending shifts later ops by one
        for (kind, n) in [(0u8, r), (1, w), (2, f)] {
            for i in 0..=n {
                v.push((dir, kind, i));
            }
        }
    }
    v
}

fn with_sites(base: &Pol, ss: &[Site]) -> (Pol, Pol) {
    let (mut a, mut b) = (base.clone(), base.clone());
    for &(dir, kind, i) in ss {
        let p = if dir == 0 { &mut a } else { &mut b };
        match kind {
            0 => p.pend_r.push(i),
            1 => p.pend_w.push(i),
            _ => p.pend_f.push(i),
        }
    }
    (a, b)
}

struct Bounds {
    frag_pair_stride: usize,
    pending_bound: String,
}

fn enumerate(ctx: &Ctx, shape: &Shape, shape_c1: &Shape) -> (Vec<Case>, Bounds) {
    let mut cases = Vec::new();
    let [l1, l2, l3] = shape.len;
    let dflt = Pol::default;

    // (a) honest: all ordered pairs of distinct identities
    let nkeys: u64 = ctx.tier.pick(5, 12);
    for i in 1..=nkeys {
        for j in 1..=nkeys {
            if i != j {
                cases.push(pair("honest", "keys", i, j, dflt(), dflt(), Expect::BothOk));
            }
        }
    }

    // (b) tamper: every offset of every message x masks
    let masks: Vec<u8> = ctx.tier.pick(vec![0x01, 0x02, 0x04, 0x08, 0x10, 0x20, 0x40, 0x80, 0xff], (1..=255u8).collect());
    for (m, len) in [(1u8, l1), (2, l2), (3, l3)] {
        for off in 0..len as u64 {
            for &mask in &masks {
                let (mut a, mut b) = (dflt(), dflt());
                match m {
                    1 => a.flips.push((off, mask)),
                    2 => b.flips.push((off, mask)),
                    _ => a.flips.push((l1 as u64 + off, mask)),
                }
                let e = if m == 3 { Expect::ListenerErr } else { Expect::BothErr };
                cases.push(pair("tamper", &format!("msg{m}"), 1, 2, a, b, e));
            }
        }
    }

    // (c) truncation: EOF at every offset of each direction
    for cut in 0..(l1 + l3) as u64 {
        let mut a = dflt();
        a.cut = Some(cut);
        let (disc, e) = if cut < l1 as u64 { ("msg1", Expect::BothErr) } else { ("msg3", Expect::ListenerErr) };
        cases.push(pair("trunc", disc, 1, 2, a, dflt(), e));
    }
    for cut in 0..l2 as u64 {
        let mut b = dflt();
        b.cut = Some(cut);
        cases.push(pair("trunc", "msg2", 1, 2, dflt(), b, Expect::BothErr));
    }

    // (d) substitution / replay / reflection
    for same_ids in [true, false] {
        for target in 1..=3u8 {
            for k in 1..=3u8 {
                cases.push(Case::Subst { target, src: Src::Other(k), same_ids, kd: 1, kl: 2 });
            }
            for k in 1..target {
                cases.push(Case::Subst { target, src: Src::Own(k), same_ids, kd: 1, kl: 2 });
            }
        }
    }

    // (e) rogue
    let keysets: Vec<(u64, u64)> = ctx.tier.pick(vec![(11, 12), (13, 14), (15, 16)], (0..12u64).map(|i| (20 + 2 * i, 21 + 2 * i)).collect());
    for &(kr, kv) in &keysets {
        for rogue_is_dialer in [true, false] {
            for &(name, _, as_listener) in VARIANTS {
                if rogue_is_dialer || as_listener {
                    cases.push(Case::Rogue { rogue_is_dialer, variant: name.into(), kr, kv });
                }
            }
        }
    }

    // (e') rogue with history
    for rogue_is_dialer in [true, false] {
        for (kr, kv) in [(11u64, 12u64), (13, 14)] {
            cases.push(Case::RogueHistory { rogue_is_dialer, kr, kv });
        }
    }

    // (f) dialed-peer expectation
    for (kd, kl) in [(1u64, 2u64), (3, 4)] {
        for expectation in [Dialed::None, Dialed::Actual, Dialed::Other] {
            cases.push(Case::Dialed { expectation, kd, kl });
        }
    }

    // (g) fragmentation of the honest stream
    let frag = |a: Pol, b: Pol| pair("frag", "policy", 1, 2, a, b, Expect::BothOk);
    for chunk in [1usize, 2, 3, 7] {
        let p = Pol { read_chunk: Some(chunk), ..dflt() };
        cases.push(frag(p.clone(), p.clone()));
        cases.push(frag(p.clone(), dflt()));
        cases.push(frag(dflt(), p));
    }
    for acc in [1usize, 5] {
        let p = Pol { write_accept: Some(acc), ..dflt() };
        cases.push(frag(p.clone(), p.clone()));
        cases.push(frag(p.clone(), dflt()));
        cases.push(frag(dflt(), p));
    }
    for win in [1usize, 33] {
        let p = Pol { window: Some(win), ..dflt() };
        cases.push(frag(p.clone(), p));
    }
    for fr in [1usize, 2] {
        let p = Pol { first_read: Some(fr), ..dflt() };
        cases.push(frag(p.clone(), p));
    }
    let tiny = Pol { read_chunk: Some(1), write_accept: Some(1), window: Some(1), ..dflt() };
    cases.push(frag(tiny.clone(), tiny));
    // two-segment arrival split at every offset of each direction, under full-size and 1-byte reads
    for base in [dflt(), Pol { read_chunk: Some(1), ..dflt() }] {
        for (dir, total) in [(0u8, l1 + l3), (1u8, l2)] {
            for at in 1..total as u64 {
                cases.push(Case::Pair {
                    sub: "frag".into(),
                    disc: "split".into(),
                    kd: 1,
                    kl: 2,
                    d2l: base.clone(),
                    l2d: base.clone(),
                    expect: Expect::BothOk,
                    split: Some((dir, at)),
                });
            }
        }
    }
    // spurious Pending: all single sites, then pairs
    let stride: usize = 1;
    let bytewise_stride: usize = ctx.tier.pick(101, 1);
    let chunk1 = Pol { read_chunk: Some(1), write_accept: Some(1), ..dflt() };
    for (base, sh) in [(dflt(), shape), (chunk1, shape_c1)] {
        let ss = sites(&sh.ops);
        for s in &ss {
            let (a, b) = with_sites(&base, &[*s]);
            cases.push(pair("frag", "pending1", 1, 2, a, b, Expect::BothOk));
        }
    }
    let ss = sites(&shape.ops);
    let mut n = 0usize;
    for i in 0..ss.len() {
        for j in i + 1..ss.len() {
            if n % stride == 0 {
                let (a, b) = with_sites(&dflt(), &[ss[i], ss[j]]);
                cases.push(pair("frag", "pending2", 1, 2, a, b, Expect::BothOk));
            }
            n += 1;
        }
    }
    {
        // pairs under the byte-at-a-time base as well (the site universe is ~ twice the stream length)
        let ss = sites(&shape_c1.ops);
        let mut n = 0usize;
        for i in 0..ss.len() {
            for j in i + 1..ss.len() {
                if n % bytewise_stride == 0 {
                    let base = Pol { read_chunk: Some(1), write_accept: Some(1), ..dflt() };
                    let (a, b) = with_sites(&base, &[ss[i], ss[j]]);
                    cases.push(pair("frag", "pending2-bytewise", 1, 2, a, b, Expect::BothOk));
                }
                n += 1;
            }
        }
    }
    let pending_bound = format!(
        "0 and 1 injected Pending complete (default-policy base and byte-at-a-time base); 2 injected Pending complete for the \
         default-policy base, every {bytewise_stride}th pair (1 = all) for the byte-at-a-time base"
    );
    (cases, Bounds { frag_pair_stride: bytewise_stride, pending_bound })
}

// ---------------------------------------------------------------------------------------------------------
// entry points
// ---------------------------------------------------------------------------------------------------------

pub fn run(ctx: &mut Ctx) {
    let shape = match measure_shape(&Pol::default(), &Pol::default()) {
        Ok(s) => s,
        Err(e) => {
            // No honest handshake => the byte-position grids cannot be laid out. Report, and still run the
            // sub-checks that do not need the shape (rogue payloads, dialed-peer expectation).
            ctx.violation(Violation { signature: "honest/failed".into(), what: e, replay: json!({"kind": "baseline"}) });
            let r = run_pair(1, 2, &Pol::default(), &Pol::default());
            let len1 = frames(&r.h_d2l.log()).first().map(|f| f.len()).unwrap_or(0);
            let mut probe = Ctx::new(ctx.id, ctx.tier, ctx.seed, ctx.level);
            let fake = Shape { len: [len1, 0, 0], ops: [(0, 0, 0); 2] };
            let (cases, _) = enumerate(&mut probe, &fake, &fake);
            let cases: Vec<Case> = cases.into_iter().filter(|c| matches!(c, Case::Rogue { .. } | Case::RogueHistory { .. } | Case::Dialed { .. })).collect();
            let results = run_all(&cases, len1);
            let mut nontrivial = 0u64;
            for (c, r) in cases.iter().zip(results.iter()) {
                ctx.cov_add("evaluations", r.evaluations);
                nontrivial += r.nontrivial as u64;
                let cj = serde_json::to_value(c).expect("case serialises");
                for (sig, what) in &r.violations {
                    ctx.violation(Violation { signature: sig.clone(), what: what.clone(), replay: cj.clone() });
                }
                ctx.sample(json!({"case": cj, "observed": r.summary}));
            }
            ctx.cov("distinct_nontrivial", nontrivial);
            ctx.cov("exhaustive", false);
            ctx.cov("rule", "honest baseline failed; only the rogue-payload and dialed-peer grids were run");
            return;
        }
    };
    let c1 = Pol { read_chunk: Some(1), write_accept: Some(1), ..Pol::default() };
    let shape_c1 = match measure_shape(&c1, &c1) {
        Ok(s) => s,
        Err(e) => {
            ctx.violation(Violation { signature: "frag/outcome-differs".into(), what: e, replay: json!({"kind": "baseline-bytewise"}) });
            ctx.sample(json!({"baseline": "failed"}));
            return;
        }
    };
    if shape_c1.len != shape.len {
        ctx.machinery_error(format!("message lengths differ between runs: {:?} vs {:?}", shape.len, shape_c1.len));
    }
    let (cases, bounds) = enumerate(ctx, &shape, &shape_c1);
    let results = run_all(&cases, shape.len[0]);

    let mut distinct: HashSet<u128> = HashSet::new();
    let mut all: HashSet<u128> = HashSet::new();
    #[derive(Default)]
    struct Agg {
        cases: u64,
        evaluations: u64,
        nontrivial: u64,
        violations: u64,
        facts: BTreeMap<String, u64>,
    }
    let mut per: BTreeMap<String, Agg> = BTreeMap::new();
    let mut sampled: BTreeMap<String, u32> = BTreeMap::new();
    let mut lengths_checked = 0u64;
    for (c, r) in cases.iter().zip(results.iter()) {
        let cj = serde_json::to_value(c).expect("case serialises");
        let h = hash128(cj.to_string().as_bytes());
        all.insert(h);
        let sub = case_sub(c).to_string();
        let a = per.entry(sub.clone()).or_default();
        a.cases += 1;
        a.evaluations += r.evaluations;
        ctx.cov_add("evaluations", r.evaluations);
        if r.nontrivial {
            a.nontrivial += 1;
            distinct.insert(h);
        }
        for (k, v) in &r.facts {
            *a.facts.entry(k.clone()).or_default() += v;
        }
        a.violations += r.violations.len() as u64;
        for m in &r.machinery {
            ctx.machinery_error(m.clone());
        }
        for (sig, what) in &r.violations {
            ctx.violation(Violation { signature: sig.clone(), what: what.clone(), replay: cj.clone() });
        }
        lengths_checked += 1;
        // samples: the first of each sub-check plus a mid-grid one
        let k = sampled.entry(sub.clone()).or_default();
        if *k < 2 && (*k == 0 || a.cases % 97 == 0) {
            *k += 1;
            ctx.sample(json!({"case": cj, "observed": r.summary}));
        }
    }
    let _ = lengths_checked;
    if all.len() != cases.len() {
        ctx.machinery_error(format!("{} duplicate cases in the enumeration", cases.len() - all.len()));
    }
    for (sub, a) in &per {
        ctx.sub(
            sub,
            json!({"cases": a.cases, "handshake_pairs_run": a.evaluations, "nontrivial": a.nontrivial, "violations": a.violations, "facts": a.facts}),
        );
    }
    ctx.sub(
        "shape",
        json!({
            "message_lengths_incl_prefix": shape.len,
            "ops_default_policy_[reads,writes,flushes]_d2l_l2d": [[shape.ops[0].0, shape.ops[0].1, shape.ops[0].2], [shape.ops[1].0, shape.ops[1].1, shape.ops[1].2]],
            "ops_bytewise_[reads,writes,flushes]_d2l_l2d": [[shape_c1.ops[0].0, shape_c1.ops[0].1, shape_c1.ops[0].2], [shape_c1.ops[1].0, shape_c1.ops[1].1, shape_c1.ops[1].2]],
            "pending_pair_stride_bytewise_base": bounds.frag_pair_stride,
            "rogue_variants": VARIANTS.len(),
        }),
    );
    ctx.cov("cases", cases.len() as u64);
    ctx.cov("distinct_nontrivial", distinct.len() as u64);
    ctx.cov("exhaustive", true);
    ctx.cov("deviation_bound_completed", bounds.pending_bound.clone());
    ctx.cov(
        "rule",
        "complete grid: ordered pairs of distinct identity keys; every byte offset of each of the 3 handshake messages (length \
         prefix included) x XOR masks; EOF at every stream offset of each direction; every (target message, source frame) \
         substitution from a recorded session between the same or other identities and from earlier frames of the same \
         session; every rogue payload variant x rogue role x key set on a valid snow XX session; dialed-peer expectation \
         {none, actual, other} through TcpConnection::open_connection/accept_connection on loopback; read chunk / short \
         write / window policies, two-segment arrival split at every offset, spurious Pending at every observed \
         read/write/flush op index (singles complete, pairs per stated bound). Oracle: Ok(P) only with P = hash of the \
         remote's proven identity key; the side fed altered/missing/forged bytes returns Err (after the virtual timeout \
         if it was left waiting); fragmentation never changes the honest outcome.",
    );
    ctx.assume("Noise DH keys (static and ephemeral) are drawn from OS entropy per run, so ciphertext differs between runs; message LENGTHS are fixed and tampering is addressed by stream position. Verdicts are assumed independent of the random key bytes.");
    ctx.assume("Identity keys come from fixed seeds (util::keypair); a handful of key sets stands for 'all identity keypairs' (the code paths do not branch on key bytes).");
    ctx.assume("A side left waiting for bytes that never come is modelled by advancing virtual time past the handshake timeout (10 s) once the driver stalls; it must then return Err(Timeout).");
    ctx.assume("The dialer legitimately completes once it has sent message 3; faults confined to message 3 are only required to fail the listener.");
    ctx.assume("The rogue peer uses litep2p's own snow CryptoResolver (x25519/ChaChaPoly/SHA256) through a re-export hook; only its identity payload is adversarial.");
    ctx.assume("The dialed-peer sub-check uses real 127.0.0.1 TCP sockets in a normal (unpaused) current-thread runtime; its outcome does not depend on timing (timeouts 20 s, never reached).");
    dialed_through_the_stack(ctx);
    ctx.assume("weak_key_universal_sig (small-order ed25519 key whose fixed signature verifies for any message under non-strict verification) is recorded as information only: nobody holds such a key, the statement is silent.");
}

// ---------------------------------------------------------------------------------------------------------
// (h) dialed-peer expectation through the whole stack: real Litep2p nodes, real TcpTransport (E4)
// ---------------------------------------------------------------------------------------------------------

/// `Litep2p::dial(peer)` (manager -> `Transport::open` -> `negotiate`) and `Litep2p::dial_address(addr/p2p/peer)`
/// (`Transport::dial`) towards an address at which a node with ANOTHER identity completes a perfectly valid
/// handshake: exactly one `DialFailure`, never a connection; the honest dial yields the connection to the proven id.
fn dialed_through_the_stack(ctx: &mut Ctx) {
    use crate::env::simnet::{NodeCmd, NodeLog, World};
    use litep2p::config::ConfigBuilder;
    #[derive(Clone, Copy, Debug)]
    enum How {
        ByPeerId,
        ByAddress,
    }
    for (how, honest) in [(How::ByPeerId, false), (How::ByAddress, false), (How::ByPeerId, true), (How::ByAddress, true)] {
        let result = std::thread::spawn(move || -> Result<String, (String, String)> {
            let rt = crate::env::driver::runtime_io(7);
            let r = catch_unwind(AssertUnwindSafe(|| {
                rt.block_on(async {
                    let (_park_tx, park_rx) = std::sync::mpsc::channel::<()>();
                    let _parked = tokio::task::spawn_blocking(move || {
                        let _ = park_rx.recv();
                    });
                    let mut w = World::new();
                    let mk = || ConfigBuilder::new().with_keep_alive_timeout(std::time::Duration::from_secs(100_000));
                    let l = w.add_tcp_node(41, mk()).expect("tcp node");
                    let r = w.add_tcp_node(42, mk()).expect("tcp node");
                    async fn settle(w: &mut World) {
                        loop {
                            w.run_to_quiescence(1_000_000);
                            if !crate::mc::e2::settle_io(w).await {
                                break;
                            }
                        }
                    }
                    settle(&mut w).await;
                    let peer_r = w.nodes[r].peer;
                    let other = util::peer(4242);
                    let target = if honest { peer_r } else { other };
                    let addr_r = w.nodes[r].address.clone();
                    let bare: multiaddr::Multiaddr = addr_r.iter().filter(|p| !matches!(p, multiaddr::Protocol::P2p(_))).collect();
                    let claimed = bare.with(multiaddr::Protocol::P2p(target.into()));
                    match how {
                        How::ByPeerId => {
                            let _ = w.nodes[l].cmd.send(NodeCmd::AddKnown(target, claimed));
                            settle(&mut w).await;
                            let _ = w.nodes[l].cmd.send(NodeCmd::Dial(target));
                        }
                        How::ByAddress => {
                            let _ = w.nodes[l].cmd.send(NodeCmd::DialAddress(claimed));
                        }
                    }
                    // the handshake, and then whatever timeouts there are
                    for _ in 0..4 {
                        settle(&mut w).await;
                        tokio::time::advance(std::time::Duration::from_secs(10)).await;
                    }
                    settle(&mut w).await;
                    let log: Vec<NodeLog> = w.nodes[l].log.lock().clone();
                    let short: Vec<String> = log
                        .iter()
                        .map(|e| match e {
                            NodeLog::Event(s) => s.chars().take(160).collect(),
                            NodeLog::DialResult(_, r) => format!("dial() -> {r:?}"),
                        })
                        .collect();
                    let established: Vec<&String> = short.iter().filter(|s| s.starts_with("ConnectionEstablished")).collect();
                    // the node log holds the manager's own events: a failed `dial_address` ends as DialFailure, a failed dial by
                    // peer id (several addresses may be tried) as OpenFailure
                    let failures = short.iter().filter(|s| s.starts_with("DialFailure") || s.starts_with("OpenFailure")).count();
                    let desc = format!("{how:?} target={} (listener proves {peer_r}); dialer log {short:?}", if honest { "listener's id" } else { "another id" });
                    if honest {
                        if established.len() != 1 || !established[0].contains(&peer_r.to_string()) || failures != 0 {
                            return Err(("stack/honest-dial-failed".to_string(), desc));
                        }
                    } else {
                        if !established.is_empty() {
                            return Err(("stack/mismatch-accepted".to_string(), format!("a connection was reported although the listener proved a different identity than the one dialed; {desc}")));
                        }
                        if failures != 1 {
                            return Err((
                                "stack/mismatch-not-reported".to_string(),
                                format!("dialing an identity the listener cannot prove must end in exactly one dial failure event, saw {failures}; {desc}"),
                            ));
                        }
                    }
                    Ok(desc)
                })
            }));
            match r {
                Ok(x) => x,
                Err(_) => {
                    let msg = take_panic();
                    Err((format!("panic/{}", panic_site(&msg)), format!("{how:?} honest={honest}: panic while dialing: {msg}")))
                }
            }
        })
        .join();
        let replay = json!({"kind": "dialed-through-the-stack", "how": format!("{how:?}"), "honest": honest});
        match result {
            Ok(Ok(desc)) => {
                ctx.cov_add("evaluations", 1);
                ctx.cov_add("dialed_through_the_stack_runs", 1);
                if !honest && matches!(how, How::ByPeerId) {
                    ctx.sample(json!({"case": replay, "observed": desc.chars().take(600).collect::<String>()}));
                }
            }
            Ok(Err((sig, what))) => ctx.violation(Violation { signature: sig, what, replay }),
            Err(_) => ctx.machinery_error("dialed-through-the-stack: harness thread panicked outside the guarded region"),
        }
    }
    ctx.assume("Sub-check (h) runs two real Litep2p nodes with the real TcpTransport over loopback in a paused current-thread runtime (auto-advance inhibited), one deterministic execution per (dial API, honest/mismatching target).");
}

pub fn replay(case: &Value) -> Result<String, String> {
    if case.get("kind").and_then(|k| k.as_str()).map(|k| k.starts_with("baseline")).unwrap_or(false) {
        return match measure_shape(&Pol::default(), &Pol::default()) {
            Ok(s) => Ok(format!("baseline ok {s:?}")),
            Err(e) => Err(e),
        };
    }
    let c: Case = serde_json::from_value(case.clone()).map_err(|e| format!("bad case: {e}"))?;
    let shape = measure_shape(&Pol::default(), &Pol::default())?;
    let r = run_case(&c, shape.len[0]);
    let mut log = format!("{}\n", r.summary);
    for m in &r.machinery {
        log.push_str(&format!("machinery: {m}\n"));
    }
    if r.violations.is_empty() && r.machinery.is_empty() {
        Ok(log)
    } else {
        for (sig, what) in &r.violations {
            log.push_str(&format!("[{sig}] {what}\n"));
        }
        Err(log)
    }
}
