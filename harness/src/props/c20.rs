//! C20 — Bitswap blocks are verified against their content identifier.
//!
//! Exhaustive input enumeration against the real `block_to_response`, `blocks_message`,
//! `extract_next_batch` (through the `bitswap::verif` seam).
//!
//! (A) inbound: every prefix of a stated grammar (versions x codecs x hash codes x claimed lengths, every
//!     truncation / trailing byte / non-minimal varint / overflowing varint of those, a scan of all hash codes
//!     0..=0x1ffff) x data sizes x single-byte tampers. Oracle: a delivered block carries exactly the bytes
//!     handed in and a CID whose version/codec/hash code are the prefix's and whose digest is the reference
//!     digest of exactly those bytes (sha2-256/512 recomputed with the independent `sha2` crate, the others
//!     with the multihash code table); prefixes that are malformed, name an unknown CID version, a length that
//!     does not fit a byte, an uncomputable hash or an invalid CIDv0 must be dropped; never a panic.
//!     Round trip: `blocks_message` -> `decode_message` -> `block_to_response` returns the honest `(cid, data)`.
//! (B) outbound: every block-size sequence up to a length bound over a size alphabet, for small and for the
//!     real batch limit; the `send_response` loop is reproduced (`extract_next_batch` until `None`, each batch
//!     through `blocks_message`, messages above `MAX_MESSAGE_SIZE` are not sent). Oracle: every batch within
//!     the limit, every block whose own size is within the limit sent exactly once in order, every encoded
//!     message within `MAX_MESSAGE_SIZE` and decodable to exactly the batch, the loop makes progress.

use crate::{
    mc::e1::{hash128, panic_site, take_panic},
    report::{Ctx, Violation},
    util::{self, hex},
};
use cid::{multihash::Multihash, Cid, Version};
use litep2p::{
    protocol::libp2p::bitswap::{verif as bs, ResponseType},
    types::multihash::{Code, MultihashDigest},
    PeerId,
};
use serde_json::{json, Value};
use sha2::{Digest, Sha256, Sha512};
use std::{
    collections::{HashMap, HashSet, VecDeque},
    panic::{catch_unwind, AssertUnwindSafe},
};

#[derive(Debug, Clone)]
struct Fail {
    sig: String,
    what: String,
}

fn fail(sig: impl Into<String>, what: impl Into<String>) -> Fail {
    Fail { sig: sig.into(), what: what.into() }
}

fn guarded<T>(site: &str, f: impl FnOnce() -> T) -> Result<T, Fail> {
    catch_unwind(AssertUnwindSafe(f)).map_err(|_| {
        let msg = take_panic();
        fail(format!("panic/{}", panic_site(&msg)), format!("panic in {site}: {msg}"))
    })
}

// ------------------------------------------------------------------------------------------------
// independent model of the prefix grammar
// ------------------------------------------------------------------------------------------------

fn varint(mut v: u64, out: &mut Vec<u8>) {
    loop {
        let b = (v & 0x7f) as u8;
        v >>= 7;
        if v == 0 {
            out.push(b);
            return;
        }
        out.push(b | 0x80);
    }
}

/// non-minimal encoding of `v`: the minimal one with `pad` redundant continuation groups
fn varint_overlong(v: u64, pad: usize, out: &mut Vec<u8>) {
    let mut tmp = Vec::new();
    varint(v, &mut tmp);
    let last = tmp.len() - 1;
    tmp[last] |= 0x80;
    for _ in 1..pad {
        tmp.push(0x80);
    }
    tmp.push(0x00);
    out.extend_from_slice(&tmp);
}

fn enc_prefix(f: [u64; 4]) -> Vec<u8> {
    let mut out = Vec::new();
    for v in f {
        varint(v, &mut out);
    }
    out
}

/// strict minimal unsigned LEB128 limited to 64 bits; the error names the malformation
fn read_varint(b: &[u8]) -> Result<(u64, &[u8]), &'static str> {
    let mut v: u64 = 0;
    for (i, &x) in b.iter().enumerate() {
        if i == 9 && x > 1 {
            return Err("varint-overflow"); // more than 64 bits (also a continuation bit on the 10th byte)
        }
        v |= ((x & 0x7f) as u64) << (7 * i);
        if x & 0x80 == 0 {
            if x == 0 && i > 0 {
                return Err("non-minimal-varint");
            }
            return Ok((v, &b[i + 1..]));
        }
    }
    Err("truncated-prefix")
}

fn parse_prefix(b: &[u8]) -> Result<[u64; 4], &'static str> {
    let (a, r) = read_varint(b)?;
    let (c, r) = read_varint(r)?;
    let (h, r) = read_varint(r)?;
    let (l, r) = read_varint(r)?;
    if r.is_empty() {
        Ok([a, c, h, l])
    } else {
        Err("trailing-bytes")
    }
}

fn computable(code: u64) -> bool {
    Code::try_from(code).is_ok()
}

/// (digest, which reference produced it)
fn ref_digest(code: u64, data: &[u8]) -> Option<(Vec<u8>, &'static str)> {
    match code {
        0x12 => Some((Sha256::digest(data).to_vec(), "sha2-independent")),
        0x13 => Some((Sha512::digest(data).to_vec(), "sha2-independent")),
        c => Code::try_from(c).ok().map(|c| (c.digest(data).digest().to_vec(), "codetable")),
    }
}

#[derive(Debug, Clone, Copy, PartialEq, Eq)]
enum Expect {
    /// the property demands the block is dropped; the string names the input class
    Drop(&'static str),
    /// well-formed and computable: delivering (with a correct CID) and dropping are both accepted here
    Valid { version: u64, codec: u64, code: u64, len: u64 },
}

fn classify(prefix: &[u8]) -> Expect {
    let [version, codec, code, len] = match parse_prefix(prefix) {
        Ok(f) => f,
        Err(why) => return Expect::Drop(why),
    };
    if version > 1 {
        return Expect::Drop("unknown-cid-version");
    }
    if len > 255 {
        return Expect::Drop("length-exceeds-u8");
    }
    if !computable(code) {
        return Expect::Drop("uncomputable-hash");
    }
    if version == 0 && (codec != 0x70 || code != 0x12) {
        return Expect::Drop("invalid-cidv0");
    }
    Expect::Valid { version, codec, code, len }
}

// ------------------------------------------------------------------------------------------------
// (A) inbound oracle
// ------------------------------------------------------------------------------------------------

struct Inb {
    delivered: Option<Cid>,
    fails: Vec<Fail>,
}

fn short(b: &[u8]) -> String {
    if b.len() <= 40 {
        hex(b)
    } else {
        format!("{}..({} bytes)", hex(&b[..16]), b.len())
    }
}

fn check_inbound(peer: &PeerId, prefix: &[u8], data: &[u8]) -> Inb {
    let expect = classify(prefix);
    let input = format!("prefix={} data={}", hex(prefix), short(data));
    let r = match guarded("block_to_response", || bs::block_to_response(peer, prefix.to_vec(), data.to_vec())) {
        Ok(r) => r,
        Err(f) => return Inb { delivered: None, fails: vec![fail(f.sig, format!("{} [{input}]", f.what))] },
    };
    let mut fails = Vec::new();
    let (cid, block) = match r {
        None => return Inb { delivered: None, fails },
        Some(ResponseType::Block { cid, block }) => (cid, block),
        Some(other) => {
            fails.push(fail("inbound/not-a-block", format!("expected a block or nothing, got {other:?} [{input}]")));
            return Inb { delivered: None, fails };
        }
    };
    match expect {
        Expect::Drop(why) => {
            fails.push(fail(
                format!("inbound/delivered-despite-{why}"),
                format!("expected the block to be dropped ({why}), but it was delivered under {cid} [{input}]"),
            ));
        }
        Expect::Valid { version, codec, code, len } => {
            if block != data {
                fails.push(fail(
                    "inbound/delivered-bytes-differ",
                    format!("delivered bytes {} differ from the received bytes [{input}]", short(&block)),
                ));
            }
            if u64::from(cid.version()) != version || cid.codec() != codec {
                fails.push(fail(
                    "inbound/version-or-codec-not-preserved",
                    format!(
                        "prefix says version={version} codec={codec:#x}, delivered CID has version={} codec={:#x} [{input}]",
                        u64::from(cid.version()),
                        cid.codec()
                    ),
                ));
            }
            if cid.hash().code() != code {
                fails.push(fail(
                    "inbound/hash-code-mismatch",
                    format!("prefix names hash {code:#x}, delivered CID uses {:#x} [{input}]", cid.hash().code()),
                ));
            } else {
                let got = cid.hash().digest();
                // digest of the *delivered* bytes
                let (want, which) = ref_digest(code, &block).expect("computable");
                let truncated_ok = len >= 1 && (len as usize) < want.len() && got == &want[..len as usize];
                if got.is_empty() {
                    fails.push(fail(
                        "inbound/empty-digest",
                        format!("delivered CID {cid} carries an empty digest: it does not identify the bytes [{input}]"),
                    ));
                } else if got != &want[..] && !truncated_ok {
                    fails.push(fail(
                        format!("inbound/digest-mismatch/{which}"),
                        format!(
                            "delivered CID digest {} is not the {code:#x} digest {} of the delivered bytes [{input}]",
                            hex(got),
                            hex(&want)
                        ),
                    ));
                }
            }
        }
    }
    Inb { delivered: Some(cid), fails }
}

/// same prefix, two different payloads: the identifiers must differ (reference-free sensitivity check)
fn check_tamper(peer: &PeerId, prefix: &[u8], data: &[u8], tampered: &[u8], base: Option<&Inb>) -> (Inb, Vec<Fail>) {
    let owned;
    let base = match base {
        Some(b) => b,
        None => {
            owned = check_inbound(peer, prefix, data);
            &owned
        }
    };
    let t = check_inbound(peer, prefix, tampered);
    let mut fails = t.fails.clone();
    if let (Some(a), Some(b)) = (&base.delivered, &t.delivered) {
        if data != tampered && a.hash().digest().len() >= 16 && b.hash().digest().len() >= 16 && a == b {
            fails.push(fail(
                "inbound/cid-insensitive-to-data",
                format!(
                    "two different payloads {} and {} were both delivered under {a} [prefix={}]",
                    short(data),
                    short(tampered),
                    hex(prefix)
                ),
            ));
        }
    }
    (t, fails)
}

fn honest_cid(version: u64, codec: u64, code: u64, data: &[u8]) -> Option<Cid> {
    let (d, _) = ref_digest(code, data)?;
    let mh = Multihash::wrap(code, &d).ok()?;
    Cid::new(Version::try_from(version).ok()?, codec, mh).ok()
}

/// honest sender -> wire -> receiver
fn check_roundtrip(peer: &PeerId, blocks: &[(u64, u64, u64, Vec<u8>)]) -> Vec<Fail> {
    let mut fails = Vec::new();
    let mut honest = Vec::new();
    for (v, c, h, d) in blocks {
        match honest_cid(*v, *c, *h, d) {
            Some(cid) => honest.push((cid, d.clone())),
            None => {
                fails.push(fail("machinery/roundtrip-invalid-combo", format!("not a valid CID: v={v} codec={c:#x} code={h:#x}")));
                return fails;
            }
        }
    }
    let desc = blocks
        .iter()
        .take(4)
        .map(|(v, c, h, d)| format!("(v{v},codec {c:#x},hash {h:#x},{} B)", d.len()))
        .collect::<Vec<_>>()
        .join(",");
    let desc = format!("{} block(s): {desc}{}", blocks.len(), if blocks.len() > 4 { ",.." } else { "" });
    let msg = match guarded("blocks_message", || bs::blocks_message(honest.clone())) {
        Ok(m) => m,
        Err(f) => return vec![f],
    };
    let Some((msg, count)) = msg else {
        fails.push(fail("roundtrip/no-message", format!("blocks_message produced nothing for {desc}")));
        return fails;
    };
    if count != honest.len() {
        fails.push(fail("roundtrip/count-mismatch", format!("blocks_message reports {count} blocks for {desc}")));
    }
    let dec = match guarded("decode_message", || bs::decode_message(&msg)) {
        Ok(d) => d,
        Err(f) => return vec![f],
    };
    let Some((payload, _, _)) = dec else {
        fails.push(fail("roundtrip/undecodable", format!("own wire message does not decode for {desc}")));
        return fails;
    };
    if payload.len() != honest.len() {
        fails.push(fail(
            "roundtrip/block-count-differs",
            format!("wire message carries {} blocks, expected {} for {desc}", payload.len(), honest.len()),
        ));
        return fails;
    }
    for (i, ((wire_prefix, wire_data), (cid, data))) in payload.into_iter().zip(honest.iter()).enumerate() {
        let want_prefix =
            enc_prefix([u64::from(cid.version()), cid.codec(), cid.hash().code(), cid.hash().size() as u64]);
        if wire_prefix != want_prefix {
            fails.push(fail(
                "roundtrip/wire-prefix-mismatch",
                format!(
                    "block {i} of {desc}: wire prefix {} but CID {cid} has prefix {}",
                    hex(&wire_prefix),
                    hex(&want_prefix)
                ),
            ));
        }
        if &wire_data != data {
            fails.push(fail("roundtrip/wire-data-mismatch", format!("block {i} of {desc}: wire data differs")));
        }
        match guarded("block_to_response", || bs::block_to_response(peer, wire_prefix.clone(), wire_data.clone())) {
            Err(f) => fails.push(f),
            Ok(Some(ResponseType::Block { cid: got, block })) => {
                if &got != cid || &block != data {
                    fails.push(fail(
                        "roundtrip/cid-differs",
                        format!(
                            "block {i} of {desc}: honest sender used {cid}, receiver recomputed {got} (data equal: {})",
                            &block == data
                        ),
                    ));
                }
            }
            Ok(other) => fails.push(fail(
                "roundtrip/honest-block-dropped",
                format!(
                    "block {i} of {desc}: honest block with CID {cid} (wire prefix {}) was not delivered: {other:?}",
                    hex(&wire_prefix)
                ),
            )),
        }
    }
    fails
}

/// deterministic payload
fn pattern(len: usize, salt: u64) -> Vec<u8> {
    (0..len).map(|i| ((i as u64).wrapping_mul(31).wrapping_add(7).wrapping_add(salt.wrapping_mul(13)) & 0xff) as u8).collect()
}

// ------------------------------------------------------------------------------------------------
// (B) outbound oracle
// ------------------------------------------------------------------------------------------------

#[derive(Clone, Copy, PartialEq, Eq, Debug)]
enum Wire {
    /// only `extract_next_batch`
    No,
    /// `blocks_message` length only
    Len,
    /// `blocks_message` + `decode_message` compared with the batch
    Full,
}

struct BatchOut {
    batches: usize,
    max_message_len: usize,
    fails: Vec<Fail>,
}

/// CID flavour with the longest prefix used here (see `block_cid`)
const LONG_PREFIX: u64 = 0x0129_b220;

/// distinct identifier per (index, size); `code` only labels the 32-byte digest (it decides the prefix length
/// on the wire: 0x12 -> 4-byte prefix, 0xb220 -> 6-byte prefix)
fn block_cid(index: usize, size: usize, code: u64) -> Cid {
    let mut h = Sha256::new();
    h.update(b"c20-block");
    h.update((index as u64).to_le_bytes());
    h.update((size as u64).to_le_bytes());
    // flavour LONG_PREFIX: dag-json codec (0x0129, 2-byte varint) + blake2b-256 (0xb220, 3-byte varint) = 7-byte prefix
    let (codec, hash_code) = if code == LONG_PREFIX { (0x0129, 0xb220) } else { (0x55, code) };
    Cid::new_v1(codec, Multihash::wrap(hash_code, &h.finalize()).expect("32 bytes"))
}

fn fill_byte(index: usize) -> u8 {
    (index % 251) as u8 + 1
}

fn runs_of(sizes: &[usize]) -> Vec<(usize, usize)> {
    let mut runs: Vec<(usize, usize)> = Vec::new();
    for &s in sizes {
        match runs.last_mut() {
            Some((v, n)) if *v == s => *n += 1,
            _ => runs.push((s, 1)),
        }
    }
    runs
}

fn describe_sizes(sizes: &[usize]) -> String {
    if sizes.len() <= 12 {
        format!("{sizes:?}")
    } else {
        let r = runs_of(sizes);
        format!("runs(size x count)={:?}", &r[..r.len().min(8)])
    }
}

fn batch_case_json(max: usize, sizes: &[usize], wire: Wire, code: u64) -> Value {
    let wire = match wire {
        Wire::No => "no",
        Wire::Len => "len",
        Wire::Full => "full",
    };
    if sizes.len() <= 64 {
        json!({"kind": "batch", "max": max, "sizes": sizes, "wire": wire, "cid_hash_code": code})
    } else {
        json!({"kind": "batch", "max": max, "runs": runs_of(sizes).iter().map(|(s, n)| json!([s, n])).collect::<Vec<_>>(), "wire": wire, "cid_hash_code": code})
    }
}

/// Reproduce `send_response`'s block loop for blocks of the given sizes.
fn run_batch(max: usize, sizes: &[usize], wire: Wire, max_message: usize, code: u64) -> BatchOut {
    let n = sizes.len();
    let input = format!("max_batch_size={max} block sizes={} cid hash code={code:#x}", describe_sizes(sizes));
    // identifiers are recomputed on demand instead of being kept (memory for several 100k blocks)
    let cid_of = |i: usize| block_cid(i, sizes[i], code);
    let mut deque: VecDeque<(Cid, Vec<u8>)> =
        sizes.iter().enumerate().map(|(i, &s)| (cid_of(i), vec![fill_byte(i); s])).collect();
    // blocks that fit the limit on their own, in order
    let expected: Vec<usize> = (0..n).filter(|&i| sizes[i] <= max).collect();
    let mut out = BatchOut { batches: 0, max_message_len: 0, fails: Vec::new() };
    let mut sent: Vec<usize> = Vec::new();
    let mut index_of: Option<HashMap<Cid, usize>> = None;
    let cap = n + 2;
    let mut calls = 0usize;
    loop {
        calls += 1;
        if calls > cap {
            out.fails.push(fail(
                "batching/no-progress",
                format!("extract_next_batch still returns batches after {cap} calls for {n} blocks [{input}]"),
            ));
            break;
        }
        let before = deque.len();
        let batch = match guarded("extract_next_batch", || bs::extract_next_batch(&mut deque, max)) {
            Ok(b) => b,
            Err(f) => {
                out.fails.push(fail(f.sig, format!("{} [{input}]", f.what)));
                return out;
            }
        };
        let Some(batch) = batch else { break };
        if batch.is_empty() {
            if deque.len() == before {
                out.fails.push(fail(
                    "batching/no-progress",
                    format!(
                        "extract_next_batch returned an empty batch without consuming anything ({before} blocks left): send_response would loop forever [{input}]"
                    ),
                ));
                break;
            }
            continue;
        }
        out.batches += 1;
        let total: usize = batch.iter().map(|b| b.1.len()).sum();
        if total > max {
            out.fails.push(fail(
                "batching/batch-exceeds-max",
                format!(
                    "batch #{} holds {} blocks totalling {total} B > max {max} (sizes {:?}) [{input}]",
                    out.batches,
                    batch.len(),
                    batch.iter().take(8).map(|b| b.1.len()).collect::<Vec<_>>()
                ),
            ));
        }
        // identify the blocks
        let mut ids = Vec::with_capacity(batch.len());
        for (cid, data) in &batch {
            let guess = expected.get(sent.len() + ids.len()).copied();
            let idx = match guess {
                Some(g) if &cid_of(g) == cid => Some(g),
                _ => index_of
                    .get_or_insert_with(|| (0..n).map(|i| (cid_of(i), i)).collect())
                    .get(cid)
                    .copied(),
            };
            match idx {
                None => {
                    out.fails.push(fail("batching/unknown-block-sent", format!("batch contains a block {cid} that was never queued [{input}]")));
                    return out;
                }
                Some(i) => {
                    if data.len() != sizes[i] || data.iter().any(|&b| b != fill_byte(i)) {
                        out.fails.push(fail("batching/block-data-changed", format!("block #{i} was altered in the batch [{input}]")));
                    }
                    ids.push(i);
                }
            }
        }
        if wire != Wire::No {
            let blen = batch.len();
            match guarded("blocks_message", || bs::blocks_message(batch)) {
                Err(f) => out.fails.push(fail(f.sig, format!("{} [{input}]", f.what))),
                Ok(None) => out.fails.push(fail("batching/no-message", format!("blocks_message produced nothing for a batch of {blen} [{input}]"))),
                Ok(Some((msg, count))) => {
                    out.max_message_len = out.max_message_len.max(msg.len());
                    if count != blen {
                        out.fails.push(fail("batching/message-count-mismatch", format!("blocks_message reports {count} of {blen} blocks [{input}]")));
                    }
                    if msg.len() > max_message {
                        out.fails.push(fail(
                            "batching/encoded-message-exceeds-limit",
                            format!(
                                "batch #{} of {blen} blocks ({total} B of data <= max_batch_size {max}) encodes to {} B > MAX_MESSAGE_SIZE {max_message}: send_response only logs a warning and never sends these blocks, although each fits a message on its own [{input}]",
                                out.batches,
                                msg.len()
                            ),
                        ));
                    }
                    if wire == Wire::Full {
                        match guarded("decode_message", || bs::decode_message(&msg)) {
                            Err(f) => out.fails.push(fail(f.sig, format!("{} [{input}]", f.what))),
                            Ok(None) => out.fails.push(fail("batching/wire-undecodable", format!("own blocks message does not decode [{input}]"))),
                            Ok(Some((payload, _, _))) => {
                                let same = payload.len() == ids.len()
                                    && payload.iter().zip(ids.iter()).all(|((p, d), &i)| {
                                        let c = cid_of(i);
                                        *p == enc_prefix([u64::from(c.version()), c.codec(), c.hash().code(), c.hash().size() as u64])
                                            && d.len() == sizes[i]
                                            && d.iter().all(|&b| b == fill_byte(i))
                                    });
                                if !same {
                                    out.fails.push(fail(
                                        "batching/wire-blocks-differ",
                                        format!(
                                            "wire message of batch #{} decodes to {} blocks that are not exactly the batch's {} blocks in order [{input}]",
                                            out.batches,
                                            payload.len(),
                                            ids.len()
                                        ),
                                    ));
                                }
                            }
                        }
                    }
                }
            }
        }
        sent.extend(ids);
    }
    if sent != expected {
        let mut count = vec![0usize; n];
        for &i in &sent {
            count[i] += 1;
        }
        let dup: Vec<usize> = (0..n).filter(|&i| count[i] > 1).take(8).collect();
        let lost: Vec<usize> = expected.iter().copied().filter(|&i| count[i] == 0).take(8).collect();
        let extra: Vec<usize> = (0..n).filter(|&i| sizes[i] > max && count[i] > 0).take(8).collect();
        let sent_s = format!("{:?}{}", &sent[..sent.len().min(16)], if sent.len() > 16 { ".." } else { "" });
        if !dup.is_empty() {
            out.fails.push(fail("batching/block-duplicated", format!("blocks {dup:?} sent more than once; sent order {sent_s} [{input}]")));
        }
        if !lost.is_empty() {
            out.fails.push(fail(
                "batching/block-lost",
                format!("blocks {lost:?} (each <= max) were never put in a batch; sent order {sent_s}, {} left in the queue [{input}]", deque.len()),
            ));
        }
        if !extra.is_empty() {
            out.fails.push(fail("batching/oversized-block-sent", format!("blocks {extra:?} exceed max on their own but were batched [{input}]")));
        }
        if dup.is_empty() && lost.is_empty() && extra.is_empty() {
            out.fails.push(fail("batching/order-changed", format!("blocks sent in order {sent_s}, expected input order [{input}]")));
        }
    }
    out
}

/// all sequences over `alphabet` of length 0..=max_len, shortest first
fn sequences(alphabet: &[usize], max_len: usize) -> Vec<Vec<usize>> {
    let mut out = vec![vec![]];
    let mut level: Vec<Vec<usize>> = vec![vec![]];
    for _ in 0..max_len {
        let mut next = Vec::with_capacity(level.len() * alphabet.len());
        for s in &level {
            for &a in alphabet {
                let mut t = s.clone();
                t.push(a);
                next.push(t);
            }
        }
        out.extend(next.iter().cloned());
        level = next;
    }
    out
}

// ------------------------------------------------------------------------------------------------
// driver
// ------------------------------------------------------------------------------------------------

struct Acc<'a> {
    ctx: &'a mut Ctx,
    distinct: HashSet<u128>,
    nontrivial: HashSet<u128>,
    evaluations: u64,
}

impl Acc<'_> {
    fn report(&mut self, fails: Vec<Fail>, replay: &Value) {
        for f in fails {
            if f.sig.starts_with("machinery/") {
                self.ctx.machinery_error(f.what);
            } else {
                self.ctx.violation(Violation { signature: f.sig, what: f.what, replay: replay.clone() });
            }
        }
    }

    fn key(tag: u8, a: &[u8], b: &[u8]) -> u128 {
        let mut k = Vec::with_capacity(a.len() + b.len() + 9);
        k.push(tag);
        k.extend_from_slice(&(a.len() as u64).to_le_bytes());
        k.extend_from_slice(a);
        k.extend_from_slice(b);
        hash128(&k)
    }

    /// one inbound case; returns the outcome for reuse
    fn inbound(&mut self, peer: &PeerId, prefix: &[u8], data: &[u8]) -> Inb {
        let r = check_inbound(peer, prefix, data);
        self.evaluations += 1;
        let k = Self::key(1, prefix, data);
        self.distinct.insert(k);
        if r.delivered.is_some() {
            self.nontrivial.insert(k);
        }
        if !r.fails.is_empty() {
            let case = json!({"kind": "inbound", "prefix_hex": hex(prefix), "data_hex": hex(data)});
            self.report(r.fails.clone(), &case);
        }
        r
    }
}

const CODECS: [u64; 3] = [0x55, 0x70, 0x71];
const CLAIMED_LENS: [u64; 6] = [0, 20, 32, 64, 255, 256];
const UNCOMPUTABLE: [u64; 3] = [0x00, 0x11, 0x9999];

// ------------------------------------------------------------------------------------------------
// the real Bitswap protocol on two nodes: the response path end to end (send_response itself)
// ------------------------------------------------------------------------------------------------

/// Two real `Litep2p` nodes with the real Bitswap protocol on SimNet. The client asks for three blocks; the server
/// answers with ONE response that carries `presences` DontHave entries (so many that their message cannot be sent in one
/// piece when `presences` is large) followed by the three blocks. Whatever happens to the presences, every block fits a
/// message and must be delivered once, unaltered, under the identifier derived from its bytes.
/// `slow`: the blocks are three of 1.2 MiB (three messages, each larger than the yamux window) and the link towards the
/// client carries 200 KiB per second of virtual time, so each message is accepted within ~6 s (well inside the 15 s write
/// timeout that applies to each message) while the whole response takes ~17 s: every block must still arrive exactly once.
fn response_end_to_end(ctx: &mut Ctx, presences: usize, slow: bool, forged_first: bool) {
    use crate::env::simnet::{NodeCmd, World};
    use litep2p::{
        config::ConfigBuilder,
        protocol::libp2p::bitswap::{BitswapEvent, BlockPresenceType, Config as BitswapConfig, ResponseType, WantType},
    };
    let result = std::thread::spawn(move || -> Result<(usize, usize), (String, String)> {
        let rt = crate::env::driver::runtime(3);
        let _g = rt.enter();
        let mut w = World::new();
        let (cfg_c, mut client) = BitswapConfig::new();
        let (cfg_s, mut server) = BitswapConfig::new();
        let keep = std::time::Duration::from_secs(3600);
        let c = w.add_node(81, ConfigBuilder::new().with_libp2p_bitswap(cfg_c).with_keep_alive_timeout(keep)).expect("client node");
        let sv = w.add_node(82, ConfigBuilder::new().with_libp2p_bitswap(cfg_s).with_keep_alive_timeout(keep)).expect("server node");
        let (peer_c, peer_s) = (w.nodes[c].peer, w.nodes[sv].peer);
        let addr_s = w.nodes[sv].address.clone();
        let blocks: Vec<(Cid, Vec<u8>)> = (0..3usize)
            .map(|i| {
                let len = if slow { 1_200_000 + i * 1000 } else { 40_000 + i * 1000 };
                let data: Vec<u8> = (0..len).map(|k| (k as u8) ^ (i as u8 + 1)).collect();
                (Cid::new_v1(0x55, Multihash::wrap(0x12, &Sha256::digest(&data)).expect("sha256 multihash")), data)
            })
            .collect();
        let wanted: Vec<(Cid, WantType)> = blocks.iter().map(|(c, _)| (*c, WantType::Block)).collect();
        // connect first: a request to a peer that is not connected needs a known address
        w.nodes[c].cmd.send(NodeCmd::DialAddress(addr_s)).map_err(|_| ("machinery/bitswap-setup".to_string(), "client node gone".to_string()))?;
        w.run_to_quiescence(1_000_000);
        let got: std::sync::Arc<parking_lot::Mutex<Vec<(Cid, Vec<u8>)>>> = Default::default();
        let got2 = got.clone();
        w.spawn_for(c, "bitswap-client", async move {
            client.send_request(peer_s, wanted).await;
            use futures::StreamExt;
            while let Some(ev) = client.next().await {
                if let BitswapEvent::Response { responses, .. } = ev {
                    for r in responses {
                        if let ResponseType::Block { cid, block } = r {
                            got2.lock().push((cid, block));
                        }
                    }
                }
            }
        });
        let blocks2 = blocks.clone();
        w.spawn_for(sv, "bitswap-server", async move {
            use futures::StreamExt;
            while let Some(ev) = server.next().await {
                if let BitswapEvent::Request { peer, .. } = ev {
                    let mut responses: Vec<ResponseType> = (0..presences)
                        .map(|i| {
                            let d = Sha256::digest((i as u64).to_le_bytes());
                            ResponseType::Presence { cid: Cid::new_v1(0x55, Multihash::wrap(0x12, &d).expect("multihash")), presence: BlockPresenceType::DontHave }
                        })
                        .collect();
                    if forged_first {
                        // a block whose CID names a hash this build cannot compute (SHA-1): the receiver must drop it, and
                        // only it
                        let cid = Cid::new_v1(0x55, Multihash::wrap(0x11, &[0xabu8; 20]).expect("sha1 multihash"));
                        responses.push(ResponseType::Block { cid, block: b"forged content that hashes to nothing it claims".to_vec() });
                    }
                    responses.extend(blocks2.iter().map(|(cid, block)| ResponseType::Block { cid: *cid, block: block.clone() }));
                    server.send_response(peer, responses).await;
                }
            }
        });
        let _ = peer_c;
        if slow {
            // the link towards the client: 200 KiB per tick of 1 s
            let towards_client: Vec<crate::env::pipe::PipeHandle> = w
                .links
                .iter()
                .map(|l| if l.a == c { l.b_to_a.clone() } else { l.a_to_b.clone() })
                .collect();
            for _tick in 0..60 {
                for h in &towards_client {
                    h.set_policy(|p| p.read_quota = Some(200 * 1024));
                }
                w.run_to_quiescence(5_000_000);
                if std::env::var_os("C20_DEBUG").is_some() {
                    eprintln!("tick {_tick}: links {} read so far {:?} blocks at client {}", towards_client.len(), towards_client.iter().map(|h| h.stats().bytes_read).collect::<Vec<_>>(), got.lock().len());
                }
                rt.block_on(async { tokio::time::advance(std::time::Duration::from_secs(1)).await });
            }
            for h in &towards_client {
                h.set_policy(|p| p.read_quota = None);
            }
        }
        w.run_to_quiescence(5_000_000);
        let got = got.lock().clone();
        let desc = format!(
            "{presences} presences + {} blocks in one response{}; the client received {} block(s)",
            blocks.len(),
            if slow { " over a link of 200 KiB/s (each message within the per-message write timeout, the response as a whole not)" } else { "" },
            got.len()
        );
        for (cid, data) in &got {
            match blocks.iter().find(|(c, _)| c == cid) {
                Some((_, d)) if d == data => {}
                Some(_) => return Err(("e2e/block-altered".to_string(), format!("block {cid} arrived with other bytes; {desc}"))),
                None => return Err(("e2e/unknown-block".to_string(), format!("a block {cid} arrived that was never sent; {desc}"))),
            }
        }
        for (cid, _) in &blocks {
            let n = got.iter().filter(|(c, _)| c == cid).count();
            if n != 1 {
                return Err((
                    "e2e/block-not-delivered-exactly-once".to_string(),
                    format!("block {cid} (fits a message on its own) was delivered {n} times; {desc}"),
                ));
            }
        }
        Ok((got.len(), w.driver.steps as usize))
    })
    .join();
    let replay = json!({"kind": "bitswap-response-end-to-end", "presences": presences, "slow_link": slow, "uncomputable_block_first": forged_first});
    match result {
        Ok(Ok((n, steps))) => {
            ctx.cov_add("evaluations", 1);
            ctx.sub(&format!("response_end_to_end[{presences} presences{}{}]", if slow { ", slow link" } else { "" }, if forged_first { ", uncomputable block first" } else { "" }), json!({"blocks_delivered": n, "driver_steps": steps}));
        }
        Ok(Err((sig, what))) if sig.starts_with("machinery/") => ctx.machinery_error(format!("{sig}: {what}")),
        Ok(Err((sig, what))) => ctx.violation(Violation { signature: sig, what, replay }),
        Err(_) => ctx.machinery_error("bitswap end-to-end scenario panicked"),
    }
}

pub fn run(ctx: &mut Ctx) {
    let tier = ctx.tier;
    let peer = util::peer(1);
    let mut acc = Acc { ctx, distinct: HashSet::new(), nontrivial: HashSet::new(), evaluations: 0 };

    // ---------------------------------------------------------------- A0: scan of hash codes
    let mut scan_codes: Vec<u64> = (0..=0x1ffffu64).collect();
    scan_codes.extend([0xb2_2000, 1 << 32, (1 << 63) - 1, 1 << 63, u64::MAX]);
    let mut delivered_codes: Vec<u64> = Vec::new();
    let probe = b"probe".to_vec();
    let e0 = acc.evaluations;
    for &c in &scan_codes {
        let r = acc.inbound(&peer, &enc_prefix([1, 0x55, c, 32]), &probe);
        if r.delivered.is_some() {
            delivered_codes.push(c);
        }
    }
    let table_codes: Vec<u64> = scan_codes.iter().copied().filter(|&c| computable(c)).collect();
    acc.ctx.sub(
        "hash_code_scan",
        json!({
            "codes_tried": scan_codes.len(),
            "evaluations": acc.evaluations - e0,
            "codes_delivered_by_subject": delivered_codes.iter().map(|c| format!("{c:#x}")).collect::<Vec<_>>(),
            "codes_in_build_code_table": table_codes.iter().map(|c| format!("{c:#x}")).collect::<Vec<_>>(),
        }),
    );
    if delivered_codes.len() < 2 || !delivered_codes.contains(&0x12) {
        acc.ctx.machinery_error(format!("hash code scan found too few computable codes: {delivered_codes:x?}"));
    }

    // ---------------------------------------------------------------- A1: base grid (+ determinism)
    let mut codes = table_codes.clone();
    codes.extend(UNCOMPUTABLE);
    let datas: Vec<Vec<u8>> = [0usize, 1, 32, 1024].iter().map(|&n| pattern(n, 0)).collect();
    let e1 = acc.evaluations;
    let (mut grid_some, mut grid_none, mut nondeterministic) = (0u64, 0u64, 0u64);
    // prefixes on which tampering is exercised: everything the model does not require to be dropped
    let mut valid_prefixes: Vec<Vec<u8>> = Vec::new();
    // well-formed prefixes (as fields) used as the basis of the malformed family
    let mut wellformed: Vec<[u64; 4]> = Vec::new();
    let mut sampled_some = false;
    let mut sampled_none = false;
    for version in 0..=3u64 {
        for &codec in &CODECS {
            for &code in &codes {
                for &len in &CLAIMED_LENS {
                    let f = [version, codec, code, len];
                    let p = enc_prefix(f);
                    if version <= 1 {
                        wellformed.push(f);
                    }
                    if matches!(classify(&p), Expect::Valid { .. }) {
                        valid_prefixes.push(p.clone());
                    }
                    for d in &datas {
                        let a = acc.inbound(&peer, &p, d);
                        let b = check_inbound(&peer, &p, d);
                        if a.delivered != b.delivered {
                            nondeterministic += 1;
                            acc.ctx.violation(Violation {
                                signature: "inbound/nondeterministic".into(),
                                what: format!(
                                    "two calls with the same input gave {:?} and {:?} [prefix={} data={}]",
                                    a.delivered.map(|c| c.to_string()),
                                    b.delivered.map(|c| c.to_string()),
                                    hex(&p),
                                    short(d)
                                ),
                                replay: json!({"kind": "inbound", "prefix_hex": hex(&p), "data_hex": hex(d)}),
                            });
                        }
                        match &a.delivered {
                            Some(cid) => {
                                grid_some += 1;
                                if !sampled_some && d.len() == 32 && code == 0xb220 {
                                    sampled_some = true;
                                    acc.ctx.sample(json!({"kind": "inbound", "prefix_hex": hex(&p), "data_hex": hex(d), "observed": format!("delivered under {cid}"), "oracle": "digest == blake2b-256(data) by code table, version/codec/code preserved"}));
                                }
                            }
                            None => {
                                grid_none += 1;
                                if !sampled_none && version == 0 && codec == 0x55 && code == 0x12 && len == 32 && d.len() == 1 {
                                    sampled_none = true;
                                    acc.ctx.sample(json!({"kind": "inbound", "prefix_hex": hex(&p), "data_hex": hex(d), "observed": "dropped", "oracle": "CIDv0 with codec raw must be dropped"}));
                                }
                            }
                        }
                    }
                }
            }
        }
    }
    acc.ctx.sub(
        "inbound_grid",
        json!({
            "versions": [0, 1, 2, 3], "codecs": ["0x55", "0x70", "0x71"],
            "hash_codes": codes.iter().map(|c| format!("{c:#x}")).collect::<Vec<_>>(),
            "claimed_lengths": CLAIMED_LENS, "data_sizes": [0, 1, 32, 1024],
            "evaluations": acc.evaluations - e1, "delivered": grid_some, "dropped": grid_none,
            "determinism_rechecks": grid_some + grid_none, "nondeterministic": nondeterministic,
            "prefixes_not_required_to_drop": valid_prefixes.len(),
        }),
    );

    // ---------------------------------------------------------------- A2: malformed encodings of well-formed prefixes
    let e2 = acc.evaluations;
    let mut malformed_set: HashSet<Vec<u8>> = HashSet::new();
    let mut malformed: Vec<Vec<u8>> = Vec::new();
    let mut classes = [0u64; 5];
    {
        let mut push = |p: Vec<u8>, class: usize, classes: &mut [u64; 5]| {
            if malformed_set.insert(p.clone()) {
                classes[class] += 1;
                malformed.push(p);
            }
        };
        for f in &wellformed {
            let p = enc_prefix(*f);
            for cut in 0..p.len() {
                push(p[..cut].to_vec(), 0, &mut classes);
            }
            for t in [0x00u8, 0x01, 0x20, 0x80, 0xff] {
                let mut q = p.clone();
                q.push(t);
                push(q, 1, &mut classes);
            }
            for field in 0..4 {
                for pad in [1usize, 2] {
                    let mut q = Vec::new();
                    for (i, v) in f.iter().enumerate() {
                        if i == field {
                            varint_overlong(*v, pad, &mut q);
                        } else {
                            varint(*v, &mut q);
                        }
                    }
                    push(q, 2, &mut classes);
                }
                // varints that do not fit 64 bits in that position: 2^70-1, 2^64 (+ the field's value in
                // the low bits, so that a decoder that silently drops the excess bits sees the honest field)
                for kind in 0..2 {
                    let mut q = Vec::new();
                    for (i, v) in f.iter().enumerate() {
                        if i != field {
                            varint(*v, &mut q);
                        } else if kind == 0 {
                            q.extend_from_slice(&[0xff; 9]);
                            q.push(0x7f);
                        } else {
                            for g in 0..9 {
                                q.push(((*v >> (7 * g)) & 0x7f) as u8 | 0x80);
                            }
                            q.push(0x02 | ((*v >> 63) & 1) as u8);
                        }
                    }
                    push(q, 3, &mut classes);
                }
            }
        }
        // extreme field values in every position of an otherwise honest prefix
        for field in 0..4 {
            for v in [0u64, 1, 2, 0x7f, 0x80, 0xff, 0x100, 0x3fff, 0x4000, u32::MAX as u64, 1 << 32, (1 << 63) - 1, 1 << 63, u64::MAX] {
                for base in [[1u64, 0x55, 0x12, 32], [0, 0x70, 0x12, 32], [1, 0x71, 0xb220, 32]] {
                    let mut f = base;
                    f[field] = v;
                    push(enc_prefix(f), 4, &mut classes);
                }
            }
        }
    }
    let mut malformed_delivered = 0u64;
    for p in &malformed {
        for d in [&datas[0], &datas[2]] {
            if acc.inbound(&peer, p, d).delivered.is_some() {
                malformed_delivered += 1;
            }
        }
    }
    // every byte string of length <= 2 is an incomplete prefix
    let mut tiny = 0u64;
    if tier.pick(false, true) {
        let d = &datas[2];
        acc.inbound(&peer, &[], d);
        tiny += 1;
        for a in 0..=255u8 {
            acc.inbound(&peer, &[a], d);
            tiny += 1;
            for b in 0..=255u8 {
                acc.inbound(&peer, &[a, b], d);
                tiny += 1;
            }
        }
    }
    if let Some(p) = malformed.iter().find(|p| p.len() == 5 && p[0] == 0x81) {
        acc.ctx.sample(json!({"kind": "inbound", "prefix_hex": hex(p), "data_hex": hex(&datas[2]), "observed": "dropped", "oracle": "non-minimal varint in the version field: malformed prefix must be dropped"}));
    }
    acc.ctx.sub(
        "malformed_prefixes",
        json!({
            "distinct_prefixes": malformed.len(),
            "truncations": classes[0], "trailing_byte": classes[1], "non_minimal_varint": classes[2],
            "varint_overflow": classes[3], "extreme_field_values": classes[4],
            "all_byte_strings_up_to_len_2": tiny,
            "evaluations": acc.evaluations - e2,
            "delivered": malformed_delivered,
        }),
    );

    // ---------------------------------------------------------------- A3: tampering
    let e3 = acc.evaluations;
    let mut tamper_pairs = 0u64;
    let mut tamper_both_delivered = 0u64;
    let mut sampled_tamper = false;
    for p in &valid_prefixes {
        for d in &datas {
            let base = check_inbound(&peer, p, d);
            let mut variants: Vec<Vec<u8>> = Vec::new();
            let positions: Vec<usize> = if d.len() <= 32 || tier.pick(false, true) {
                (0..d.len()).collect()
            } else {
                vec![0, 1, d.len() / 2, d.len() - 2, d.len() - 1]
            };
            let masks: &[u8] = if d.len() <= 32 { &[0x01, 0x02, 0x04, 0x08, 0x10, 0x20, 0x40, 0x80, 0xff] } else { &[0x01, 0x80, 0xff] };
            for &pos in &positions {
                for &m in masks {
                    let mut t = d.clone();
                    t[pos] ^= m;
                    variants.push(t);
                }
            }
            if !d.is_empty() {
                variants.push(d[..d.len() - 1].to_vec());
            }
            let mut ext = d.clone();
            ext.push(0);
            variants.push(ext);
            for t in variants {
                let (ti, fails) = check_tamper(&peer, p, d, &t, Some(&base));
                acc.evaluations += 1;
                tamper_pairs += 1;
                let k = Acc::key(1, p, &t);
                acc.distinct.insert(k);
                if ti.delivered.is_some() {
                    acc.nontrivial.insert(k);
                }
                if base.delivered.is_some() && ti.delivered.is_some() {
                    tamper_both_delivered += 1;
                    if !sampled_tamper && d.len() == 32 {
                        sampled_tamper = true;
                        acc.ctx.sample(json!({"kind": "tamper", "prefix_hex": hex(p), "data_hex": hex(d), "tampered_hex": hex(&t),
                            "observed": format!("original under {}, tampered under {}", base.delivered.unwrap(), ti.delivered.unwrap()),
                            "oracle": "tampered bytes are delivered only under the identifier of the tampered bytes, which differs"}));
                    }
                }
                if !fails.is_empty() {
                    let case = json!({"kind": "tamper", "prefix_hex": hex(p), "data_hex": hex(d), "tampered_hex": hex(&t)});
                    acc.report(fails, &case);
                }
            }
        }
    }
    acc.ctx.sub(
        "tamper",
        json!({"prefixes": valid_prefixes.len(), "pairs": tamper_pairs, "pairs_both_delivered": tamper_both_delivered,
               "evaluations": acc.evaluations - e3,
               "rule": "every byte position (<=32 B; 1 KiB: 5 positions quick / all thorough) x xor masks, drop last byte, append 0x00"}),
    );

    // ---------------------------------------------------------------- A4: all one-byte (thorough: two-byte) contents
    let e4 = acc.evaluations;
    let mut honest_combos: Vec<(u64, u64, u64)> = Vec::new();
    for version in 0..=1u64 {
        for &codec in &CODECS {
            for &code in &table_codes {
                if honest_cid(version, codec, code, b"x").is_some() {
                    honest_combos.push((version, codec, code));
                }
            }
        }
    }
    for &(v, c, h) in &honest_combos {
        let n = ref_digest(h, b"").map(|d| d.0.len()).unwrap_or(0) as u64;
        let p = enc_prefix([v, c, h, n]);
        for b in 0..=255u8 {
            acc.inbound(&peer, &p, &[b]);
        }
    }
    if tier.pick(false, true) {
        let p = enc_prefix([1, 0x55, 0x12, 32]);
        for a in 0..=255u8 {
            for b in 0..=255u8 {
                acc.inbound(&peer, &p, &[a, b]);
            }
        }
    }
    acc.ctx.sub("small_contents", json!({"honest_combinations": honest_combos.len(), "evaluations": acc.evaluations - e4}));

    // ---------------------------------------------------------------- A5: round trip
    let mut rt_sizes: Vec<usize> = vec![0, 1, 32, 1024];
    if tier.pick(false, true) {
        rt_sizes.extend([65536, bs::MAX_BATCH_SIZE]);
    }
    let mut rt_cases = 0u64;
    let mut all_blocks: Vec<(u64, u64, u64, Vec<u8>)> = Vec::new();
    let mut all_desc: Vec<Value> = Vec::new();
    for &(v, c, h) in &honest_combos {
        for (si, &n) in rt_sizes.iter().enumerate() {
            let data = pattern(n, si as u64 + 1);
            let case = json!({"kind": "roundtrip", "blocks": [{"version": v, "codec": c, "code": h, "len": n, "salt": si as u64 + 1}]});
            let fails = check_roundtrip(&peer, &[(v, c, h, data.clone())]);
            acc.evaluations += 1;
            rt_cases += 1;
            let k = Acc::key(2, &enc_prefix([v, c, h, n as u64]), &[si as u8]);
            acc.distinct.insert(k);
            if fails.is_empty() {
                acc.nontrivial.insert(k);
            }
            if v == 0 && n == 32 {
                acc.ctx.sample(json!({"case": case, "observed": if fails.is_empty() { "receiver recomputed the sender's CIDv0" } else { "FAILED" }}));
            }
            acc.report(fails, &case);
            if n <= 1024 {
                all_blocks.push((v, c, h, data));
                all_desc.push(json!({"version": v, "codec": c, "code": h, "len": n, "salt": si as u64 + 1}));
            }
        }
    }
    let case = json!({"kind": "roundtrip", "blocks": all_desc});
    let fails = check_roundtrip(&peer, &all_blocks);
    acc.evaluations += 1;
    rt_cases += 1;
    acc.distinct.insert(Acc::key(2, b"all", &[]));
    acc.report(fails, &case);
    acc.ctx.sub(
        "roundtrip",
        json!({"combinations (version,codec,hash)": honest_combos.len(), "data_sizes": rt_sizes, "cases": rt_cases,
               "multi_block_message_blocks": all_blocks.len()}),
    );
    drop(all_blocks);

    let inbound_nontrivial = acc.nontrivial.len();

    // ---------------------------------------------------------------- B1: small limits, all sequences
    let small_max: Vec<usize> = tier.pick(vec![4, 8], vec![0, 1, 4, 8, 9]);
    let small_len = tier.pick(5, 6);
    let small_alphabet = [0usize, 1, 3, 4, 5, 8, 9];
    // sequences are generated on the fly, shortest first, in lexicographic order of alphabet indices
    let nth_sequence = |len: usize, mut idx: usize| -> Vec<usize> {
        let mut v = vec![0usize; len];
        for slot in v.iter_mut().rev() {
            *slot = small_alphabet[idx % small_alphabet.len()];
            idx /= small_alphabet.len();
        }
        v
    };
    let mut sequences_per_limit = 0u64;
    let mut b1_cases = 0u64;
    let mut b1_multi = 0u64;
    let mut b1_max_batches = 0usize;
    let mut sampled_b1 = false;
    for &max in &small_max {
        sequences_per_limit = 0;
        for (len, idx) in (0..=small_len).flat_map(|len| (0..small_alphabet.len().pow(len as u32)).map(move |i| (len, i))) {
            let s = &nth_sequence(len, idx);
            sequences_per_limit += 1;
            let out = run_batch(max, s, Wire::No, bs::MAX_MESSAGE_SIZE, 0x12);
            acc.evaluations += 1;
            b1_cases += 1;
            let mut kb = vec![];
            for &x in s {
                kb.extend_from_slice(&(x as u64).to_le_bytes());
            }
            let k = Acc::key(3, &(max as u64).to_le_bytes(), &kb);
            acc.distinct.insert(k);
            if out.batches >= 2 {
                b1_multi += 1;
                acc.nontrivial.insert(k);
            }
            b1_max_batches = b1_max_batches.max(out.batches);
            if !sampled_b1 && max == 8 && s == &vec![4, 5, 9, 3, 1] {
                sampled_b1 = true;
                acc.ctx.sample(json!({"case": batch_case_json(max, s, Wire::No, 0x12), "observed": format!("{} batches, violations: {}", out.batches, out.fails.len())}));
            }
            if !out.fails.is_empty() {
                acc.report(out.fails, &batch_case_json(max, s, Wire::No, 0x12));
            }
        }
    }
    acc.ctx.sub(
        "batching_small_limits",
        json!({"max_batch_size": small_max, "size_alphabet": small_alphabet, "max_sequence_length": small_len,
               "sequences_per_limit": sequences_per_limit, "cases": b1_cases, "cases_with_2+_batches": b1_multi, "most_batches": b1_max_batches}),
    );

    // ---------------------------------------------------------------- B2: real constants, wire format
    let mb = bs::MAX_BATCH_SIZE;
    let real_alphabet = [mb - 1, mb, mb + 1, 1 << 20, (1 << 20) + 1, 0, 1];
    let real_len = tier.pick(3, 4);
    let seqs = sequences(&real_alphabet, real_len);
    let threads = std::thread::available_parallelism().map(|n| n.get()).unwrap_or(4).clamp(1, 8);
    let results: Vec<Vec<(usize, usize, usize, Vec<Fail>)>> = std::thread::scope(|sc| {
        let handles: Vec<_> = (0..threads)
            .map(|t| {
                let seqs = &seqs;
                sc.spawn(move || {
                    let mut v = Vec::new();
                    let mut i = t;
                    while i < seqs.len() {
                        let out = run_batch(mb, &seqs[i], Wire::Full, bs::MAX_MESSAGE_SIZE, 0x12);
                        v.push((i, out.batches, out.max_message_len, out.fails));
                        i += threads;
                    }
                    v
                })
            })
            .collect();
        handles.into_iter().map(|h| h.join().expect("worker")).collect()
    });
    let mut flat: Vec<(usize, usize, usize, Vec<Fail>)> = results.into_iter().flatten().collect();
    flat.sort_by_key(|r| r.0);
    let (mut b2_multi, mut b2_max_msg, mut b2_most) = (0u64, 0usize, 0usize);
    for (i, batches, msg_len, fails) in flat {
        acc.evaluations += 1;
        let mut kb = vec![];
        for &x in &seqs[i] {
            kb.extend_from_slice(&(x as u64).to_le_bytes());
        }
        let k = Acc::key(3, &(mb as u64).to_le_bytes(), &kb);
        acc.distinct.insert(k);
        if batches >= 2 {
            b2_multi += 1;
            acc.nontrivial.insert(k);
        }
        b2_max_msg = b2_max_msg.max(msg_len);
        b2_most = b2_most.max(batches);
        if seqs[i] == vec![1 << 20, (1 << 20) + 1, mb] {
            acc.ctx.sample(json!({"case": batch_case_json(mb, &seqs[i], Wire::Full, 0x12), "observed": format!("{batches} batches, largest message {msg_len} B, violations: {}", fails.len())}));
        }
        if !fails.is_empty() {
            acc.report(fails, &batch_case_json(mb, &seqs[i], Wire::Full, 0x12));
        }
    }
    acc.ctx.sub(
        "batching_real_limits",
        json!({"MAX_BATCH_SIZE": mb, "MAX_MESSAGE_SIZE": bs::MAX_MESSAGE_SIZE, "size_alphabet": real_alphabet,
               "max_sequence_length": real_len, "cases": seqs.len(), "cases_with_2+_batches": b2_multi,
               "most_batches": b2_most, "largest_encoded_message": b2_max_msg, "threads": threads}),
    );
    drop(seqs);

    // ---------------------------------------------------------------- B3: protobuf overhead of many small blocks
    // N equal blocks of s bytes (CIDs with a 4-byte sha2-256 prefix, a 6-byte blake2b-256 prefix and a 7-byte
    // dag-json/blake2b-256 prefix),
    // N = 2^k ascending until the encoded message first exceeds MAX_MESSAGE_SIZE or the data no longer fits one
    // batch twice over; then the exact smallest N (the encoded size is monotone in N; both N-1 and N evaluated).
    let overhead_grid: Vec<(u64, Vec<usize>)> = tier.pick(
        vec![(0x12, vec![0, 1, 2, 4, 8, 9, 10, 16]), (0xb220, vec![0, 9, 11, 12, 16]), (LONG_PREFIX, vec![0, 11, 12, 13, 16])],
        vec![
            (0x12, vec![0, 1, 2, 3, 4, 5, 6, 7, 8, 9, 10, 11, 12, 16, 32]),
            (0xb220, vec![0, 1, 2, 3, 4, 5, 6, 7, 8, 9, 10, 11, 12, 16, 32]),
            (LONG_PREFIX, vec![0, 1, 2, 3, 4, 5, 6, 7, 8, 9, 10, 11, 12, 13, 14, 16, 32]),
        ],
    );
    const OVER: &str = "batching/encoded-message-exceeds-limit";
    let mut overhead_report = Vec::new();
    let mut found: Vec<(usize, usize, u64, Vec<Fail>)> = Vec::new();
    let mut b3_cases = 0u64;
    for (code, sizes) in &overhead_grid {
        let code = *code;
        for &s in sizes {
            let mut eval = |n: usize, wire: Wire, acc: &mut Acc| -> BatchOut {
                let out = run_batch(mb, &vec![s; n], wire, bs::MAX_MESSAGE_SIZE, code);
                acc.evaluations += 1;
                b3_cases += 1;
                let mut kb = (s as u64).to_le_bytes().to_vec();
                kb.extend_from_slice(&code.to_le_bytes());
                let key = Acc::key(4, &kb, &(n as u64).to_le_bytes());
                acc.distinct.insert(key);
                if out.batches >= 2 {
                    acc.nontrivial.insert(key);
                }
                let others: Vec<Fail> = out.fails.iter().filter(|f| f.sig != OVER).cloned().collect();
                if !others.is_empty() {
                    acc.report(others, &batch_case_json(mb, &vec![s; n], wire, code));
                }
                out
            };
            let is_over = |o: &BatchOut| o.fails.iter().any(|f| f.sig == OVER);
            let mut first_bad: Option<usize> = None;
            let (mut lo, mut len_lo) = (0usize, 0usize);
            let mut largest = 0usize;
            let mut k = 14u32;
            loop {
                let n = 1usize << k;
                let out = eval(n, Wire::Full, &mut acc);
                largest = largest.max(out.max_message_len);
                if is_over(&out) {
                    first_bad = Some(n);
                    break;
                }
                lo = n;
                len_lo = out.max_message_len;
                if n * s.max(1) >= 2 * mb || k >= 21 {
                    break;
                }
                k += 1;
            }
            let mut smallest = None;
            if let Some(mut hi) = first_bad {
                // The encoded size is affine in N while all blocks share one batch: probe the predicted
                // crossing first (both sides of it are *evaluated*, not assumed), bisect whatever is left.
                let per = largest.saturating_sub(len_lo) / (hi - lo).max(1);
                if per > 0 && len_lo <= bs::MAX_MESSAGE_SIZE {
                    let guess = lo + (bs::MAX_MESSAGE_SIZE + 1 - len_lo).div_ceil(per);
                    for g in [guess.saturating_sub(1), guess] {
                        if g > lo && g < hi {
                            if is_over(&eval(g, Wire::Len, &mut acc)) {
                                hi = g;
                            } else {
                                lo = g;
                            }
                        }
                    }
                }
                while hi - lo > 1 {
                    let mid = lo + (hi - lo) / 2;
                    if is_over(&eval(mid, Wire::Len, &mut acc)) {
                        hi = mid;
                    } else {
                        lo = mid;
                    }
                }
                let out = eval(hi, Wire::Full, &mut acc);
                smallest = Some((hi, out.max_message_len));
                found.push((hi, s, code, out.fails.into_iter().filter(|f| f.sig == OVER).collect()));
            }
            overhead_report.push(json!({
                "cid_hash_code": format!("{code:#x}"), "block_size": s, "first_power_of_two_exceeding": first_bad,
                "smallest_N_exceeding": smallest.map(|x| x.0), "encoded_bytes_at_smallest_N": smallest.map(|x| x.1),
                "largest_message_seen": largest,
            }));
        }
    }
    found.sort_by_key(|f| (f.0, f.1, f.2));
    for (n, s, code, fails) in found {
        acc.report(fails, &batch_case_json(mb, &vec![s; n], Wire::Full, code));
    }
    acc.ctx.sample(json!({"kind": "overhead", "per_block_size": overhead_report.clone()}));
    acc.ctx.sub("batching_protobuf_overhead", json!({"cases": b3_cases, "result": overhead_report}));

    // ---------------------------------------------------------------- the real protocol end to end
    response_end_to_end(acc.ctx, 10, false, false);
    response_end_to_end(acc.ctx, 120_000, false, false);
    response_end_to_end(acc.ctx, 10, true, false);
    // a block that must be dropped ahead of blocks that verify, in one message
    response_end_to_end(acc.ctx, 0, false, true);

    // ---------------------------------------------------------------- totals
    let evaluations = acc.evaluations;
    let distinct = acc.distinct.len();
    let nontrivial = acc.nontrivial.len();
    let ctx = acc.ctx;
    ctx.cov_add("evaluations", evaluations);
    ctx.cov("distinct_cases", distinct as u64);
    ctx.cov("distinct_nontrivial", nontrivial as u64);
    ctx.cov("distinct_nontrivial_inbound", inbound_nontrivial as u64);
    ctx.cov("exhaustive", true);
    ctx.cov(
        "rule",
        "exhaustive enumeration of the stated input grammars (no sampling). evaluations = oracle evaluations \
         (one subject scenario each). distinct_nontrivial = distinct (prefix,data) inputs for which block_to_response \
         delivered a block + distinct round-trip cases that returned the honest (cid,data) + distinct \
         (limit, size sequence) batching cases that produced >= 2 batches; counted with a HashSet of 128-bit hashes",
    );
    ctx.assume("'fits a message' is read as: the block's own data size is <= MAX_BATCH_SIZE (the Bitswap block-size limit the implementation batches against); such a block always encodes below MAX_MESSAGE_SIZE on its own");
    ctx.assume("a hash code is 'computable' iff the build's multihash code table (Cargo features sha2, blake2b, sha3) has it; sha2-256/512 reference digests come from the independent sha2 crate, the other reference digests from that code table (the bitswap code, not the hashers, is the subject)");
    ctx.assume("a delivered digest may be the full digest or the digest truncated to the prefix's claimed length >= 1 (go-bitswap semantics); an empty digest identifies nothing and is rejected; well-formed computable prefixes may be delivered or dropped, except that an honest sender's own blocks (round trip) must come back");
    ctx.assume("non-minimal varints are malformed (multiformats unsigned-varint requires minimal encoding)");
    ctx.assume("the batch-size sweeps reproduce send_response as: extract_next_batch until None, blocks_message per batch, messages larger than MAX_MESSAGE_SIZE are not sent (the code only logs a warning); send_response itself runs in the two end-to-end scenarios (two real nodes with the real Bitswap protocol on SimNet: 10 and 120000 presences followed by three blocks in one response)");
}

// ------------------------------------------------------------------------------------------------
// replay
// ------------------------------------------------------------------------------------------------

fn unhex(s: &str) -> Result<Vec<u8>, String> {
    if s.len() % 2 != 0 {
        return Err("odd hex length".into());
    }
    (0..s.len()).step_by(2).map(|i| u8::from_str_radix(&s[i..i + 2], 16).map_err(|e| e.to_string())).collect()
}

fn hexfield(case: &Value, name: &str) -> Result<Vec<u8>, String> {
    unhex(case[name].as_str().ok_or_else(|| format!("missing {name}"))?)
}

fn verdict(mut log: String, fails: Vec<Fail>) -> Result<String, String> {
    if fails.is_empty() {
        log.push_str("\nall oracles hold");
        Ok(log)
    } else {
        for f in &fails {
            log.push_str(&format!("\nVIOLATED [{}]: {}", f.sig, f.what));
        }
        Err(log)
    }
}

pub fn replay(case: &Value) -> Result<String, String> {
    let peer = util::peer(1);
    match case["kind"].as_str() {
        Some("inbound") => {
            let prefix = hexfield(case, "prefix_hex")?;
            let data = hexfield(case, "data_hex")?;
            let a = check_inbound(&peer, &prefix, &data);
            let b = check_inbound(&peer, &prefix, &data);
            let mut fails = a.fails;
            if a.delivered != b.delivered {
                fails.push(fail("inbound/nondeterministic", "two calls disagree"));
            }
            let log = format!(
                "block_to_response(prefix={}, data={}) model expects {:?}; observed {}",
                hex(&prefix),
                short(&data),
                classify(&prefix),
                a.delivered.map(|c| format!("delivered under {c}")).unwrap_or_else(|| "dropped".into())
            );
            verdict(log, fails)
        }
        Some("tamper") => {
            let prefix = hexfield(case, "prefix_hex")?;
            let data = hexfield(case, "data_hex")?;
            let tampered = hexfield(case, "tampered_hex")?;
            let base = check_inbound(&peer, &prefix, &data);
            let (t, mut fails) = check_tamper(&peer, &prefix, &data, &tampered, Some(&base));
            let log = format!(
                "prefix={} original {} -> {}; tampered {} -> {}",
                hex(&prefix),
                short(&data),
                base.delivered.map(|c| c.to_string()).unwrap_or_else(|| "dropped".into()),
                short(&tampered),
                t.delivered.map(|c| c.to_string()).unwrap_or_else(|| "dropped".into())
            );
            fails.extend(base.fails);
            verdict(log, fails)
        }
        Some("roundtrip") => {
            let mut blocks = Vec::new();
            for b in case["blocks"].as_array().ok_or("missing blocks")? {
                let g = |n: &str| b[n].as_u64().ok_or_else(|| format!("missing {n}"));
                blocks.push((g("version")?, g("codec")?, g("code")?, pattern(g("len")? as usize, g("salt")?)));
            }
            let fails = check_roundtrip(&peer, &blocks);
            verdict(format!("round trip of {} honest block(s) through blocks_message/decode/block_to_response", blocks.len()), fails)
        }
        Some("batch") => {
            let max = case["max"].as_u64().ok_or("missing max")? as usize;
            let mut sizes: Vec<usize> = Vec::new();
            if let Some(a) = case["sizes"].as_array() {
                sizes = a.iter().map(|v| v.as_u64().unwrap_or(0) as usize).collect();
            } else if let Some(r) = case["runs"].as_array() {
                for e in r {
                    let s = e[0].as_u64().ok_or("bad run")? as usize;
                    let n = e[1].as_u64().ok_or("bad run")? as usize;
                    sizes.extend(std::iter::repeat(s).take(n));
                }
            } else {
                return Err("missing sizes/runs".into());
            }
            let wire = match case["wire"].as_str() {
                Some("full") => Wire::Full,
                Some("len") => Wire::Len,
                _ => Wire::No,
            };
            let code = case["cid_hash_code"].as_u64().unwrap_or(0x12);
            let out = run_batch(max, &sizes, wire, bs::MAX_MESSAGE_SIZE, code);
            verdict(
                format!(
                    "send_response loop over {} blocks ({}), max_batch_size={max}: {} batches, largest encoded message {} B",
                    sizes.len(),
                    describe_sizes(&sizes),
                    out.batches,
                    out.max_message_len
                ),
                out.fails,
            )
        }
        other => Err(format!("unknown case kind {other:?}")),
    }
}
