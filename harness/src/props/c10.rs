//! C10 — "Peer address book stays bounded, attributable and dialable".
//!
//! Three parts, all on the real code:
//!  (c) the connection-manager model (`manager::run_filtered(ctx, "c10")`): dial order by score, address count
//!      bounded by free outbound capacity, re-scoring of exactly the used address;
//!  (a) E3 exhaustive sweep of a positional multiaddress grammar through `Litep2p::add_known_address` and
//!      `Litep2p::dial_address` on fresh real nodes (scripted transport), judged against the statement and against
//!      the TCP transport's own parser (`litep2p::verif::tcp_parse_multiaddr`);
//!  (b) E1 exploration of all operation histories on the real `AddressStore` starting from full / almost full /
//!      empty stores, with a transition-relation oracle (eviction of a lowest-scored entry, rediscovery does not
//!      erase history, exact re-scoring, `addresses(k)` ordering).

use crate::{
    env::{driver, node::Node, transport::Call},
    mc::e1::{self, Explorer, Model, Step, Viol},
    report::{Ctx, Violation},
    util,
};
use litep2p::{
    config::ConfigBuilder,
    transport::Endpoint,
    types::ConnectionId,
    verif::{scores, tcp_parse_multiaddr, AddressRecord, AddressStore, ManagerSnapshot, TransportEvent},
    PeerId,
};
use multiaddr::{Multiaddr, Protocol};
use serde::{Deserialize, Serialize};
use serde_json::{json, Value};
use std::{
    borrow::Cow,
    collections::{BTreeMap, BTreeSet, HashSet},
    future::Future,
    net::{Ipv4Addr, Ipv6Addr},
    panic::{catch_unwind, AssertUnwindSafe},
    sync::{
        atomic::{AtomicUsize, Ordering},
        Mutex,
    },
    task::{Context, Poll},
};

/// How many addresses one peer's book holds (64 in the pinned tree; the property says "bounded", not a number):
/// distinct addresses are inserted into a real store until it stops growing.
fn max_addresses() -> usize {
    static CAP: std::sync::OnceLock<usize> = std::sync::OnceLock::new();
    *CAP.get_or_init(|| {
        let mut store = AddressStore::new();
        let (mut stored, mut stalled, mut i) = (0usize, 0, 0u32);
        while stalled < 8 && stored < 100_000 {
            let a: Multiaddr = format!("/ip4/10.77.{}.{}/tcp/{}", (i >> 8) & 255, i & 255, 20000 + (i % 1000)).parse().unwrap();
            i += 1;
            store.insert(AddressRecord::from_raw_multiaddr_with_score(a, 0));
            let now = store.addresses.len();
            if now > stored {
                stored = now;
                stalled = 0;
            } else {
                stalled += 1;
            }
        }
        stored
    })
}

// =================================================================================================
// Part (a): address shapes
// =================================================================================================

fn local_keypair() -> litep2p::crypto::ed25519::Keypair {
    util::keypair(500)
}

/// the peer the addresses are offered for
fn peer_p() -> PeerId {
    util::peer(1001)
}

/// a foreign peer
fn peer_q() -> PeerId {
    util::peer(1002)
}

fn first_components() -> Vec<Protocol<'static>> {
    vec![
        Protocol::Ip4(Ipv4Addr::new(1, 2, 3, 4)),
        Protocol::Ip4(Ipv4Addr::new(0, 0, 0, 0)),
        Protocol::Ip4(Ipv4Addr::new(127, 0, 0, 1)),
        Protocol::Ip4(Ipv4Addr::new(10, 0, 0, 1)),
        Protocol::Ip6(Ipv6Addr::LOCALHOST),
        Protocol::Ip6(Ipv6Addr::UNSPECIFIED),
        Protocol::Ip6("2001:db8::1".parse().unwrap()),
        Protocol::Dns(Cow::Borrowed("example.com")),
        Protocol::Dns4(Cow::Borrowed("example.com")),
        Protocol::Dns6(Cow::Borrowed("example.com")),
        Protocol::Tcp(30333),
        Protocol::P2p(peer_p().into()),
    ]
}

/// number of leading entries of `first_components()` that are ip/dns
const N_HOST_FIRSTS: usize = 10;

fn later_components() -> Vec<Protocol<'static>> {
    vec![
        Protocol::Tcp(30333),
        Protocol::Tcp(0),
        Protocol::Udp(30333),
        Protocol::Ws(Cow::Borrowed("/")),
        Protocol::Wss(Cow::Borrowed("/")),
        Protocol::QuicV1,
        Protocol::P2p(peer_p().into()),
        Protocol::P2p(peer_q().into()),
        Protocol::P2pCircuit,
        Protocol::Http,
    ]
}

fn listen_configs() -> Vec<Vec<Multiaddr>> {
    vec![
        vec![],
        vec!["/ip4/127.0.0.1/tcp/30333".parse().unwrap()],
        vec!["/ip4/0.0.0.0/tcp/30333".parse().unwrap()],
    ]
}

fn build(first: &Protocol<'static>, tail: &[usize], later: &[Protocol<'static>]) -> Multiaddr {
    let mut m = Multiaddr::empty();
    m.push(first.clone());
    for i in tail {
        m.push(later[*i].clone());
    }
    m
}

/// all index vectors of length `n` over `0..base`, lexicographic
fn product(base: usize, n: usize) -> Vec<Vec<usize>> {
    let mut out = vec![vec![]];
    for _ in 0..n {
        let mut next = Vec::with_capacity(out.len() * base);
        for v in &out {
            for i in 0..base {
                let mut w = v.clone();
                w.push(i);
                next.push(w);
            }
        }
        out = next;
    }
    out
}

/// The enumeration: every address of 1..=4 components (first ∈ FIRST, others ∈ LATER) and the 5-component
/// addresses whose first component is one of `firsts5` (ip/dns) and whose second is one of `seconds5` (tcp).
fn enumerate(firsts5: &[usize], seconds5: &[usize]) -> Vec<Multiaddr> {
    let first = first_components();
    let later = later_components();
    let mut out = Vec::new();
    for len in 1..=4usize {
        for f in &first {
            for tail in product(later.len(), len - 1) {
                out.push(build(f, &tail, &later));
            }
        }
    }
    for f in firsts5 {
        for s in seconds5 {
            for rest in product(later.len(), 3) {
                let mut tail = vec![*s];
                tail.extend(rest);
                out.push(build(&first[*f], &tail, &later));
            }
        }
    }
    out
}

fn poll_now<F: Future>(f: F) -> Option<F::Output> {
    let waker = futures::task::noop_waker();
    let mut cx = Context::from_waker(&waker);
    let mut f = std::pin::pin!(f);
    match f.as_mut().poll(&mut cx) {
        Poll::Ready(v) => Some(v),
        Poll::Pending => None,
    }
}

fn named_peers(a: &Multiaddr) -> Vec<PeerId> {
    a.iter()
        .filter_map(|c| match c {
            Protocol::P2p(h) => PeerId::from_multihash(h).ok(),
            _ => None,
        })
        .collect()
}

fn ends_with_peer(a: &Multiaddr, p: &PeerId) -> bool {
    match a.iter().last() {
        Some(Protocol::P2p(h)) => PeerId::from_multihash(h).ok().as_ref() == Some(p),
        _ => false,
    }
}

fn peer_name(p: &PeerId) -> String {
    if *p == peer_p() {
        "P".into()
    } else if *p == peer_q() {
        "Q".into()
    } else if *p == PeerId::from_public_key(&litep2p::crypto::PublicKey::Ed25519(local_keypair().public())) {
        "LOCAL".into()
    } else {
        format!("{p}")
    }
}

/// `ip+port` of the address equals a listen address exactly (first two components identical)
fn is_exact_listen_address(a: &Multiaddr, listen: &[Multiaddr]) -> bool {
    let head: Multiaddr = a.iter().take(2).collect();
    a.iter().count() >= 2 && listen.iter().any(|l| *l == head)
}

/// the plainly valid shapes that a working book must accept: public/private/dns host, tcp 30333, /p2p/P
/// (the same demand as the manager model's `c10/valid-address-not-added`; addresses without a peer id may be refused)
fn is_plain_valid(a: &Multiaddr) -> bool {
    let comps: Vec<Protocol> = a.iter().collect();
    if comps.len() != 3 {
        return false;
    }
    let host_ok = match &comps[0] {
        Protocol::Ip4(ip) => *ip == Ipv4Addr::new(1, 2, 3, 4) || *ip == Ipv4Addr::new(10, 0, 0, 1),
        Protocol::Ip6(ip) => !ip.is_loopback() && !ip.is_unspecified(),
        Protocol::Dns(_) | Protocol::Dns4(_) | Protocol::Dns6(_) => true,
        _ => false,
    };
    host_ok && matches!(comps[1], Protocol::Tcp(30333)) && ends_with_peer(a, &peer_p())
}

fn new_node(listen: &[Multiaddr]) -> Result<Node, String> {
    let b = ConfigBuilder::new().with_keypair(local_keypair());
    let mut node = Node::new(b, listen.to_vec())?;
    node.settle();
    Ok(node)
}

fn shape_replay(op: &str, addr: &Multiaddr, listen: &[Multiaddr]) -> Value {
    json!({
        "kind": "shape",
        "op": op,
        "address": addr.to_string(),
        "address_hex": util::hex(&addr.to_vec()),
        "listen": listen.iter().map(|l| l.to_string()).collect::<Vec<_>>(),
    })
}

#[derive(Default)]
struct AddRes {
    remembered: bool,
    returned: usize,
    stored: Option<String>,
    viols: Vec<Viol>,
    error: Option<String>,
}

/// The statement's "remembered only if" conditions for one stored address `s` of peer `owner`'s book, when the
/// offered address was `addr`. `site` discriminates the entry point (`add-known` / `dial-address`).
fn check_remembered(site: &str, addr: &Multiaddr, s: &Multiaddr, owner: &PeerId, listen: &[Multiaddr], skip_attribution: bool, viols: &mut Vec<Viol>) {
    let names = named_peers(addr);
    let on = peer_name(owner);
    if !skip_attribution {
        if names.iter().any(|n| n != owner) {
            viols.push(Viol::new(
                format!("shapes/{site}/remembered-address-naming-other-peer"),
                format!("{addr} names peer(s) {:?} but was remembered as {s} under peer {on}", names.iter().map(peer_name).collect::<Vec<_>>()),
            ));
        } else if names.is_empty() {
            let expect = addr.clone().with(Protocol::P2p((*owner).into()));
            if *s != expect {
                viols.push(Viol::new(
                    format!("shapes/{site}/peer-id-not-appended"),
                    format!("{addr} names no peer; expected it to be remembered as {expect}, book has {s}"),
                ));
            }
        } else if s != addr {
            viols.push(Viol::new(
                format!("shapes/{site}/stored-address-differs-from-offered"),
                format!("{addr} already names peer {on} but was remembered as {s}"),
            ));
        }
    }
    if is_exact_listen_address(addr, listen) {
        viols.push(Viol::new(
            format!("shapes/{site}/own-listen-address-remembered"),
            format!("{addr} has the ip and port of the node's own listen address {:?} but was remembered as {s} under peer {on}", listen.iter().map(|l| l.to_string()).collect::<Vec<_>>()),
        ));
    }
    if !skip_attribution {
        match tcp_parse_multiaddr(s) {
            Err(e) => viols.push(Viol::new(
                format!("shapes/{site}/remembered-address-rejected-by-transport-parser"),
                format!("{addr} was remembered as {s} but the only enabled transport (TCP) cannot parse it: {e}"),
            )),
            Ok((_, None)) => viols.push(Viol::new(
                format!("shapes/{site}/remembered-address-without-peer-for-transport"),
                format!("{addr} was remembered as {s} but the TCP parser finds no peer id in it"),
            )),
            Ok((_, Some(x))) if x != *owner => viols.push(Viol::new(
                format!("shapes/{site}/remembered-address-dials-other-peer"),
                format!("{addr} was remembered as {s} under peer {on} but the TCP parser would dial/authenticate peer {}", peer_name(&x)),
            )),
            Ok(_) => {}
        }
    }
}

/// (1) `add_known_address(P, once(addr))` on a fresh node. Must be called inside a runtime context.
fn eval_add(addr: &Multiaddr, listen: &[Multiaddr]) -> AddRes {
    let mut res = AddRes::default();
    let mut node = match new_node(listen) {
        Ok(n) => n,
        Err(e) => {
            res.error = Some(e);
            return res;
        }
    };
    let p = peer_p();
    let r = catch_unwind(AssertUnwindSafe(|| {
        let n = node.litep2p.add_known_address(p, std::iter::once(addr.clone()));
        node.settle();
        (n, node.litep2p.verif_snapshot())
    }));
    let (n, snap) = match r {
        Ok(x) => x,
        Err(_) => {
            let msg = e1::take_panic();
            res.viols.push(Viol::new(format!("panic/add-known/{}", e1::panic_site(&msg)), format!("add_known_address(P, {addr}) panicked: {msg}")));
            return res;
        }
    };
    res.returned = n;
    for ps in &snap.peers {
        if ps.peer != p && !ps.address_book.is_empty() {
            res.viols.push(Viol::new(
                "shapes/add-known/stored-under-other-peer",
                format!("add_known_address(P, {addr}) stored {:?} under peer {}", ps.address_book, peer_name(&ps.peer)),
            ));
        }
        if ps.state != "disconnected" {
            res.viols.push(Viol::new(
                "shapes/add-known/peer-state-changed",
                format!("add_known_address(P, {addr}) left peer {} in state {}", peer_name(&ps.peer), ps.state),
            ));
        }
    }
    let book: Vec<(Multiaddr, i32)> = snap.peers.iter().find(|ps| ps.peer == p).map(|ps| ps.address_book.clone()).unwrap_or_default();
    if book.len() > 1 {
        res.viols.push(Viol::new("shapes/add-known/more-addresses-than-offered", format!("one address {addr} offered, book has {book:?}")));
    }
    if n != book.len() {
        res.viols.push(Viol::new(
            "shapes/add-known/return-count-disagrees-with-book",
            format!("add_known_address(P, {addr}) on a fresh node returned {n}, the book of P holds {} address(es): {book:?}", book.len()),
        ));
    }
    res.remembered = !book.is_empty();
    for (s, _) in &book {
        res.stored = Some(s.to_string());
        check_remembered("add-known", addr, s, &p, listen, false, &mut res.viols);
    }
    if book.is_empty() && is_plain_valid(addr) && !is_exact_listen_address(addr, listen) {
        res.viols.push(Viol::new(
            "shapes/add-known/plain-valid-address-refused",
            format!("{addr} is a well-formed TCP address naming P and not a listen address, but it was not remembered (returned {n})"),
        ));
    }
    res
}

#[derive(Default)]
struct DialRes {
    /// "ok", "pending", "panic", or the error variant
    class: String,
    manager_peer: Option<String>,
    viols: Vec<Viol>,
    error: Option<String>,
    note: String,
}

fn snapshot_touched(s: &ManagerSnapshot) -> bool {
    !s.peers.is_empty() || !s.pending_connections.is_empty() || !s.counted_outgoing.is_empty() || !s.counted_incoming.is_empty()
}

/// (2) `dial_address(addr)` on a fresh node. Must be called inside a runtime context.
fn eval_dial(addr: &Multiaddr, listen: &[Multiaddr]) -> DialRes {
    let mut res = DialRes::default();
    let mut node = match new_node(listen) {
        Ok(n) => n,
        Err(e) => {
            res.error = Some(e);
            return res;
        }
    };
    let pre = node.litep2p.verif_snapshot();
    if snapshot_touched(&pre) {
        res.error = Some(format!("fresh node has a non-empty manager snapshot: {pre:?}"));
        return res;
    }
    let r = catch_unwind(AssertUnwindSafe(|| {
        let r = poll_now(node.litep2p.dial_address(addr.clone()));
        node.settle();
        (r, node.litep2p.verif_snapshot())
    }));
    let (r, snap) = match r {
        Ok(x) => x,
        Err(_) => {
            let msg = e1::take_panic();
            res.class = "panic".into();
            res.viols.push(Viol::new(format!("panic/dial-address/{}", e1::panic_site(&msg)), format!("dial_address({addr}) panicked: {msg}")));
            return res;
        }
    };
    let calls = node.script.take_calls();
    let events = node.take_events();
    match r {
        None => {
            res.class = "pending".into();
            res.viols.push(Viol::new("shapes/dial-address/pending", format!("dial_address({addr}) did not complete synchronously")));
        }
        Some(Err(e)) => {
            let d = format!("{e:?}");
            res.class = if d.starts_with("TransportNotSupported") { "TransportNotSupported".to_string() } else { d.chars().take(60).collect() };
            if snap != pre || !calls.is_empty() || !events.is_empty() {
                res.viols.push(Viol::new(
                    format!("shapes/dial-address/error-leaves-state/{}", res.class),
                    format!("dial_address({addr}) failed with {d} but left peers {:?}, pending {:?}, transport calls {calls:?}, events {}", snap.peers, snap.pending_connections, events.len()),
                ));
            }
        }
        Some(Ok(())) => {
            res.class = "ok".into();
            // exactly one transport dial, of that address
            let dialed: Vec<(usize, Multiaddr)> = calls
                .iter()
                .filter_map(|c| match c {
                    Call::Dial { id, address } => Some((*id, address.clone())),
                    _ => None,
                })
                .collect();
            if calls.len() != 1 || dialed.len() != 1 {
                res.viols.push(Viol::new(
                    "shapes/dial-address/ok-without-single-transport-dial",
                    format!("dial_address({addr}) returned Ok, transport calls: {calls:?}"),
                ));
                return res;
            }
            let (id, dialed_addr) = dialed[0].clone();
            if dialed_addr != *addr {
                res.viols.push(Viol::new(
                    "shapes/dial-address/transport-given-different-address",
                    format!("dial_address({addr}) handed {dialed_addr} to the transport"),
                ));
            }
            // the peer the manager tracks for this attempt
            let tracked: Vec<&litep2p::verif::PeerSnapshot> = snap.peers.iter().filter(|ps| ps.state != "disconnected" || !ps.address_book.is_empty()).collect();
            let pending: Vec<PeerId> = snap.pending_connections.iter().filter(|(c, _)| c.verif_raw() == id).map(|(_, p)| *p).collect();
            if tracked.len() != 1 || pending.len() != 1 || tracked[0].peer != pending[0] {
                res.viols.push(Viol::new(
                    "shapes/dial-address/ok-without-single-peer-entry",
                    format!("dial_address({addr}) returned Ok; peers {:?}, pending connections {:?}", snap.peers, snap.pending_connections),
                ));
                return res;
            }
            let b = pending[0];
            res.manager_peer = Some(peer_name(&b));
            if tracked[0].state != "dialing" {
                res.viols.push(Viol::new(
                    "shapes/dial-address/ok-but-peer-not-dialing",
                    format!("dial_address({addr}) returned Ok but peer {} is in state {}", peer_name(&b), tracked[0].state),
                ));
            }
            // what the TCP transport would do with the very same address
            let mut disagrees = false;
            match tcp_parse_multiaddr(&dialed_addr) {
                Err(e) => res.viols.push(Viol::new(
                    "shapes/dial-address/ok-but-transport-parser-rejects",
                    format!("dial_address({addr}) returned Ok and put peer {} into dialing, but TcpTransport::dial would fail to parse the address ({e})", peer_name(&b)),
                )),
                Ok((_, None)) => res.viols.push(Viol::new(
                    "shapes/dial-address/transport-parser-finds-no-peer",
                    format!("dial_address({addr}) tracks peer {} but the TCP parser finds no peer id to authenticate", peer_name(&b)),
                )),
                Ok((sock, Some(x))) => {
                    if x != b {
                        disagrees = true;
                        // consequence: the TCP transport authenticates x and reports the connection for x
                        let ep = Endpoint::Dialer { address: dialed_addr.clone(), connection_id: ConnectionId::from(id) };
                        node.script.emit(TransportEvent::ConnectionEstablished { peer: x, endpoint: ep });
                        let after = catch_unwind(AssertUnwindSafe(|| {
                            node.settle();
                            (node.script.take_calls(), node.litep2p.verif_snapshot())
                        }));
                        let consequence = match after {
                            Err(_) => format!("the manager panics: {}", e1::take_panic()),
                            Ok((calls, s2)) => format!(
                                "the manager answers {calls:?}; peer states afterwards: {:?}",
                                s2.peers.iter().map(|ps| (peer_name(&ps.peer), ps.state)).collect::<Vec<_>>()
                            ),
                        };
                        res.note = consequence.clone();
                        res.viols.push(Viol::new(
                            "shapes/dial-address-peer-disagrees-with-transport-parser",
                            format!(
                                "dial_address({addr}) returned Ok: the manager tracks the attempt (and files the address) under peer {} (last /p2p/), \
                                 while the TCP transport parses the same address as {sock} and would dial and authenticate peer {} (the /p2p/ right after the port). \
                                 When the transport then reports ConnectionEstablished for {}: {consequence}",
                                peer_name(&b),
                                peer_name(&x),
                                peer_name(&x),
                            ),
                        ));
                    }
                }
            }
            // what dial_address filed in the book is "remembered" too: it must not be an own listen address
            // (attribution / dialability of the filed address is what the parser comparison above decides)
            let _ = disagrees;
            for ps in &snap.peers {
                for (s, _) in &ps.address_book {
                    check_remembered("dial-address", addr, s, &ps.peer, listen, true, &mut res.viols);
                }
            }
        }
    }
    res
}

#[derive(Default)]
struct ShapeStats {
    evaluations: u64,
    remembered: u64,
    refused: u64,
    remembered_port_zero: u64,
    remembered_without_peer_id: u64,
    offered_without_peer_id: u64,
    dial_ok: u64,
    dial_err: u64,
    dial_classes: BTreeMap<String, u64>,
    by_len: BTreeMap<usize, u64>,
}

struct TaskOut {
    add: AddRes,
    dial: DialRes,
}

fn run_shapes(ctx: &mut Ctx) -> String {
    let firsts5: Vec<usize> = (0..N_HOST_FIRSTS).collect();
    let seconds5: Vec<usize> = ctx.tier.pick(vec![0], vec![0, 1]);
    let addrs = enumerate(&firsts5, &seconds5);
    let listens = listen_configs();
    let n_tasks = addrs.len() * listens.len();
    let threads = std::thread::available_parallelism().map(|n| n.get()).unwrap_or(8);
    let next = AtomicUsize::new(0);
    let outs: Mutex<Vec<(usize, TaskOut)>> = Mutex::new(Vec::with_capacity(n_tasks));
    let (addrs_ref, listens_ref) = (&addrs, &listens);
    std::thread::scope(|s| {
        for _ in 0..threads {
            s.spawn(|| {
                let rt = driver::runtime(7);
                let _g = rt.enter();
                let mut local = Vec::new();
                loop {
                    let lo = next.fetch_add(64, Ordering::Relaxed);
                    if lo >= n_tasks {
                        break;
                    }
                    for t in lo..(lo + 64).min(n_tasks) {
                        let (ai, li) = (t / listens_ref.len(), t % listens_ref.len());
                        let add = eval_add(&addrs_ref[ai], &listens_ref[li]);
                        let dial = eval_dial(&addrs_ref[ai], &listens_ref[li]);
                        local.push((t, TaskOut { add, dial }));
                    }
                }
                outs.lock().unwrap().extend(local);
            });
        }
    });
    let mut outs = outs.into_inner().unwrap();
    outs.sort_by_key(|(t, _)| *t);

    let mut st = ShapeStats::default();
    let mut distinct: HashSet<Vec<u8>> = HashSet::new();
    let mut classes: BTreeSet<String> = BTreeSet::new();
    let mut per_addr_class: BTreeMap<usize, String> = BTreeMap::new();
    let mut sampled: BTreeSet<String> = BTreeSet::new();
    let mut samples: Vec<Value> = Vec::new();
    for a in &addrs {
        distinct.insert(a.to_vec());
        *st.by_len.entry(a.iter().count()).or_default() += 1;
    }
    for (t, out) in outs {
        let (ai, li) = (t / listens.len(), t % listens.len());
        let (addr, listen) = (&addrs[ai], &listens[li]);
        if let Some(e) = out.add.error.as_ref().or(out.dial.error.as_ref()) {
            ctx.machinery_error(format!("shapes: {addr} listen {listen:?}: {e}"));
            continue;
        }
        st.evaluations += 2;
        let anonymous = named_peers(addr).is_empty();
        st.offered_without_peer_id += anonymous as u64;
        if out.add.remembered {
            st.remembered += 1;
            st.remembered_without_peer_id += anonymous as u64;
            if addr.iter().any(|c| matches!(c, Protocol::Tcp(0))) {
                st.remembered_port_zero += 1;
            }
        } else {
            st.refused += 1;
        }
        if out.dial.class == "ok" {
            st.dial_ok += 1;
        } else {
            st.dial_err += 1;
        }
        *st.dial_classes.entry(out.dial.class.clone()).or_default() += 1;
        let class = format!(
            "{}|{}|{}",
            if out.add.remembered { "remembered" } else { "refused" },
            out.dial.class,
            out.dial.manager_peer.clone().unwrap_or_default()
        );
        per_addr_class.entry(ai).or_default().push_str(&format!("[{li}:{class}]"));
        if sampled.insert(class.clone()) {
            samples.push(json!({
                "part": "shapes", "address": addr.to_string(), "listen": listen.iter().map(|l| l.to_string()).collect::<Vec<_>>(),
                "add_known_returned": out.add.returned, "stored_as": out.add.stored,
                "dial_address": out.dial.class, "manager_peer": out.dial.manager_peer,
            }));
        }
        for v in out.add.viols {
            ctx.violation(Violation { signature: v.signature, what: v.what, replay: shape_replay("add", addr, listen) });
        }
        for v in out.dial.viols {
            ctx.violation(Violation { signature: v.signature, what: v.what, replay: shape_replay("dial", addr, listen) });
        }
    }
    for c in per_addr_class.values() {
        classes.insert(c.clone());
    }
    // most informative first: remembered / accepted dials before the refusals
    samples.sort_by_key(|s| (s["stored_as"].is_null(), s["dial_address"] != "ok"));
    for s in samples.into_iter().take(5) {
        ctx.sample(s);
    }
    if st.remembered == 0 || st.dial_ok == 0 {
        ctx.machinery_error("shapes: vacuous sweep (nothing remembered or no dial accepted)");
    }
    if distinct.len() != addrs.len() {
        ctx.machinery_error(format!("shapes: grammar produced {} addresses but only {} distinct", addrs.len(), distinct.len()));
    }
    ctx.cov_add("evaluations", st.evaluations);
    ctx.cov("distinct_nontrivial", classes.len() as u64);
    ctx.sub(
        "shapes",
        json!({
            "addresses": addrs.len(), "distinct_addresses": distinct.len(), "addresses_by_length": st.by_len,
            "listen_configurations": listens.len(), "evaluations": st.evaluations,
            "add_known_remembered": st.remembered, "add_known_refused": st.refused,
            "remembered_with_tcp_port_0": st.remembered_port_zero,
            "offered_without_peer_id": st.offered_without_peer_id, "remembered_without_peer_id": st.remembered_without_peer_id,
            "dial_address_ok": st.dial_ok, "dial_address_not_ok": st.dial_err, "dial_address_outcomes": st.dial_classes,
            "distinct_outcome_profiles": classes.len(),
        }),
    );
    let f = first_components();
    format!(
        "(a) E3 grammar sweep: every multiaddress of 1..=4 components with first ∈ {{ip4 1.2.3.4, ip4 0.0.0.0, ip4 127.0.0.1, ip4 10.0.0.1, ip6 ::1, ip6 ::, \
         ip6 2001:db8::1, dns/dns4/dns6 example.com, tcp 30333, p2p P}} and each later component ∈ {{tcp 30333, tcp 0, udp 30333, ws, wss, quic-v1, p2p P, p2p Q, \
         p2p-circuit, http}}, plus every 5-component address whose first component ∈ {{{}}} and second ∈ {{{}}} (later set for components 3..5): {} addresses × 3 listen \
         configurations (none, 127.0.0.1:30333, 0.0.0.0:30333) × {{add_known_address(P,·), dial_address(·)}}, each on a fresh Litep2p over the scripted transport",
        firsts5.iter().map(|i| f[*i].to_string()).collect::<Vec<_>>().join(", "),
        seconds5.iter().map(|i| later_components()[*i].to_string()).collect::<Vec<_>>().join(", "),
        addrs.len(),
    )
}

fn replay_shape(case: &Value) -> Result<String, String> {
    let addr: Multiaddr = match case["address_hex"].as_str() {
        Some(h) => {
            let bytes: Vec<u8> = (0..h.len() / 2).map(|i| u8::from_str_radix(&h[2 * i..2 * i + 2], 16).unwrap_or(0)).collect();
            Multiaddr::try_from(bytes).map_err(|e| format!("bad address bytes: {e}"))?
        }
        None => case["address"].as_str().ok_or("no address")?.parse().map_err(|e| format!("bad address: {e}"))?,
    };
    let listen: Vec<Multiaddr> = case["listen"]
        .as_array()
        .cloned()
        .unwrap_or_default()
        .iter()
        .filter_map(|l| l.as_str().and_then(|s| s.parse().ok()))
        .collect();
    let rt = driver::runtime(7);
    let _g = rt.enter();
    let mut log = format!("address {addr} (P = {}, Q = {}), listen {listen:?}\n", peer_p(), peer_q());
    log.push_str(&format!("tcp parser on the offered address: {:?}\n", tcp_parse_multiaddr(&addr)));
    let viols = match case["op"].as_str() {
        Some("add") => {
            let r = eval_add(&addr, &listen);
            if let Some(e) = r.error {
                return Err(format!("{log}machinery: {e}"));
            }
            log.push_str(&format!("add_known_address(P, addr) returned {}, remembered as {:?}\n", r.returned, r.stored));
            r.viols
        }
        _ => {
            let r = eval_dial(&addr, &listen);
            if let Some(e) = r.error {
                return Err(format!("{log}machinery: {e}"));
            }
            log.push_str(&format!("dial_address(addr): {} manager peer {:?} {}\n", r.class, r.manager_peer, r.note));
            r.viols
        }
    };
    if viols.is_empty() {
        return Ok(log);
    }
    for v in viols {
        log.push_str(&format!("VIOLATION [{}] {}\n", v.signature, v.what));
    }
    Err(log)
}

// =================================================================================================
// Part (b): AddressStore histories
// =================================================================================================

#[derive(Clone, Copy, Debug, Serialize, Deserialize, PartialEq, Eq)]
pub enum Root {
    Empty,
    Part63,
    AllZero,
    UniqueMin,
    AllNegative,
    Mixed,
}

#[derive(Clone, Debug, Serialize, Deserialize)]
pub enum Op {
    /// insert an address that is not in the store (private 10.x or public 8.8.x) with this score
    New { public: bool, score: i32 },
    /// re-insert an address that is in the store: a lowest-scored one or a highest-scored one
    Again { high: bool, score: i32 },
}

pub struct StoreModel {
    pub root: Root,
}

pub struct StoreSys {
    store: AddressStore,
    fresh: u32,
}

fn store_addr(public: bool, class: u8, i: u32) -> Multiaddr {
    let ip = if public { Ipv4Addr::new(8, 8, class, i as u8) } else { Ipv4Addr::new(10, class, (i >> 8) as u8, i as u8) };
    Multiaddr::empty()
        .with(Protocol::Ip4(ip))
        .with(Protocol::Tcp(30333 + (i >> 8) as u16))
        .with(Protocol::P2p(peer_p().into()))
}

/// (address, score given to insert, public) of the root's pre-fill
fn prefill(root: Root) -> Vec<(Multiaddr, i32, bool)> {
    let n = match root {
        Root::Empty => 0,
        Root::Part63 => max_addresses().saturating_sub(1),
        _ => max_addresses(),
    };
    (0..n as u32)
        .map(|i| {
            let (score, public) = match root {
                Root::Empty => unreachable!(),
                Root::Part63 => ([0, 100, -100][(i % 3) as usize], false),
                Root::AllZero => (0, false),
                Root::UniqueMin => (if i == 17 { -50 } else if i % 2 == 0 { 0 } else { 100 }, false),
                Root::AllNegative => (-100 - (i % 4) as i32 * 50, false),
                Root::Mixed => ([-100, 0, 0, 100, 50, -100, 1, i32::MIN][(i % 8) as usize], i % 2 == 1),
            };
            (store_addr(public, 1, i), score, public)
        })
        .collect()
}

fn dump(store: &AddressStore) -> BTreeMap<Multiaddr, i32> {
    store.addresses.iter().map(|(a, r)| (a.clone(), r.verif_score())).collect()
}

fn is_public(a: &Multiaddr) -> bool {
    matches!(a.iter().next(), Some(Protocol::Ip4(ip)) if ip.octets()[0] == 8)
}

impl StoreModel {
    fn check_new(pre: &BTreeMap<Multiaddr, i32>, post: &BTreeMap<Multiaddr, i32>, addr: &Multiaddr, s: i32, public: bool) -> Result<(), Viol> {
        let removed: Vec<(&Multiaddr, &i32)> = pre.iter().filter(|(a, _)| !post.contains_key(*a)).collect();
        let added: Vec<&Multiaddr> = post.keys().filter(|a| !pre.contains_key(*a)).collect();
        for (a, sc) in pre {
            if let Some(now) = post.get(a) {
                if now != sc {
                    return Err(Viol::new("store/unrelated-entry-rescored/on-new", format!("inserting new {addr} (score {s}) changed {a}: {sc} -> {now}")));
                }
            }
        }
        if added.iter().any(|a| *a != addr) {
            return Err(Viol::new("store/unknown-address-appeared", format!("inserting new {addr} made {added:?} appear")));
        }
        let full = pre.len() >= max_addresses();
        let min = pre.values().min().copied();
        match post.get(addr) {
            Some(eff) => {
                let ok = *eff == s || (public && *eff == s.saturating_add(scores::PUBLIC_ADDRESS_BONUS));
                if !ok {
                    return Err(Viol::new("store/new-address-wrong-score", format!("new {addr} inserted with score {s} is stored with score {eff}")));
                }
                if !full {
                    if !removed.is_empty() {
                        return Err(Viol::new("store/evicted-below-capacity", format!("store held {} < {} addresses, inserting {addr} removed {removed:?}", pre.len(), max_addresses())));
                    }
                } else {
                    let min = min.unwrap();
                    if removed.is_empty() {
                        return Err(Viol::new("store/over-capacity", format!("store was full ({}), new {addr} admitted without displacing anything: now {}", pre.len(), post.len())));
                    }
                    if removed.len() > 1 {
                        return Err(Viol::new("store/evicted-more-than-one", format!("inserting new {addr} (score {s}) removed {removed:?}")));
                    }
                    if *removed[0].1 != min {
                        return Err(Viol::new(
                            "store/evicted-entry-not-lowest-scored",
                            format!("store full, new {addr} (stored score {eff}) displaced {} with score {}, but the lowest score in the store was {min}", removed[0].0, removed[0].1),
                        ));
                    }
                    if *eff < min {
                        return Err(Viol::new(
                            "store/new-address-below-minimum-admitted",
                            format!("store full with minimum score {min}; new {addr} with lower score {eff} was admitted and displaced {}", removed[0].0),
                        ));
                    }
                }
            }
            None => {
                if !removed.is_empty() {
                    return Err(Viol::new("store/entry-lost-without-admission", format!("new {addr} (score {s}) was not admitted but {removed:?} disappeared")));
                }
                if !full {
                    return Err(Viol::new("store/new-address-dropped-below-capacity", format!("store held {} < {} addresses but new {addr} (score {s}) was not remembered", pre.len(), max_addresses())));
                }
                let min = min.unwrap();
                if s > min {
                    return Err(Viol::new(
                        "store/better-new-address-not-admitted",
                        format!("store full with minimum score {min}; new {addr} with higher score {s} was dropped instead of displacing the lowest-scored address"),
                    ));
                }
            }
        }
        Ok(())
    }

    fn check_again(pre: &BTreeMap<Multiaddr, i32>, post: &BTreeMap<Multiaddr, i32>, target: &Multiaddr, s: i32) -> Result<(), Viol> {
        let old = pre[target];
        let expect = if s != 0 { s } else { old };
        for a in pre.keys() {
            if !post.contains_key(a) {
                return Err(Viol::new("store/entry-lost-on-reinsert", format!("re-inserting {target} (score {s}) removed {a}")));
            }
        }
        for a in post.keys() {
            if !pre.contains_key(a) {
                return Err(Viol::new("store/unknown-address-appeared", format!("re-inserting {target} made {a} appear")));
            }
        }
        for (a, now) in post {
            if a == target {
                if *now != expect {
                    return Err(if s == 0 {
                        Viol::new("store/rediscovery-erased-history", format!("{target} had score {old}; re-adding it with score 0 (rediscovery) changed its score to {now}"))
                    } else {
                        Viol::new("store/rescore-wrong-value", format!("{target} had score {old}; re-scoring it with {s} left score {now}"))
                    });
                }
            } else if *now != pre[a] {
                return Err(Viol::new("store/unrelated-entry-rescored/on-reinsert", format!("re-inserting {target} (score {s}) changed {a}: {} -> {now}", pre[a])));
            }
        }
        Ok(())
    }

    fn check_addresses(store: &AddressStore, post: &BTreeMap<Multiaddr, i32>) -> Result<(), Viol> {
        for k in [0usize, 1, 5, 64, 100] {
            let v = store.addresses(k);
            if v.len() > k {
                return Err(Viol::new("store/addresses-exceeds-limit", format!("addresses({k}) returned {} addresses", v.len())));
            }
            let mut seen = BTreeSet::new();
            let mut scores_out = Vec::new();
            for a in &v {
                match post.get(a) {
                    None => return Err(Viol::new("store/addresses-returns-unknown", format!("addresses({k}) returned {a} which is not in the store"))),
                    Some(s) => scores_out.push(*s),
                }
                if !seen.insert(a.clone()) {
                    return Err(Viol::new("store/addresses-returns-duplicate", format!("addresses({k}) returned {a} twice")));
                }
            }
            if scores_out.windows(2).any(|w| w[0] < w[1]) {
                return Err(Viol::new("store/addresses-not-by-score", format!("addresses({k}) returned scores {scores_out:?}, not in non-increasing order")));
            }
            if let Some(lowest) = scores_out.last() {
                let best_left = post.iter().filter(|(a, _)| !seen.contains(*a)).map(|(_, s)| *s).max();
                if best_left.is_some_and(|b| b > *lowest) {
                    return Err(Viol::new(
                        "store/addresses-skips-better-address",
                        format!("addresses({k}) returned scores {scores_out:?} although an address with score {} was left out", best_left.unwrap()),
                    ));
                }
            }
        }
        Ok(())
    }
}

impl Model for StoreModel {
    type Sys = StoreSys;
    type Action = Op;

    fn name(&self) -> String {
        "c10-store".into()
    }

    fn config(&self) -> Value {
        json!({ "root": self.root })
    }

    fn init(&self) -> StoreSys {
        let mut store = AddressStore::new();
        let fill = prefill(self.root);
        for (a, s, _) in &fill {
            store.insert(AddressRecord::from_raw_multiaddr_with_score(a.clone(), *s));
        }
        // the root itself must be what the pre-fill says (never exceeds the bound, so no eviction is involved)
        let d = dump(&store);
        assert_eq!(d.len(), fill.len(), "pre-fill of {:?} lost addresses", self.root);
        for (a, s, public) in &fill {
            let got = d[a];
            assert!(got == *s || (*public && got == s.saturating_add(scores::PUBLIC_ADDRESS_BONUS)), "pre-fill score of {a}: {got} vs {s}");
        }
        StoreSys { store, fresh: 0 }
    }

    fn enabled(&self, sys: &StoreSys) -> Vec<Op> {
        let mut v = Vec::new();
        for score in [0, 100, -100] {
            v.push(Op::New { public: false, score });
            v.push(Op::New { public: true, score });
        }
        if !sys.store.is_empty() {
            for score in [0, 100, -100, i32::MIN] {
                v.push(Op::Again { high: false, score });
                v.push(Op::Again { high: true, score });
            }
        }
        v
    }

    fn apply(&self, sys: &mut StoreSys, op: &Op) -> Result<Step, Viol> {
        let pre = dump(&sys.store);
        match op {
            Op::New { public, score } => {
                let addr = store_addr(*public, 2, sys.fresh);
                sys.fresh += 1;
                debug_assert!(!pre.contains_key(&addr) && is_public(&addr) == *public);
                sys.store.insert(AddressRecord::from_raw_multiaddr_with_score(addr.clone(), *score));
                let post = dump(&sys.store);
                Self::check_new(&pre, &post, &addr, *score, *public)?;
            }
            Op::Again { high, score } => {
                // a lowest / highest scored address of the actual content (ties: smallest address); the canonical
                // state is the score multiset, so which of several equal ones is picked does not matter
                let target = if *high {
                    let m = pre.values().max().copied().expect("enabled");
                    pre.iter().find(|(_, s)| **s == m).map(|(a, _)| a.clone()).unwrap()
                } else {
                    let m = pre.values().min().copied().expect("enabled");
                    pre.iter().find(|(_, s)| **s == m).map(|(a, _)| a.clone()).unwrap()
                };
                sys.store.insert(AddressRecord::from_raw_multiaddr_with_score(target.clone(), *score));
                let post = dump(&sys.store);
                Self::check_again(&pre, &post, &target, *score)?;
            }
        }
        let post = dump(&sys.store);
        if post.len() > max_addresses() {
            return Err(Viol::new("store/over-capacity", format!("{} addresses stored after {op:?}", post.len())));
        }
        Self::check_addresses(&sys.store, &post)?;
        Ok(Step::Ok)
    }

    fn canon(&self, sys: &StoreSys) -> Vec<u8> {
        let mut scores_sorted: Vec<i32> = sys.store.addresses.values().map(|r| r.verif_score()).collect();
        scores_sorted.sort();
        scores_sorted.iter().flat_map(|s| s.to_le_bytes()).collect()
    }
}

fn roots() -> Vec<Root> {
    vec![Root::Empty, Root::Part63, Root::AllZero, Root::UniqueMin, Root::AllNegative, Root::Mixed]
}

fn run_store(ctx: &mut Ctx) -> String {
    let depth = ctx.tier.pick(4, 6);
    let ex = Explorer { max_depth: depth, max_states: 2_000_000, recheck_every: 1, ..Default::default() };
    for root in roots() {
        let out = ex.run(&StoreModel { root });
        e1::absorb(ctx, &format!("store[root={root:?}]"), out);
    }
    ctx.cov("store_depth_bound", depth as u64);
    format!(
        "(b) E1 BFS over all operation histories of length ≤ {depth} on the real AddressStore from 6 roots (empty, 63 entries, 64 entries with scores all 0 / one unique minimum / \
         all negative / mixed incl. i32::MIN and public addresses) over {{insert NEW private|public address with score 0|+100|−100, re-insert a lowest|highest scored existing address \
         with score 0|+100|−100|i32::MIN}}; transition-relation oracle on full dumps before/after; states = score multisets (insensitive to which equal-minimum entry HashMap iteration evicts)"
    )
}

// =================================================================================================

// =================================================================================================
// Part (d): the address that was dialed is the address that is re-scored — on the real TCP transport
// =================================================================================================

/// Two real TCP nodes. The dialer knows the listener under one address of each name-based shape the TCP transport
/// resolves (`/dns4/localhost`, `/dns/localhost`, and the plain `/ip4` form as control) and dials it by peer id. After
/// the connection is up, the peer's address book must hold exactly the offered address, with the success score, and no
/// address nobody offered (the transport reports the address it connected to back to the manager; it has to be the
/// shape it was given).
fn dialed_address_is_the_one_rescored_on_real_tcp(ctx: &mut Ctx) {
    use crate::env::simnet::{NodeCmd, World};
    for shape in ["ip4", "dns4", "dns"] {
        let result = std::thread::spawn(move || -> Result<String, (String, String)> {
            let rt = crate::env::driver::runtime_io(4);
            let r = catch_unwind(AssertUnwindSafe(|| {
                rt.block_on(async {
                    let (_park_tx, park_rx) = std::sync::mpsc::channel::<()>();
                    let _parked = tokio::task::spawn_blocking(move || {
                        let _ = park_rx.recv();
                    });
                    let mut w = World::new();
                    let mut handles = Vec::new();
                    let mut mk = || {
                        let (m, h) = crate::env::node::Monitor::new("/verif/x/1");
                        handles.push(h);
                        ConfigBuilder::new().with_user_protocol(m).with_keep_alive_timeout(std::time::Duration::from_secs(100_000))
                    };
                    let l = w.add_tcp_node(71, mk()).expect("tcp node");
                    let r = w.add_tcp_node(72, mk()).expect("tcp node");
                    async fn settle(w: &mut World) {
                        loop {
                            w.run_to_quiescence(1_000_000);
                            if !crate::mc::e2::settle_io(w).await {
                                break;
                            }
                        }
                    }
                    settle(&mut w).await;
                    let peer_r = w.nodes[r].peer;
                    let port = w.nodes[r].address.iter().find_map(|p| if let Protocol::Tcp(port) = p { Some(port) } else { None }).expect("tcp port");
                    let offered: Multiaddr = match shape {
                        "ip4" => format!("/ip4/127.0.0.1/tcp/{port}"),
                        "dns4" => format!("/dns4/localhost/tcp/{port}"),
                        _ => format!("/dns/localhost/tcp/{port}"),
                    }
                    .parse::<Multiaddr>()
                    .unwrap()
                    .with(Protocol::P2p(peer_r.into()));
                    let _ = w.nodes[l].cmd.send(NodeCmd::AddKnown(peer_r, offered.clone()));
                    settle(&mut w).await;
                    let _ = w.nodes[l].cmd.send(NodeCmd::Dial(peer_r));
                    // name resolution runs on the resolver's own tasks: give it (real) time, then the handshake
                    for _ in 0..40 {
                        settle(&mut w).await;
                        if w.nodes[l].log.lock().iter().any(|e| matches!(e, crate::env::simnet::NodeLog::Event(s) if s.starts_with("ConnectionEstablished"))) {
                            break;
                        }
                        tokio::time::advance(std::time::Duration::from_millis(5)).await;
                        std::thread::sleep(std::time::Duration::from_millis(5));
                    }
                    settle(&mut w).await;
                    let slot = std::sync::Arc::new(parking_lot::Mutex::new(None));
                    let _ = w.nodes[l].cmd.send(NodeCmd::Snapshot(slot.clone()));
                    settle(&mut w).await;
                    let snap: ManagerSnapshot = slot.lock().take().ok_or(("machinery/no-snapshot".to_string(), "the node did not answer the snapshot command".to_string()))?;
                    let log: Vec<String> = w.nodes[l].log.lock().iter().map(|e| format!("{e:?}").chars().take(120).collect()).collect();
                    let established = log.iter().any(|s| s.contains("ConnectionEstablished"));
                    let book = snap.peers.iter().find(|p| p.peer == peer_r).map(|p| p.address_book.clone()).unwrap_or_default();
                    let desc = format!("offered {offered}; established={established}; address book of the peer {book:?}; node log {log:?}");
                    if !established {
                        if shape == "ip4" {
                            return Err(("machinery/named-address-setup".to_string(), format!("the control dial did not connect; {desc}")));
                        }
                        // the name could not be resolved in this sandbox: nothing to judge
                        return Ok(format!("SKIPPED (no connection): {desc}"));
                    }
                    for (a, _) in &book {
                        if *a != offered {
                            return Err(("store/address-nobody-offered-after-successful-dial".to_string(), format!("the book holds {a}, which nobody offered; {desc}")));
                        }
                    }
                    match book.iter().find(|(a, _)| *a == offered) {
                        Some((_, s)) if *s >= scores::CONNECTION_ESTABLISHED => Ok(desc),
                        other => Err(("store/dialed-address-not-rescored-after-successful-dial".to_string(), format!("the offered address has {other:?} after the successful dial; {desc}"))),
                    }
                })
            }));
            match r {
                Ok(x) => x,
                Err(_) => {
                    let msg = e1::take_panic();
                    Err((format!("panic/{}", e1::panic_site(&msg)), format!("panic in the named-address TCP scenario ({shape}): {msg}")))
                }
            }
        })
        .join();
        let replay = json!({"kind": "dialed-address-rescored-on-real-tcp", "shape": shape});
        match result {
            Ok(Ok(desc)) => {
                ctx.cov_add("evaluations", 1);
                if desc.starts_with("SKIPPED") {
                    ctx.cov_add("named_address_scenarios_skipped_name_not_resolvable", 1);
                } else {
                    ctx.cov_add("named_address_scenarios_on_real_tcp", 1);
                }
            }
            Ok(Err((sig, what))) if sig.starts_with("machinery/") => ctx.machinery_error(format!("{sig}: {what}")),
            Ok(Err((sig, what))) => ctx.violation(Violation { signature: sig, what, replay }),
            Err(_) => ctx.machinery_error("named-address TCP scenario: harness thread panicked outside the guarded region"),
        }
    }
}

pub fn run(ctx: &mut Ctx) {
    super::manager::run_filtered(ctx, "c10");
    let manager_rule = ctx.coverage.get("rule").and_then(|v| v.as_str()).unwrap_or("").to_string();
    let shapes_rule = run_shapes(ctx);
    let store_rule = run_store(ctx);
    dialed_address_is_the_one_rescored_on_real_tcp(ctx);
    ctx.cov("rule", format!("(c) {manager_rule}; {shapes_rule}; {store_rule}"));
    ctx.assume("only the TCP transport is enabled (the scripted transport registers as SupportedTransport::Tcp; the websocket feature is off), so 'parsed and dialed by an enabled transport' is judged by TcpAddress::multiaddr_to_socket_address accepting the stored address and extracting the owning peer");
    ctx.assume("'one of the node's own listen addresses' is judged by exact equality of the first two components (ip, tcp port) with a configured listen address; litep2p's broader loopback / unspecified equivalences are accepted but not demanded");
    ctx.assume("the public-address bonus is outside the statement: a new public address may be stored with score s or s + PUBLIC_ADDRESS_BONUS");
    ctx.assume("refusing an address is always allowed by the statement ('only if'), except the plainly valid shapes host/tcp/30333[/p2p/P] and a new address offered to a store below its bound, which must be remembered");
}

pub fn replay(case: &Value) -> Result<String, String> {
    if case["kind"].as_str() == Some("shape") {
        return replay_shape(case);
    }
    match case["model"].as_str() {
        Some("manager") => super::manager::replay(case),
        Some("c10-store") => {
            let root: Root = serde_json::from_value(case["config"]["root"].clone()).map_err(|e| e.to_string())?;
            let actions: Vec<Op> = serde_json::from_value(case["actions"].clone()).map_err(|e| e.to_string())?;
            e1::replay_actions(&StoreModel { root }, &actions, case["probe"].as_bool().unwrap_or(false))
        }
        other => Err(format!("unknown model {other:?}")),
    }
}
